#!/usr/bin/env python3
"""regenerate harmless/README.md from harmless/*/meta.json (the false-alarm drill: behaviour-preserving refactors)"""
import os, json, glob
VERIF = os.path.abspath(os.path.join(os.path.dirname(__file__), ".."))
rows = []
for d in sorted(glob.glob(os.path.join(VERIF, "harmless", "C*-*"))):
    try:
        m = json.load(open(os.path.join(d, "meta.json")))
    except Exception:
        continue
    verdicts = []
    for c, v in sorted((m.get("checks_run_against_it") or {}).items()):
        if not isinstance(v, dict):
            continue
        if v.get("exit") == 0 and not v.get("violation"):
            verdicts.append("%s quiet" % c)
        elif v.get("no_failing_input"):
            verdicts.append("%s: proof obligation no longer checks, no failing input (`no-failing-input-found`)" % c)
        else:
            verdicts.append("%s: ALARM (exit %s)" % (c, v.get("exit")))
    after = m.get("after_correction")
    rows.append("| %s | %s | %s | %s | %s |" % (os.path.basename(d), (m.get("kind") or "").replace("|", "/"), (m.get("summary") or "").replace("|", "/").replace("\n", " ")[:330],
                                          "; ".join(verdicts), after or ""))
txt = """# Behaviour-preserving refactors (false-alarm drill)

Each directory holds a change to /repo that an independent sub-agent (given only the text of one property, the list of functions it is
anchored in and a scratch worktree) wrote as a *harmless* rewrite of that code: `patch.diff`, the agent's equivalence program
`equiv.py` (its dump is byte-identical with and without the patch; confirmed by me together with the pinned suite: 42 pass, same 10
fail) and `meta.json` with the verdicts of the quick checks run against it (`tools/harmless_eval.py`).  Expected verdict: quiet.
The column "first run" is the verdict before anything was corrected; "after" is filled where the machinery was corrected (DESIGN.md §7).

| change | kind | what was rewritten | first run | after |
|---|---|---|---|---|
""" + "\n".join(rows) + "\n"
open(os.path.join(VERIF, "harmless", "README.md"), "w").write(txt)
print(len(rows), "rows")
