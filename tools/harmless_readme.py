#!/usr/bin/env python3
"""regenerate harmless/README.md from harmless/*/meta.json (the false-alarm drill: behaviour-preserving refactors)"""
import os, json, glob
VERIF = os.path.abspath(os.path.join(os.path.dirname(__file__), ".."))
rows = []
for d in sorted(glob.glob(os.path.join(VERIF, "harmless", "C*-*"))):
    try:
        m = json.load(open(os.path.join(d, "meta.json")))
    except Exception:
        continue
    verdicts = []
    for c, v in sorted((m.get("checks_run_against_it") or {}).items()):
        if not isinstance(v, dict):
            continue
        if v.get("exit") == 0 and not v.get("violation"):
            verdicts.append("%s quiet" % c)
        elif v.get("no_failing_input"):
            verdicts.append("%s: proof obligation no longer checks, no failing input (`no-failing-input-found`)" % c)
        else:
            verdicts.append("%s: ALARM (exit %s)" % (c, v.get("exit")))
    after = m.get("after_correction") or ""
    rr_txt = ""
    for key in ("rerun_after_round8", "rerun_after_round9"):
        rr = m.get(key) or {}
        t = "; ".join("%s %s" % (k, v) for k, v in rr.items() if k not in ("lines", "tail"))
        if t:
            rr_txt += ("; " if rr_txt else "") + "%s (%s)" % (t, key.replace("rerun_after_", "after "))
    rows.append("| %s | %s | %s | %s | %s | %s |" % (os.path.basename(d), (m.get("kind") or "").replace("|", "/"), (m.get("summary") or "").replace("|", "/").replace("\n", " ")[:330],
                                          "; ".join(verdicts), after, rr_txt))
txt = """# Behaviour-preserving refactors (false-alarm drill)

Each directory holds a change to /repo that an independent sub-agent (given only the text of one property, the list of functions it is
anchored in and a scratch worktree) wrote as a *harmless* rewrite of that code: `patch.diff`, the agent's equivalence program
`equiv.py` (its dump is byte-identical with and without the patch; confirmed by me together with the pinned suite: 42 pass, same 10
fail) and `meta.json` with the verdicts of the quick checks run against it (`tools/harmless_eval.py`).  Expected verdict: quiet.
The column "first run" is the verdict before anything was corrected; "after" is filled where the machinery was corrected (DESIGN.md §7); the last
column is the verdict of the property's own quick check re-run on every patch after the checks were strengthened in mutation rounds 8 and 9.

| change | kind | what was rewritten | first run | after | own check re-run after the strengthening of mutation rounds 8 and 9 |
|---|---|---|---|---|---|
""" + "\n".join(rows) + "\n"
open(os.path.join(VERIF, "harmless", "README.md"), "w").write(txt)
print(len(rows), "rows")
