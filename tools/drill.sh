#!/bin/sh
# mutation drill: tools/drill.sh <patch.diff> [-R] <Cxx> [<Cxx> ...]
# applies the patch to /repo, runs the named quick checks, restores /repo, prints one summary line per check
patch="$1"; shift
rev=""
if [ "$1" = "-R" ]; then rev="-R"; shift; fi
cd "$(dirname "$0")/.."
git -C /repo diff --quiet || { echo "repo dirty, refusing"; exit 2; }
git -C /repo apply $rev "$patch" || { echo "patch does not apply"; exit 2; }
for c in "$@"; do
  out=$(VERIF_SEED=${VERIF_SEED:-1} ./check $c --tier quick 2>/dev/null | grep -E "^(OK|FAIL|VIOLATION)" | tr '\n' ' ')
  echo "$c: $out"
done
git -C /repo checkout -- . 
