#!/bin/sh
# run every check (quick by default); usage: tools/run_all.sh [quick|thorough] [seed]
tier="${1:-quick}"; seed="${2:-1}"
cd "$(dirname "$0")/.."
for c in C01 C02 C03 C04 C05 C06 C07 C08 C09 C10 C11 C12 C13 C14 C15 C16 C17 C18 C19 C20; do
  VERIF_SEED=$seed ./check $c --tier $tier 2>/dev/null | grep -E "^(OK|FAIL|VIOLATION|KNOWN)" ; echo "   rc=$? $c"
done
