#!/usr/bin/env python3
import json, os, glob
R = os.path.join(os.path.dirname(os.path.abspath(__file__)), "..", "seeded")
rows = []
for d in sorted(glob.glob(os.path.join(R, "C*-*"))):
    m = json.load(open(os.path.join(d, "meta.json")))
    det = [c for c, v in m["checks_run_against_it"].items() if isinstance(v, dict) and v.get("detected")]
    miss = [c for c, v in m["checks_run_against_it"].items() if isinstance(v, dict) and not v.get("detected")]
    rows.append((os.path.basename(d), m["property"], (m.get("summary") or "").replace("|", "/").replace("\n", " ")[:170], (m.get("needs") or "").replace("|", "/").replace("\n", " ")[:150],
                 "yes" if m.get("confirmed") else "NO", ", ".join(det) or "-", ", ".join(miss) or "-"))
out = ["# Seeded breaking changes", "",
       "Each directory holds `patch.diff` (apply with `git -C /repo apply`), `demo.py` (exits non-zero with the change, 0 without) and `meta.json`.",
       "All were written by independent sub-agents that were given only the text of one property and a scratch worktree of /repo (nothing from /verif);",
       "each was confirmed by me in a scratch worktree (patch applies; pinned suite still 42 pass / same 10 fail; demo fails with, passes without)",
       "and then applied to /repo, the quick checks run, and /repo restored (`tools/seed_eval.py`).  None is committed to /repo.",
       "`prompts/` keeps one example (property C05) of the task text the agents of each round were given; `round<k>_first_run.log` is the verdict of the",
       "checks as they were BEFORE that round's strengthening (DESIGN.md section 11).", "",
       "| id | property | change | needs | confirmed | caught by (quick tier) | run but not caught by |", "|---|---|---|---|---|---|---|"]
for r in rows:
    out.append("| " + " | ".join(r) + " |")
out += ["", "Changes that were first missed and what was strengthened are listed in DESIGN.md §11.", ""]
open(os.path.join(R, "README.md"), "w").write("\n".join(out))
print("\n".join(out[8:]))
