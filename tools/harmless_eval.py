#!/usr/bin/env python3
"""evaluate BEHAVIOUR-PRESERVING refactors produced by independent sub-agents (the false-alarm drill):
   tools/harmless_eval.py <Cxx> [k ...] [--confirm-only|--check-only]   (reads /tmp/wt/<Cxx>/_outH/patch<k>.diff, equiv<k>.py, meta<k>.json)
   1. confirms in the scratch worktree: patch applies, pinned suite still 42 pass / same 10 fail, the agent's equivalence dump is
      byte-identical with and without the patch
   2. applies the patch to /repo, runs ./check <Cxx> (quick) and the checks named in EXTRA_CHECKS, restores /repo;
      expected: exit 0 and no VIOLATION line (a `no-failing-input-found` line from a source-text proof is recorded separately)
   3. stores harmless/<Cxx>-<k>/{patch.diff,equiv.py,meta.json}"""
import sys, os, subprocess, json, shutil, re
VERIF = os.path.abspath(os.path.join(os.path.dirname(__file__), ".."))
from seed_eval import BASE_FAIL, sh


def main():
    args = [a for a in sys.argv[1:] if not a.startswith("--")]
    mode = ([a for a in sys.argv[1:] if a.startswith("--")] or ["--all"])[0]
    pid = args[0]
    ks = args[1:] or ["1", "2"]
    extra_checks = os.environ.get("EXTRA_CHECKS", "").split()
    wt = "/tmp/wt/" + pid
    out = os.path.join(wt, "_outH")
    for k in ks:
        patch = os.path.join(out, "patch%s.diff" % k)
        equiv = os.path.join(out, "equiv%s.py" % k)
        if not (os.path.exists(patch) and os.path.exists(equiv)):
            print(pid, k, "missing files")
            continue
        meta = {}
        try:
            meta = json.load(open(os.path.join(out, "meta%s.json" % k)))
        except Exception:
            pass
        cfile = os.path.join(out, "confirm%s.json" % k)
        if mode == "--check-only":
            conf = json.load(open(cfile))
        else:
            sh("git checkout -- localcider", cwd=wt)
            a, b = os.path.join(out, "dump_clean%s.json" % k), os.path.join(out, "dump_patched%s.json" % k)
            rc0, o0 = sh("PYTHONPATH=%s /venv/bin/python %s dump %s" % (wt, equiv, a), cwd=out, timeout=1800)
            rc, o = sh("git apply " + patch, cwd=wt)
            if rc != 0:
                print(pid, k, "patch does not apply:", o[-300:])
                continue
            rc, o = sh("PYTHONPATH=%s /venv/bin/python -m pytest -q -p no:cacheprovider --timeout=900 --continue-on-collection-errors 2>&1 | tail -15" % wt, cwd=wt)
            m = re.search(r"(\d+) failed, (\d+) passed", o)
            failed = set(re.findall(r"FAILED \S+::(\w+)", o))
            tests = {"failed": int(m.group(1)) if m else None, "passed": int(m.group(2)) if m else None, "same_failures": failed == BASE_FAIL}
            rc1, o1 = sh("PYTHONPATH=%s /venv/bin/python %s dump %s" % (wt, equiv, b), cwd=out, timeout=1800)
            sh("git checkout -- localcider", cwd=wt)
            same = rc0 == 0 and rc1 == 0 and os.path.exists(a) and os.path.exists(b) and open(a, "rb").read() == open(b, "rb").read()
            conf = {"tests": tests, "equiv_dump_identical": same, "dump_bytes": os.path.getsize(a) if os.path.exists(a) else 0,
                    "confirmed": tests["passed"] == 42 and tests["same_failures"] and same}
            for f in (a, b):
                if os.path.exists(f):
                    os.remove(f)
            json.dump(conf, open(cfile, "w"))
        if mode == "--confirm-only":
            print(pid, k, "confirmed" if conf["confirmed"] else "NOT-CONFIRMED %r" % (conf,))
            continue
        rc, _ = sh("git -C /repo diff --quiet")
        if rc != 0:
            print("repo dirty; abort")
            return 2
        rc, o = sh("git -C /repo apply " + patch)
        det = {}
        if rc == 0:
            try:
                for c in [pid] + [e for e in extra_checks if e != pid]:
                    p = subprocess.run("./check %s --tier quick 2>&1" % c, shell=True, cwd=VERIF, stdout=subprocess.PIPE, stderr=subprocess.STDOUT, text=True,
                                       env=dict(os.environ, VERIF_SEED=os.environ.get("VERIF_SEED", "1")), timeout=3600)
                    lines = [l for l in p.stdout.split("\n") if re.match(r"^(OK|FAIL|VIOLATION|KNOWN-FINDING|ERROR)", l)]
                    viol = [l for l in lines if l.startswith("VIOLATION")]
                    det[c] = {"exit": p.returncode, "violation": bool(viol), "no_failing_input": any("no-failing-input-found" in l for l in viol),
                              "lines": [l[:300] for l in lines][-4:]}
                    if p.returncode not in (0, 1) or (p.returncode != 0 and not viol):
                        det[c]["tail"] = p.stdout[-1500:]
                    if viol:
                        rp = os.path.join(VERIF, "replays", "%s_violation.json" % c)
                        if os.path.exists(rp):
                            try:
                                j = json.load(open(rp))
                                det[c]["replay_block"] = j.get("block", [])[:4]
                                det[c]["replay_detail"] = str(j.get("detail"))[:600]
                            except Exception:
                                pass
            finally:
                sh("git -C /repo checkout -- .")
        else:
            det["apply_to_repo"] = o[-300:]
        d = os.path.join(VERIF, "harmless", "%s-%s" % (pid, k))
        os.makedirs(d, exist_ok=True)
        shutil.copy(patch, os.path.join(d, "patch.diff"))
        shutil.copy(equiv, os.path.join(d, "equiv.py"))
        json.dump({"property": pid, "summary": meta.get("summary"), "kind": meta.get("kind"), "files": meta.get("files"), "notes": meta.get("notes"),
                   "origin": "independent sub-agent given only the property text and a scratch worktree, asked for a behaviour-preserving change",
                   "confirmed_by_me": conf, "checks_run_against_it": det}, open(os.path.join(d, "meta.json"), "w"), indent=1)
        verdict = {c: ("quiet" if v.get("exit") == 0 and not v.get("violation") else "NO-INPUT" if v.get("no_failing_input") else "ALARM exit=%s" % v.get("exit"))
                   for c, v in det.items() if isinstance(v, dict)}
        print(pid, k, "confirmed" if conf["confirmed"] else "NOT-CONFIRMED", "|", verdict, "|", (meta.get("summary") or "")[:100])


if __name__ == "__main__":
    sys.exit(main())
