#!/venv/bin/python
"""
(G) translator, part 2: AST translation of a handful of small pure DECISION functions of the live
source into Lean (lean/Cider/Gen/Decisions.lean), re-done on every run.

Handles one shape only: a function whose body is assignments of arithmetic expressions,
if/elif/else, return, raise and bare calls to the message helpers (skipped as effect-free);
expressions over names, numeric literals (-> exact decimal rationals), + - * /, **2, unary -,
abs(), comparisons (chained too), and/or/not; `self.f()` calls, `self.attr` and `len(self.seq)`
become parameters of the generated Lean function (in order of first occurrence).
Output: `def <name> (params : Rat) : Except Unit Rat` (True/False are 1/0; falling off the end is `.ok 0`).

If a function no longer fits the shape it is listed under "unavailable" (the theorem module about
it is then skipped by ./check; the hand model stays tied by the correspondence run) - an
unrecognised shape is not an alarm.
"""
import ast, sys, os, json, warnings
warnings.simplefilter('ignore')
from fractions import Fraction

REPO = os.environ.get("CIDER_REPO", "/repo")
OUT = os.environ.get("PX_OUT") or os.path.join(os.path.dirname(os.path.abspath(__file__)), "..", "lean", "Cider", "Gen", "Decisions.lean")

TARGETS = [
    # (file, class, function, lean name, theorem module that uses it)
    ("localcider/backend/sequence.py", "Sequence", "phasePlotRegion", "phasePlotRegion", "C08Src"),
    ("localcider/backend/sequence.py", "Sequence", "kappa", "kappaDecision", "C01Src"),
    ("localcider/backend/sequence.py", "Sequence", "sigma", "sigmaDecision", "C01Src"),
    ("localcider/backend/sequence.py", "Sequence", "_Sequence__check_window_to_length", "checkWindow", "C13Src"),
    ("localcider/sequenceParameters.py", "SequenceParameters", "_SequenceParameters__verify_pH", "verifyPH", "C09Src"),
    ("localcider/backend/wang_landau.py", "WangLandauMachine", "indexInsideRelevantRegion", "insideRelevant", "C18Src"),
    # the no-pH forms of the composition getters (pH specialised to None)
    ("localcider/backend/sequence.py", "Sequence", "Fplus", "fplusSrc", "C04Src"),
    ("localcider/backend/sequence.py", "Sequence", "Fminus", "fminusSrc", "C04Src"),
    ("localcider/backend/sequence.py", "Sequence", "FCR", "fcrSrc", "C04Src", ("pH",)),
    ("localcider/backend/sequence.py", "Sequence", "NCPR", "ncprSrc", "C04Src", ("pH",)),
    ("localcider/backend/sequence.py", "Sequence", "FER", "ferSrc", "C04Src", ("pH",)),
    ("localcider/backend/sequence.py", "Sequence", "mean_net_charge", "mncSrc", "C04Src", ("pH",)),
    ("localcider/backend/sequence.py", "Sequence", "delta", "deltaSrc", "C02Src"),
    # the body of deltaForm's loop over blobs: the increment of the accumulator as a function of the blob's counts
    ("localcider/backend/sequence.py", "Sequence", "deltaForm", "deltaTermSrc", "C02Src", {"loop_body": True}),
    # the integer bookkeeping at the head of the six sliding-window profile functions (up to their first loop)
    ("localcider/backend/sequence.py", "Sequence", "linearDistOfNCPR", "flanksNCPR", "C10Src", {"ty": "Int", "outputs": ["flank_start", "flank_end", "nblobs"]}),
    ("localcider/backend/sequence.py", "Sequence", "linearDistOfFCR", "flanksFCR", "C10Src", {"ty": "Int", "outputs": ["flank_start", "flank_end", "nblobs"]}),
    ("localcider/backend/sequence.py", "Sequence", "linearDistOfSigma", "flanksSigma", "C10Src", {"ty": "Int", "outputs": ["flank_start", "flank_end", "nblobs"]}),
    ("localcider/backend/sequence.py", "Sequence", "linearDistOfHydropathy", "flanksHydro", "C10Src", {"ty": "Int", "outputs": ["flank_start", "flank_end", "nblobs"]}),
    ("localcider/backend/sequence.py", "Sequence", "linearDistOfHydropathy_2", "flanksHydro2", "C10Src", {"ty": "Int", "outputs": ["flank_start", "flank_end", "nblobs"]}),
    ("localcider/backend/sequence.py", "Sequence", "linearDenistyOfAAs", "flanksDensity", "C10Src", {"ty": "Int", "outputs": ["flank_start", "flank_end", "nblobs"]}),
    # the per-residue recoding decision inside the loops of Omega / Omega_seq / kappa_X (Char-valued), plus what surrounds the loop
    ("localcider/backend/sequence.py", "Sequence", "Omega", "omegaCharSrc", "C06Src", {"charloop": 0}),
    ("localcider/backend/sequence.py", "Sequence", "Omega_seq", "omegaSeqCharSrc", "C06Src", {"charloop": 0}),
    ("localcider/backend/sequence.py", "Sequence", "kappa_X", "kappaX2CharSrc", "C06Src", {"charloop": 0}),
    ("localcider/backend/sequence.py", "Sequence", "kappa_X", "kappaX1CharSrc", "C06Src", {"charloop": 1}),
    # the index arithmetic of the SCD double loop: range bounds, the two subscripts, the distance, the exponent, the final quotient
    ("localcider/backend/sequence.py", "Sequence", "sequence_charge_decoration", "scdNest", "C07Src", {"pairnest": True}),
    # the per-site decision of setPhosPhoSites' loop (what is appended to self.phosphosites, if anything) and the S/T/Y letter lists
    ("localcider/backend/sequence.py", "Sequence", "setPhosPhoSites", "setSiteSrc", "C16Src", {"siteloop": True}),
    ("localcider/backend/sequence.py", "Sequence", "get_STY_residues", "stySrc", "C16Src", {"letters": True}),
    # the per-character decision of validateSequence's loop: append / drop / raise
    ("localcider/backend/sequence.py", "Sequence", "validateSequence", "validateCharSrc", "C13Val", {"validateloop": True}),
]
# the interface (parameter list) each translated fragment had when the CxxSrc proofs were written: the quantities of the object the text
# reads.  A rewrite that reads other quantities (a new private helper, a cached count, ...) no longer FITS the statement of the proof -
# the fragment is then reported as unavailable (module skipped, (K) still ties the function), exactly like text the translator cannot read
EXPECTED_PARAMS = {
    "phasePlotRegion": ["FCR", "NCPR", "Fplus", "Fminus"], "kappaDecision": ["deltaMax", "delta"],
    "sigmaDecision": ["countNeut", "len", "NCPR", "FCR"], "checkWindow": ["bloblen", "len_seq"], "verifyPH": ["pH"],
    "insideRelevant": ["idx", "relevant_max", "relevant_min"], "fplusSrc": ["countPos", "len"], "fminusSrc": ["countNeg", "len"],
    "fcrSrc": ["countPos", "countNeg", "len"], "ncprSrc": ["countPos", "countNeg", "len"], "ferSrc": ["countPos", "countNeg", "count_P", "len"],
    "mncSrc": ["NCPR"], "deltaSrc": ["deltaForm_5", "deltaForm_6"], "deltaTermSrc": ["blob", "bpos", "bneg", "bloblen", "sigma", "nblobs"],
    "flanksNCPR": ["bloblen", "len"], "flanksFCR": ["bloblen", "len"], "flanksSigma": ["bloblen", "len"], "flanksHydro": ["bloblen", "len"],
    "flanksHydro2": ["bloblen", "len"], "flanksDensity": ["bloblen", "targetAAs", "len"],
    "omegaCharSrc": ["res"], "omegaSeqCharSrc": ["res"], "kappaX2CharSrc": ["in_grp1", "in_grp2"], "kappaX1CharSrc": ["in_grp1"],
}
SKIP_CALLS = {"warning_message", "status_message", "print"}


class Unsupported(Exception):
    pass


class Tr:
    def __init__(self, argnames, none_args=(), ty="Rat", outputs=None, opaque=False):
        self.opaque = opaque              # loop-body mode: names defined outside / by untranslatable right-hand sides become parameters
        self.ty = ty                      # "Rat" (decision functions) or "Int" (integer bookkeeping prefix of a longer function)
        self.outputs = outputs            # prefix mode: the local variables handed back when the first untranslatable statement is reached
        self.params = []          # lean parameter names in order
        self.none_args = set(none_args)   # arguments specialised to None (the no-pH form of a getter)
        self.argnames = [a for a in argnames if a not in self.none_args]
        for a in self.argnames:
            self.param(a)

    def param(self, name):
        name = name.replace("__", "_").strip("_") or "p"
        if name not in self.params:
            self.params.append(name)
        return name

    def num(self, v):
        if isinstance(v, bool):
            return "(1 : %s)" % self.ty if v else "(0 : %s)" % self.ty
        if isinstance(v, int):
            return "(%d : %s)" % (v, self.ty)
        if isinstance(v, float) and self.ty == "Int":
            raise Unsupported("float constant in integer mode")
        if isinstance(v, float):
            f = Fraction(repr(v))
            return "((%d : Rat) / %d)" % (f.numerator, f.denominator)
        raise Unsupported("constant %r" % (v,))

    def expr(self, e, local):
        if isinstance(e, ast.Constant):
            return self.num(e.value)
        if isinstance(e, ast.Name):
            if e.id in local:
                return e.id
            if e.id in self.argnames:
                return self.param(e.id)
            if self.opaque:
                return self.param(e.id)
            raise Unsupported("free name %s" % e.id)
        if isinstance(e, ast.Attribute) and isinstance(e.value, ast.Name) and e.value.id == "self":
            return self.param(e.attr)
        if isinstance(e, ast.Call):
            f = e.func
            if isinstance(f, ast.Attribute) and isinstance(f.value, ast.Name) and f.value.id == "self" and not e.keywords and \
                    all(isinstance(a, ast.Name) and a.id in self.none_args for a in e.args):
                return self.param(f.attr)           # self.f() / self.f(pH) with pH specialised to None
            if isinstance(f, ast.Attribute) and isinstance(f.value, ast.Name) and f.value.id == "self" and not e.keywords and e.args and \
                    all(isinstance(a, ast.Constant) and isinstance(a.value, int) and a.value >= 0 for a in e.args):
                return self.param(f.attr + "_" + "_".join(str(a.value) for a in e.args))      # self.f(5): one parameter per constant argument list
            if isinstance(f, ast.Attribute) and f.attr == "count" and isinstance(f.value, ast.Attribute) and isinstance(f.value.value, ast.Name) \
                    and f.value.value.id == "self" and len(e.args) == 1 and isinstance(e.args[0], ast.Constant) and isinstance(e.args[0].value, str) \
                    and e.args[0].value.isalnum():
                return self.param("count_" + e.args[0].value)     # self.seq.count('P')
            if isinstance(f, ast.Name) and f.id == "int" and len(e.args) == 1 and self.ty == "Int" and isinstance(e.args[0], ast.BinOp) \
                    and isinstance(e.args[0].op, ast.Div):
                # int(a / b) on integers: true division then truncation toward zero
                return "(Int.tdiv %s %s)" % (self.expr(e.args[0].left, local), self.expr(e.args[0].right, local))
            if isinstance(f, ast.Name) and f.id == "abs" and len(e.args) == 1:
                x = self.expr(e.args[0], local)
                return "(if %s < 0 then -%s else %s)" % (x, x, x)
            if isinstance(f, ast.Name) and f.id == "len" and len(e.args) == 1:
                a = e.args[0]
                if isinstance(a, ast.Attribute) and isinstance(a.value, ast.Name) and a.value.id == "self":
                    return self.param("len_" + a.attr)
            raise Unsupported("call %s" % ast.dump(f)[:60])
        if isinstance(e, ast.UnaryOp) and isinstance(e.op, ast.USub):
            return "(-%s)" % self.expr(e.operand, local)
        if isinstance(e, ast.BinOp):
            l, r = self.expr(e.left, local), None
            if isinstance(e.op, ast.Pow):
                if isinstance(e.right, ast.Constant) and e.right.value == 2:
                    return "(%s * %s)" % (l, l)
                raise Unsupported("power")
            r = self.expr(e.right, local)
            op = {ast.Add: "+", ast.Sub: "-", ast.Mult: "*", ast.Div: "/"}.get(type(e.op))
            if op == "/" and self.ty == "Int":
                raise Unsupported("bare true division in integer mode")
            if op is None:
                raise Unsupported("operator %s" % type(e.op).__name__)
            return "(%s %s %s)" % (l, op, r)
        raise Unsupported("expression %s" % type(e).__name__)

    def cond(self, e, local):
        if isinstance(e, ast.BoolOp):
            op = " ∧ " if isinstance(e.op, ast.And) else " ∨ "
            return "(" + op.join(self.cond(v, local) for v in e.values) + ")"
        if isinstance(e, ast.UnaryOp) and isinstance(e.op, ast.Not):
            return "(¬ %s)" % self.cond(e.operand, local)
        if isinstance(e, ast.Compare) and len(e.ops) == 1 and isinstance(e.ops[0], (ast.Is, ast.IsNot)) and isinstance(e.left, ast.Name) \
                and e.left.id in self.none_args and isinstance(e.comparators[0], ast.Constant) and e.comparators[0].value is None:
            return "True" if isinstance(e.ops[0], ast.Is) else "False"
        if isinstance(e, ast.Compare):
            parts = []
            left = e.left
            for op, right in zip(e.ops, e.comparators):
                o = {ast.Lt: "<", ast.LtE: "≤", ast.Gt: ">", ast.GtE: "≥", ast.Eq: "=", ast.NotEq: "≠"}.get(type(op))
                if o is None:
                    raise Unsupported("comparison %s" % type(op).__name__)
                parts.append("%s %s %s" % (self.expr(left, local), o, self.expr(right, local)))
                left = right
            return "(" + " ∧ ".join(parts) + ")"
        raise Unsupported("condition %s" % type(e).__name__)

    def finish(self, local, pad):
        missing = [o for o in self.outputs if o not in local]
        if missing:
            raise Unsupported("prefix ends before %s is assigned" % ",".join(missing))
        return pad + ".ok (" + ", ".join(self.outputs) + ")"

    def block(self, stmts, local, ind):
        """returns lean text for a statement list; every path ends in a value"""
        pad = "  " * ind
        if not stmts:
            return self.finish(local, pad) if self.outputs else pad + ".ok 0"
        s, rest = stmts[0], stmts[1:]
        if self.outputs and isinstance(s, (ast.For, ast.While, ast.Return)):
            return self.finish(local, pad)          # end of the straight-line prefix
        if self.outputs and isinstance(s, ast.Expr) and isinstance(s.value, ast.Call) and isinstance(s.value.func, ast.Attribute) \
                and isinstance(s.value.func.value, ast.Name) and s.value.func.value.id == "self":
            return self.block(rest, local, ind)     # a call of another method (its own contract is tied separately)
        if isinstance(s, ast.Expr):
            v = s.value
            if isinstance(v, ast.Constant) and isinstance(v.value, str):
                return self.block(rest, local, ind)
            if isinstance(v, ast.Call):
                f = v.func
                nm = f.id if isinstance(f, ast.Name) else (f.attr if isinstance(f, ast.Attribute) else None)
                if nm in SKIP_CALLS:
                    return self.block(rest, local, ind)
            raise Unsupported("expression statement")
        if isinstance(s, ast.Pass):
            return self.block(rest, local, ind)
        if isinstance(s, ast.Assign) and len(s.targets) == 1 and isinstance(s.targets[0], ast.Name):
            nm = s.targets[0].id
            try:
                rhs = self.expr(s.value, local)
            except Unsupported:
                if self.outputs:
                    return self.finish(local, pad)
                if self.opaque:
                    self.param(nm)          # whatever this computes is an input of the translated fragment
                    return self.block(rest, local - {nm}, ind)
                raise
            return pad + "let %s : %s := %s\n" % (nm, self.ty, rhs) + self.block(rest, local | {nm}, ind)
        if self.opaque and isinstance(s, ast.AugAssign) and isinstance(s.op, ast.Add) and isinstance(s.target, ast.Name) and not rest:
            return pad + ".ok %s" % self.expr(s.value, local)      # the increment of the accumulator is the fragment's value
        if isinstance(s, ast.Return):
            if s.value is None:
                return pad + ".ok 0"
            return pad + ".ok %s" % self.expr(s.value, local)
        if isinstance(s, ast.Raise):
            return pad + ".error ()"
        if isinstance(s, ast.If):
            c = self.cond(s.test, local)
            if c in ("True", "False"):      # statically decided (specialised argument)
                return self.block((s.body if c == "True" else s.orelse) + rest, local, ind)
            # code after the if is reached by every branch that falls through
            t = self.block(s.body + rest, local, ind + 1)
            f = self.block(s.orelse + rest, local, ind + 1)
            return pad + "if %s then\n%s\n%selse\n%s" % (c, t, pad, f)
        raise Unsupported("statement %s" % type(s).__name__)


class CharLoop:
    """`for res in self.seq:` whose body is one if/elif/else chain; every branch appends ONE character constant to the accumulator.
    Conditions: `res == 'c'`, `res in <name>` (a Bool parameter in_<name>), and / or / not.  Result: Char-valued Lean function."""

    def __init__(self, loop):
        if not (isinstance(loop.target, ast.Name) and isinstance(loop.iter, ast.Attribute) and isinstance(loop.iter.value, ast.Name)
                and loop.iter.value.id == "self" and loop.iter.attr == "seq" and not loop.orelse):
            raise Unsupported("not a loop over self.seq")
        self.var = loop.target.id
        self.params, self.types, self.acc = [], {}, None
        self.body = self.block(loop.body, 1)

    def param(self, name, ty):
        if name not in self.params:
            self.params.append(name)
            self.types[name] = ty
        return name

    def cond(self, e):
        if isinstance(e, ast.BoolOp):
            return "(" + (" ∧ " if isinstance(e.op, ast.And) else " ∨ ").join(self.cond(v) for v in e.values) + ")"
        if isinstance(e, ast.UnaryOp) and isinstance(e.op, ast.Not):
            return "(¬ %s)" % self.cond(e.operand)
        if isinstance(e, ast.Compare) and len(e.ops) == 1 and isinstance(e.left, ast.Name) and e.left.id == self.var:
            op, r = e.ops[0], e.comparators[0]
            if isinstance(op, (ast.Eq, ast.NotEq)) and isinstance(r, ast.Constant) and isinstance(r.value, str) and len(r.value) == 1 \
                    and r.value.isalnum():
                return "(%s %s '%s')" % (self.param("res", "Char"), "=" if isinstance(op, ast.Eq) else "≠", r.value)
            if isinstance(op, (ast.In, ast.NotIn)) and isinstance(r, ast.Name):
                return "(%s = %s)" % (self.param("in_" + r.id, "Bool"), "true" if isinstance(op, ast.In) else "false")
        raise Unsupported("per-residue condition %s" % ast.dump(e)[:60])

    def block(self, stmts, ind):
        pad = "  " * ind
        if len(stmts) != 1:
            raise Unsupported("per-residue body is not a single statement")
        s = stmts[0]
        if isinstance(s, ast.If):
            if not s.orelse:
                raise Unsupported("a residue may append nothing")
            c = self.cond(s.test)
            return pad + "if %s then\n%s\n%selse\n%s" % (c, self.block(s.body, ind + 1), pad, self.block(s.orelse, ind + 1))
        v = None
        if isinstance(s, ast.Assign) and len(s.targets) == 1 and isinstance(s.targets[0], ast.Name) and isinstance(s.value, ast.BinOp) \
                and isinstance(s.value.op, ast.Add) and isinstance(s.value.left, ast.Name) and s.value.left.id == s.targets[0].id:
            v, acc = s.value.right, s.targets[0].id
        elif isinstance(s, ast.AugAssign) and isinstance(s.op, ast.Add) and isinstance(s.target, ast.Name):
            v, acc = s.value, s.target.id
        if v is None or not (isinstance(v, ast.Constant) and isinstance(v.value, str) and len(v.value) == 1 and v.value.isalnum()):
            raise Unsupported("branch does not append one character constant")
        if self.acc not in (None, acc):
            raise Unsupported("two accumulators")
        self.acc = acc
        return pad + ".ok '%s'" % v.value


def loop_frame(f, loop, acc):
    """what surrounds the loop, normalised: the accumulator's initial value and how the function's LAST statements use it"""
    init = None
    for n in ast.walk(f):
        if isinstance(n, ast.Assign) and len(n.targets) == 1 and isinstance(n.targets[0], ast.Name) and n.targets[0].id == acc \
                and n.lineno < loop.lineno and isinstance(n.value, ast.Constant):
            init = n.value.value            # the last constant initialisation textually before the loop
    alias, tail = {}, None
    for s in f.body:
        if isinstance(s, ast.Assign) and len(s.targets) == 1 and isinstance(s.targets[0], ast.Name) and isinstance(s.value, ast.Call) \
                and s.lineno > loop.lineno:
            alias[s.targets[0].id] = ast.unparse(s.value)
        if isinstance(s, ast.Return):
            r = s.value
            if isinstance(r, ast.Call) and isinstance(r.func, ast.Attribute) and isinstance(r.func.value, ast.Name) and r.func.value.id in alias:
                tail = "%s.%s(%s)" % (alias[r.func.value.id], r.func.attr, ", ".join(ast.unparse(a) for a in r.args))
            else:
                tail = ast.unparse(r) if r is not None else "None"
    return "%r|%s" % (init, tail)


def pair_nest(f, path, cls, fn, lean_name):
    """`acc = 0; for m in range(a, b): for n in range(c, d): acc = acc + float(q[i]) * float(q[j]) * np.power(dist, e); return acc / self.len`
    -> Int-valued Lean definitions of a, b, c, d, i, j, dist, the exponent as a Rat and a normalised frame string"""
    body = [x for x in f.body if not (isinstance(x, ast.Expr) and isinstance(x.value, ast.Constant))]
    if len(body) != 3 or not isinstance(body[0], ast.Assign) or not isinstance(body[1], ast.For) or not isinstance(body[2], ast.Return):
        raise Unsupported("not `acc = c; for ...; return ...`")
    init, outer, ret = body
    if not (isinstance(init.targets[0], ast.Name) and isinstance(init.value, ast.Constant) and init.value.value == 0):
        raise Unsupported("accumulator does not start at 0")
    acc = init.targets[0].id
    if len(outer.body) != 1 or not isinstance(outer.body[0], ast.For) or outer.orelse:
        raise Unsupported("outer loop body is not one inner loop")
    inner = outer.body[0]

    def rng(loop):
        it = loop.iter
        if not (isinstance(loop.target, ast.Name) and isinstance(it, ast.Call) and isinstance(it.func, ast.Name) and it.func.id == "range"
                and len(it.args) == 2 and not it.keywords):
            raise Unsupported("loop is not `for v in range(a, b)`")
        return loop.target.id, it.args[0], it.args[1]
    m, a, b = rng(outer)
    n, c, d = rng(inner)
    if len(inner.body) != 1 or inner.orelse:
        raise Unsupported("inner loop body is not one statement")
    st = inner.body[0]
    if isinstance(st, ast.Assign) and isinstance(st.targets[0], ast.Name) and st.targets[0].id == acc and isinstance(st.value, ast.BinOp) \
            and isinstance(st.value.op, ast.Add) and isinstance(st.value.left, ast.Name) and st.value.left.id == acc:
        term = st.value.right
    elif isinstance(st, ast.AugAssign) and isinstance(st.op, ast.Add) and isinstance(st.target, ast.Name) and st.target.id == acc:
        term = st.value
    else:
        raise Unsupported("inner statement is not acc = acc + term")
    # term = float(q[i]) * float(q[j]) * np.power(dist, e), left-associated
    if not (isinstance(term, ast.BinOp) and isinstance(term.op, ast.Mult) and isinstance(term.left, ast.BinOp) and isinstance(term.left.op, ast.Mult)):
        raise Unsupported("term is not a product of three factors")
    fa, fb, fp = term.left.left, term.left.right, term.right

    def sub(x):
        if isinstance(x, ast.Call) and isinstance(x.func, ast.Name) and x.func.id == "float" and len(x.args) == 1:
            x = x.args[0]
        if not (isinstance(x, ast.Subscript) and isinstance(x.value, ast.Attribute) and isinstance(x.value.value, ast.Name)
                and x.value.value.id == "self" and x.value.attr == "chargePattern"):
            raise Unsupported("factor is not self.chargePattern[...]")
        return x.slice
    ia, ib = sub(fa), sub(fb)
    if not (isinstance(fp, ast.Call) and isinstance(fp.func, ast.Attribute) and fp.func.attr == "power" and len(fp.args) == 2
            and isinstance(fp.args[1], ast.Constant) and isinstance(fp.args[1].value, float)):
        raise Unsupported("third factor is not np.power(dist, <float constant>)")
    dist, ex = fp.args[0], Fraction(repr(fp.args[1].value))
    if not (isinstance(ret.value, ast.BinOp) and isinstance(ret.value.op, ast.Div) and isinstance(ret.value.left, ast.Name) and ret.value.left.id == acc):
        raise Unsupported("return is not acc / ...")
    out = []

    def emit(name, e, args):
        tr = Tr(args, (), "Int", None)
        txt = tr.expr(e, set())
        extra = [p_ for p_ in tr.params if p_ not in args]
        if extra and extra != ["len"]:
            raise Unsupported("%s reads %s" % (name, ",".join(extra)))
        ps = list(args) + (["len"] if "len" not in args else [])
        out.append("def %s%s %s : Int := %s" % (lean_name, name, " ".join("(%s : Int)" % q for q in ps), txt))
    emit("OuterLo", a, []); emit("OuterHi", b, [])
    emit("InnerLo", c, [m]); emit("InnerHi", d, [m])
    emit("IdxA", ia, [m, n]); emit("IdxB", ib, [m, n]); emit("Dist", dist, [m, n])
    emit("Denom", ret.value.right, [])
    out.append("def %sExp : Rat := (%d : Rat) / %d" % (lean_name, ex.numerator, ex.denominator))
    return ("/-- translated from %s:%s.%s (loop nest at line %d) -/\n" % (path, cls, fn, outer.lineno)) + "\n".join(out) + "\n"


def const_letters(e):
    if isinstance(e, (ast.List, ast.Tuple, ast.Set)) and e.elts and all(isinstance(x, ast.Constant) and isinstance(x.value, str)
                                                                        and len(x.value) == 1 and x.value.isalnum() for x in e.elts):
        return [x.value for x in e.elts]
    if isinstance(e, ast.Constant) and isinstance(e.value, str) and e.value.isalnum():
        return list(e.value)
    raise Unsupported("not a constant list of letters")


def letters_of(f, lean_name):
    """the one `<name> in [<letter constants>]` test of a function -> the list of letters"""
    found = [c for c in ast.walk(f) if isinstance(c, ast.Compare) and len(c.ops) == 1 and isinstance(c.ops[0], (ast.In, ast.NotIn))
             and isinstance(c.left, ast.Name) and isinstance(c.comparators[0], (ast.List, ast.Tuple, ast.Set, ast.Constant))]
    if len(found) != 1:
        raise Unsupported("expected exactly one membership test against constants")
    ls = const_letters(found[0].comparators[0])
    return "def %sLetters : List Char := [%s]\n" % (lean_name, ", ".join("'%s'" % c for c in ls))


class SiteLoop:
    """body of `for site in <arg>:` in setPhosPhoSites -> what is appended to self.phosphosites (some idx) or nothing (none).
    int(x) is the identity (the model's sites are integers); `continue`, `pass`, falling off the end -> none;
    `<res> not in [letters]` -> Bool parameter res_in_set (letters emitted separately); `<e> in self.phosphosites` -> Bool parameter already"""

    def __init__(self, loop):
        if not (isinstance(loop.target, ast.Name) and not loop.orelse):
            raise Unsupported("loop shape")
        self.var = loop.target.id
        self.tr = Tr([self.var], (), "Int", None)
        self.letters, self.bools, self.resvar = None, [], None
        self.body = self.block(list(loop.body), {self.var}, 1)

    def bparam(self, n):
        if n not in self.bools:
            self.bools.append(n)
        return n

    def cond(self, e, local):
        if isinstance(e, ast.BoolOp):
            return "(" + (" ∧ " if isinstance(e.op, ast.And) else " ∨ ").join(self.cond(v, local) for v in e.values) + ")"
        if isinstance(e, ast.UnaryOp) and isinstance(e.op, ast.Not):
            return "(¬ %s)" % self.cond(e.operand, local)
        if isinstance(e, ast.Compare) and len(e.ops) == 1 and isinstance(e.ops[0], (ast.In, ast.NotIn)):
            pos = isinstance(e.ops[0], ast.In)
            r = e.comparators[0]
            if isinstance(e.left, ast.Name) and e.left.id == self.resvar:
                ls = const_letters(r)
                if self.letters not in (None, ls):
                    raise Unsupported("two letter lists")
                self.letters = ls
                return "(%s = %s)" % (self.bparam("res_in_set"), "true" if pos else "false")
            if isinstance(r, ast.Attribute) and isinstance(r.value, ast.Name) and r.value.id == "self" and r.attr == "phosphosites" \
                    and isinstance(e.left, ast.Name) and e.left.id == self.idxvar:
                return "(%s = %s)" % (self.bparam("already"), "true" if pos else "false")
            raise Unsupported("membership test")
        return self.tr.cond(e, local)

    idxvar = None

    def block(self, stmts, local, ind):
        pad = "  " * ind
        if not stmts:
            return pad + ".ok none"
        s, rest = stmts[0], stmts[1:]
        if isinstance(s, (ast.Continue, ast.Pass)):
            return pad + ".ok none" if isinstance(s, ast.Continue) else self.block(rest, local, ind)
        if isinstance(s, ast.Expr) and isinstance(s.value, ast.Constant):
            return self.block(rest, local, ind)
        if isinstance(s, ast.Expr) and isinstance(s.value, ast.Call):
            f = s.value.func
            nm = f.id if isinstance(f, ast.Name) else None
            if nm in SKIP_CALLS:
                return self.block(rest, local, ind)
            if isinstance(f, ast.Attribute) and f.attr == "append" and isinstance(f.value, ast.Attribute) and isinstance(f.value.value, ast.Name) \
                    and f.value.value.id == "self" and f.value.attr == "phosphosites" and len(s.value.args) == 1:
                if rest:
                    raise Unsupported("statements after the append")
                return pad + ".ok (some %s)" % self.tr.expr(s.value.args[0], local)
            raise Unsupported("call statement")
        if isinstance(s, ast.Assign) and len(s.targets) == 1 and isinstance(s.targets[0], ast.Name):
            nm, v = s.targets[0].id, s.value
            if isinstance(v, ast.Call) and isinstance(v.func, ast.Name) and v.func.id == "int" and len(v.args) == 1 \
                    and isinstance(v.args[0], ast.Name) and v.args[0].id == nm:
                return self.block(rest, local, ind)                 # site = int(site)
            if isinstance(v, ast.Subscript) and isinstance(v.value, ast.Attribute) and isinstance(v.value.value, ast.Name) \
                    and v.value.value.id == "self" and v.value.attr == "seq" and isinstance(v.slice, ast.Name) and v.slice.id in local:
                self.resvar, self.idxvar = nm, v.slice.id              # res = self.seq[idx]
                return self.block(rest, local, ind)
            return pad + "let %s : Int := %s\n" % (nm, self.tr.expr(v, local)) + self.block(rest, local | {nm}, ind)
        if isinstance(s, ast.If):
            c = self.cond(s.test, local)
            return pad + "if %s then\n%s\n%selse\n%s" % (c, self.block(s.body + rest, local, ind + 1), pad, self.block(s.orelse + rest, local, ind + 1))
        raise Unsupported("statement %s" % type(s).__name__)


class ValidateLoop:
    """body of `for i in seq:` in validateSequence -> .ok true (the character is appended to the returned string), .ok false (dropped),
    .error () (raise).  Bookkeeping that cannot influence that (counters, warn-once flags, messages) is skipped; an `if` on such a flag must
    have the same outcome in both branches."""

    def __init__(self, f, loop):
        rets = [x for x in f.body if isinstance(x, ast.Return)]
        if len(rets) != 1 or not isinstance(rets[0].value, ast.Name) or not isinstance(loop.target, ast.Name) or loop.orelse:
            raise Unsupported("shape")
        self.acc, self.var = rets[0].value.id, loop.target.id
        self.params = []
        self.body = self.block(list(loop.body), 1)
        init = [x for x in f.body if isinstance(x, ast.Assign) and isinstance(x.targets[0], ast.Name) and x.targets[0].id == self.acc]
        pool = [x for x in f.body if isinstance(x, ast.Assign) and isinstance(x.targets[0], ast.Name) and x.targets[0].id == self.pool]
        if len(init) != 1 or len(pool) != 1:
            raise Unsupported("initialisations")
        self.frame = "%s|%s" % (ast.unparse(init[0].value), ast.unparse(pool[0].value))

    pool = None

    def param(self, n):
        if n not in self.params:
            self.params.append(n)
        return n

    def cond(self, e):
        """returns lean text, or None for a bookkeeping flag"""
        if isinstance(e, ast.UnaryOp) and isinstance(e.op, ast.Not):
            c = self.cond(e.operand)
            return None if c is None else "(¬ %s)" % c
        if isinstance(e, ast.Name) and e.id not in (self.var, self.acc):
            return None
        if isinstance(e, ast.Compare) and len(e.ops) == 1 and isinstance(e.ops[0], (ast.In, ast.NotIn)) and isinstance(e.left, ast.Name) \
                and e.left.id == self.var and isinstance(e.comparators[0], ast.Name):
            if self.pool not in (None, e.comparators[0].id):
                raise Unsupported("two pools")
            self.pool = e.comparators[0].id
            return "(%s = %s)" % (self.param("in_AAs"), "true" if isinstance(e.ops[0], ast.In) else "false")
        if isinstance(e, ast.Call) and isinstance(e.func, ast.Attribute) and e.func.attr == "isspace" and isinstance(e.func.value, ast.Name) \
                and e.func.value.id == self.var and not e.args:
            return "(%s = true)" % self.param("is_space")
        raise Unsupported("condition")

    def block(self, stmts, ind):
        pad = "  " * ind
        if not stmts:
            return pad + ".ok false"
        s, rest = stmts[0], stmts[1:]
        if isinstance(s, ast.Pass) or (isinstance(s, ast.Expr) and isinstance(s.value, ast.Constant)):
            return self.block(rest, ind)
        if isinstance(s, ast.Expr) and isinstance(s.value, ast.Call) and isinstance(s.value.func, ast.Name) and s.value.func.id in SKIP_CALLS:
            return self.block(rest, ind)
        if isinstance(s, ast.Raise):
            return pad + ".error ()"
        if isinstance(s, (ast.Assign, ast.AugAssign)):
            tgt = s.targets[0] if isinstance(s, ast.Assign) else s.target
            if not isinstance(tgt, ast.Name):
                raise Unsupported("assignment target")
            names = {n.id for n in ast.walk(s.value) if isinstance(n, ast.Name)}
            if tgt.id == self.acc:
                v = s.value
                ok = (isinstance(s, ast.AugAssign) and isinstance(s.op, ast.Add) and isinstance(v, ast.Name) and v.id == self.var) or \
                     (isinstance(s, ast.Assign) and isinstance(v, ast.BinOp) and isinstance(v.op, ast.Add) and isinstance(v.left, ast.Name)
                      and v.left.id == self.acc and isinstance(v.right, ast.Name) and v.right.id == self.var)
                if not ok or rest:
                    raise Unsupported("accumulator update")
                return pad + ".ok true"
            if tgt.id == self.var or self.acc in names:
                raise Unsupported("assignment touches the character or the result")
            return self.block(rest, ind)            # counters / flags
        if isinstance(s, ast.If):
            c = self.cond(s.test)
            t, f_ = self.block(s.body + rest, ind + 1), self.block(s.orelse + rest, ind + 1)
            if c is None:
                if t != f_:
                    raise Unsupported("a bookkeeping flag decides the outcome")
                return self.block(s.body + rest, ind)
            return pad + "if %s then\n%s\n%selse\n%s" % (c, t, pad, f_)
        raise Unsupported("statement %s" % type(s).__name__)


def find_func(tree, cls, name):
    plain = name.split("__")[-1] if name.startswith("_" + cls + "__") else name
    for n in tree.body:
        if isinstance(n, ast.ClassDef) and n.name == cls:
            for m in n.body:
                if isinstance(m, ast.FunctionDef) and m.name in (name, "__" + plain, plain):
                    return m
    return None


def main():
    defs, unavailable, info = [], [], {}
    for path, cls, fn, lean_name, module, *rest_t in TARGETS:
        try:
            src = open(os.path.join(REPO, path), newline=None).read()
            f = find_func(ast.parse(src), cls, fn)
            if f is None:
                raise Unsupported("function not found")
            args = [a.arg for a in f.args.args if a.arg != "self"]
            opt = rest_t[0] if rest_t else ()
            stmts = f.body
            if isinstance(opt, dict) and opt.get("validateloop"):
                loops = [x for x in f.body if isinstance(x, ast.For)]
                if len(loops) != 1:
                    raise Unsupported("expected exactly one top-level for loop")
                vl = ValidateLoop(f, loops[0])
                if vl.params != ["in_AAs", "is_space"]:
                    raise Unsupported("the text now reads (%s), the proof is stated over (in_AAs, is_space)" % ", ".join(vl.params))
                defs.append("/-- translated from %s:%s.%s (loop at line %d) -/\ndef %s (in_AAs : Bool) (is_space : Bool) : Except Unit Bool :=\n%s\n\n"
                            "/-- initial value of the returned string | what the pool of accepted characters is built from -/\n"
                            "def %sFrame : String := \"%s\"\n" % (path, cls, fn, loops[0].lineno, lean_name, vl.body, lean_name,
                                                                  vl.frame.replace("\\", "\\\\").replace('"', '\\"')))
                info[lean_name] = vl.params
                continue
            if isinstance(opt, dict) and opt.get("letters"):
                defs.append(("/-- translated from %s:%s.%s (line %d) -/\n" % (path, cls, fn, f.lineno)) + letters_of(f, lean_name))
                info[lean_name] = []
                continue
            if isinstance(opt, dict) and opt.get("siteloop"):
                loops = [x for x in f.body if isinstance(x, ast.For)]
                if len(loops) != 1:
                    raise Unsupported("expected exactly one top-level for loop")
                sl = SiteLoop(loops[0])
                ps = [q for q in sl.tr.params] + sl.bools
                if ps != ["site", "len_seq", "res_in_set", "already"] or sl.letters is None:
                    raise Unsupported("the text now reads (%s), the proof is stated over (site, len_seq, res_in_set, already)" % ", ".join(ps))
                defs.append("/-- translated from %s:%s.%s (loop at line %d) -/\ndef %s (site : Int) (len_seq : Int) (res_in_set : Bool) (already : Bool) : Except Unit (Option Int) :=\n%s\n\n"
                            "def %sLetters : List Char := [%s]\n" % (path, cls, fn, loops[0].lineno, lean_name, sl.body, lean_name,
                                                                     ", ".join("'%s'" % c for c in sl.letters)))
                info[lean_name] = ps
                continue
            if isinstance(opt, dict) and opt.get("pairnest"):
                defs.append(pair_nest(f, path, cls, fn, lean_name))
                info[lean_name] = ["len"]
                continue
            if isinstance(opt, dict) and "charloop" in opt:
                loops = sorted((x for x in ast.walk(f) if isinstance(x, ast.For)), key=lambda x: x.lineno)
                if len(loops) <= opt["charloop"]:
                    raise Unsupported("loop %d not found" % opt["charloop"])
                cl = CharLoop(loops[opt["charloop"]])
                if lean_name in EXPECTED_PARAMS and cl.params != EXPECTED_PARAMS[lean_name]:
                    raise Unsupported("the text now reads (%s), the proof is stated over (%s)" % (", ".join(cl.params), ", ".join(EXPECTED_PARAMS[lean_name])))
                frame = loop_frame(f, loops[opt["charloop"]], cl.acc).replace("\\", "\\\\").replace('"', '\\"')
                defs.append("/-- translated from %s:%s.%s (loop at line %d) -/\ndef %s %s : Except Unit Char :=\n%s\n\n"
                            "/-- accumulator's initial value | how the function's last statement uses the recoded string -/\n"
                            "def %sFrame : String := \"%s\"\n" % (
                    path, cls, fn, loops[opt["charloop"]].lineno, lean_name,
                    " ".join("(%s : %s)" % (p, cl.types[p]) for p in cl.params), cl.body, lean_name, frame))
                info[lean_name] = cl.params
                continue
            if isinstance(opt, dict) and opt.get("loop_body"):
                loops = [x for x in f.body if isinstance(x, ast.For)]
                if len(loops) != 1:
                    raise Unsupported("expected exactly one top-level for loop")
                stmts = loops[0].body
                tr = Tr([], (), "Rat", None, opaque=True)
                rty = "Rat"
            elif isinstance(opt, dict):
                tr = Tr(args, (), opt["ty"], opt["outputs"])
                rty = " × ".join([opt["ty"]] * len(opt["outputs"]))
            else:
                tr = Tr(args, opt)
                rty = "Rat"
            body = tr.block(stmts, set(), 1)
            if lean_name in EXPECTED_PARAMS and list(tr.params) != EXPECTED_PARAMS[lean_name]:
                raise Unsupported("the text now reads (%s), the proof is stated over (%s)" % (", ".join(tr.params), ", ".join(EXPECTED_PARAMS[lean_name])))
            params = " ".join("(%s : %s)" % (p, tr.ty) for p in tr.params)
            defs.append("/-- translated from %s:%s.%s (line %d) -/\ndef %s %s : Except Unit (%s) :=\n%s\n" % (
                path, cls, fn, f.lineno, lean_name, params, rty, body))
            info[lean_name] = tr.params
        except Unsupported as e:
            unavailable.append("%s: %s (%s)" % (module, lean_name, e))
        except Exception as e:
            unavailable.append("%s: %s (%s: %s)" % (module, lean_name, e.__class__.__name__, e))
    content = ("-- AUTO-GENERATED on every run by tools/pyexpr2lean.py from the live SOURCE TEXT in /repo. DO NOT EDIT.\n"
               "namespace Cider.Gen\n\n" + "\n".join(defs) +
               "\n/-- which decision functions could be translated on this run -/\n"
               "def translatedDecisions : List String := [%s]\n\nend Cider.Gen\n" % ", ".join('"%s"' % k for k in info))
    changed = []
    try:
        old = open(OUT).read()
    except FileNotFoundError:
        old = None
    if old != content:
        tmp = OUT + ".tmp%d" % os.getpid()
        open(tmp, "w").write(content)
        os.replace(tmp, OUT)
        changed.append("Decisions.lean")
    print(json.dumps({"ok": True, "changed": changed, "errors": {}, "unavailable": unavailable, "params": info}))
    return 0


if __name__ == "__main__":
    sys.exit(main())
