#!/usr/bin/env python3
"""evaluate seeded mutations produced by independent sub-agents:
   tools/seed_eval.py <Cxx> [k ...]   (reads /tmp/wt/<Cxx>/_out/patch<k>.diff etc.)
   1. confirms in the scratch worktree: patch applies, pinned suite still 42 pass / same 10 fail, demo fails with / passes without
   2. applies the patch to /repo, runs ./check <Cxx> (quick), restores /repo
   3. stores seeded/<Cxx>-<k>/{patch.diff,demo.py,meta.json}"""
import sys, os, subprocess, json, shutil, re
VERIF = os.path.abspath(os.path.join(os.path.dirname(__file__), ".."))
BASE_FAIL = {"test_save_multiple_phasePlot", "test_save_multiple_phasePlot2", "test_save_multiple_uverskyPlot", "test_save_multiple_uverskyPlot2",
             "test_save_single_phasePlot", "test_save_single_uverskyPlot", "test_general_coverage", "test_phaseDiagramDefinitions",
             "test_save_phaseDiagramPlot", "test_save_uverskyPlot"}


def sh(cmd, cwd=None, env=None, timeout=3600):
    e = dict(os.environ)
    if env:
        e.update(env)
    p = subprocess.run(cmd, shell=True, cwd=cwd, env=e, stdout=subprocess.PIPE, stderr=subprocess.STDOUT, text=True, timeout=timeout)
    return p.returncode, p.stdout


def main():
    args = [a for a in sys.argv[1:] if not a.startswith("--")]
    mode = ([a for a in sys.argv[1:] if a.startswith("--")] or ["--all"])[0]   # --confirm-only | --check-only | --all
    offset = int(os.environ.get("SEED_OFFSET", "0"))       # round 2 results are stored as <Cxx>-<k+offset>
    pid = args[0]
    ks = args[1:] or ["1", "2"]
    extra_checks = os.environ.get("EXTRA_CHECKS", "").split()
    wt = "/tmp/wt/" + pid
    out = os.path.join(wt, os.environ.get("SEED_OUT", "_out"))
    for k in ks:
        patch = os.path.join(out, "patch%s.diff" % k)
        demo = os.path.join(out, "demo%s.py" % k)
        if not (os.path.exists(patch) and os.path.exists(demo)):
            print(pid, k, "missing files")
            continue
        meta = {}
        try:
            meta = json.load(open(os.path.join(out, "meta%s.json" % k)))
        except Exception:
            pass
        res = {"property": pid, "k": k, "agent_meta": meta}
        cfile = os.path.join(out, "confirm%s.json" % k)
        if mode == "--check-only":
            c = json.load(open(cfile))
            res.update(c)
            rc1, rc2, confirmed = c["demo"]["with_mutation_rc"], c["demo"]["without_rc"], c["confirmed"]
        else:
          sh("git checkout -- localcider", cwd=wt)
          rc, o = sh("git apply " + patch, cwd=wt)
          res["applies"] = rc == 0
          if rc != 0:
              print(pid, k, "patch does not apply:", o[-300:])
              continue
          rc, o = sh("PYTHONPATH=%s /venv/bin/python -m pytest -q -p no:cacheprovider --timeout=900 --continue-on-collection-errors 2>&1 | tail -15" % wt, cwd=wt)
          m = re.search(r"(\d+) failed, (\d+) passed", o)
          failed = set(re.findall(r"FAILED \S+::(\w+)", o))
          res["tests"] = {"failed": int(m.group(1)) if m else None, "passed": int(m.group(2)) if m else None, "same_failures": failed == BASE_FAIL}
          rc1, o1 = sh("PYTHONPATH=%s /venv/bin/python %s" % (wt, demo), cwd=out, timeout=900)
          sh("git checkout -- localcider", cwd=wt)
          rc2, o2 = sh("PYTHONPATH=%s /venv/bin/python %s" % (wt, demo), cwd=out, timeout=900)
          res["demo"] = {"with_mutation_rc": rc1, "without_rc": rc2}
          confirmed = res["tests"]["passed"] == 42 and res["tests"]["same_failures"] and rc1 != 0 and rc2 == 0
          res["confirmed"] = confirmed
          json.dump({k2: res[k2] for k2 in ("applies", "tests", "demo", "confirmed")}, open(cfile, "w"))
        if mode == "--confirm-only":
            print(pid, k, "confirmed" if confirmed else "NOT-CONFIRMED %r %r" % (res["tests"], res["demo"]))
            continue
        # run my checks
        rc, _ = sh("git -C /repo diff --quiet")
        if rc != 0:
            print("repo dirty; abort")
            return 2
        rc, o = sh("git -C /repo apply " + patch)
        det = {}
        if rc == 0:
            for c in [pid] + extra_checks:
                rcc, oc = sh("./check %s --tier quick 2>/dev/null | grep -E '^(OK|FAIL|VIOLATION)'" % c, cwd=VERIF, env={"VERIF_SEED": os.environ.get("VERIF_SEED", "1")})
                det[c] = {"detected": "VIOLATION" in oc, "no_failing_input": "no-failing-input-found" in oc, "summary": oc.strip().split("\n")[-1][:200]}
                if "VIOLATION" in oc:
                    rp = os.path.join(VERIF, "replays", "%s_violation.json" % c)
                    if os.path.exists(rp):
                        try:
                            j = json.load(open(rp))
                            det[c]["replay_block"] = j.get("block", [])[:4]
                            det[c]["replay_detail"] = str(j.get("detail"))[:300]
                        except Exception:
                            pass
            sh("git -C /repo checkout -- .")
        else:
            det["apply_to_repo"] = o[-300:]
        res["checks"] = det
        d = os.path.join(VERIF, "seeded", "%s-%d" % (pid, int(k) + offset))
        os.makedirs(d, exist_ok=True)
        shutil.copy(patch, os.path.join(d, "patch.diff"))
        shutil.copy(demo, os.path.join(d, "demo.py"))
        json.dump({"property": pid, "summary": meta.get("summary"), "needs": meta.get("needs"), "files": meta.get("files"),
                   "origin": "independent sub-agent given only the property text and a scratch worktree",
                   "confirmed_by_me": {"pinned_suite": res["tests"], "demo_exit_with_mutation": rc1, "demo_exit_without": rc2,
                                       "how": "git apply in a scratch worktree; pytest with PYTHONPATH=<worktree>; demo with and without the patch"},
                   "confirmed": confirmed, "checks_run_against_it": det}, open(os.path.join(d, "meta.json"), "w"), indent=1)
        print(pid, k, "confirmed" if confirmed else "NOT-CONFIRMED %r" % (res["tests"],), "|", {c: ("DETECTED" if v.get("detected") else "missed") for c, v in det.items() if isinstance(v, dict)}, "|", (meta.get("summary") or "")[:90])


if __name__ == "__main__":
    sys.exit(main())
