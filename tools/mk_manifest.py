#!/usr/bin/env python3
"""regenerates MANIFEST.json from the table below (single source for the per-check texts)"""
import json, os
HERE = os.path.dirname(os.path.abspath(__file__))
ROOT = os.path.join(HERE, "..")
IDS = [json.loads(l)["id"] for l in open(os.path.join(ROOT, "properties.jsonl"))]
NOTE_COMMON = ("Trusted: Lean 4.33 kernel + {propext, Classical.choice, Quot.sound} (audited per theorem on every run); "
               "tools/extract.py (+ pyexpr2lean.py) regenerating lean/Cider/Gen from the live code; the correspondence harness "
               "(op dispatch, float-vs-rational tolerance 1e-9, exception => exc); frozen Spec tables. Python/NumPy arithmetic is "
               "modelled with exact rationals, not verified. The correspondence also varies what surrounds the call: objects built from raw strings "
               "with white space, from files, handed back by moves / shuffles, or duplicated with copy / deepcopy / pickle; other public calls, "
               "setters and repeated calls made first on the same or on another live object; argument containers and numeric types; very long "
               "inputs and lengths / counts at powers of two and round thousands; alternative public routes to the same quantity (backend method, "
               "wrapper, silent=True, extra constructor arguments: '@route' tokens the model never sees); every answer of an object obtained from a "
               "move / shuffle / copy is also compared with a fresh object's; and a sample of every check's cases (all rejection cases first) is re-evaluated in a child interpreter started with "
               "python -O and with RuntimeWarning raised as an error (not for C17-C19). ")
CHECKS = {
 "C01": ("Lean theorems for every charge pattern: kappa = -1 iff delta-max = 0; otherwise kappa is delta/delta-max with ratios in (1,1.1) "
         "reported as 1; kappa >= 0; kappa <= 1 iff delta < 1.1*delta-max; every member of the documented family and the permutant returned "
         "by get_deltaMax(True) has kappa in [0,1] (=1 for the permutant). The full range claim is FALSE of the pinned code: witness theorem "
         "kappa(KEEEEK pattern) = 98/53, recorded as known finding F-C01-1 with a root-cause predicate. Correspondence: all patterns <= 7/9, "
         "the exhaustive-search arg-max arrangement of every composition <= 9/12 residues fed to the real get_kappa, random sequences.",
         "Known finding F-C01-1 suppresses only inputs on which delta, delta-max (=documented family max) and the clamp all behave as specified.",
         "Lean 4 proof (order arithmetic over Q, on top of C02/C03 theorems) + witness by decide + differential correspondence"),
 "C02": ("Lean theorems for every charge pattern of every length: the deltaForm accumulation loop equals the mean squared deviation of "
         "the sliding-blob sigmas (windows defined structurally), blob count N-w+1 with the last blob ending at the last residue, "
         "short sequences contribute 0, delta >= 0, delta depends only on charge classes; the charge table is regenerated from the "
         "live code and proved equal to the published one; correspondence: every pattern of length <= 7 (quick) / 10 (thorough) "
         "plus random sequences, real float vs exact rational.",
         "", "Lean 4 proof (induction over lists) + regenerated charge table + exhaustive-short differential correspondence"),
 "C03": ("Lean theorems for every composition: the candidate family is non-empty, every candidate is an arrangement of exactly the "
         "composition, delta-max is an upper bound of the family and attained by a member (first maximiser), depends only on the "
         "counts, and the returned permutant is a List.Perm of the input whose pattern is the maximiser (so its delta equals delta-max); "
         "correspondence on every composition up to 16/40 residues in several spellings.",
         "The heuristic family is what the documentation describes; that it contains the true maximiser is NOT claimed (see C01 known finding).",
         "Lean 4 proof (fold invariant, List.Perm) + differential correspondence over all small compositions"),
 "C04": ("Lean theorems (all sequences): every composition parameter of the model equals the per-residue sum/length definition, is "
         "permutation invariant and satisfies FCR=f+ + f-, NCPR=f+ - f-, |NCPR|<=FCR<=1, counts sum to N, fractions sum to 1, FER=FCR+fP, "
         "Uversky=KD/9; the 11 per-residue tables are regenerated from the live code on every run and proved equal to the frozen "
         "published tables (kernel, all 20 residues); correspondence: 20 residues, 400 pairs, random sequences and permutations.",
         "", "Lean 4 proof over a hand model + regenerated tables (rfl per residue) + differential correspondence"),
 "C05": ("Lean theorems for all sequences: kappa, delta, delta-max and SCD depend only on the charge pattern (hence same-class "
         "substitution), are invariant under reversal (blobs of the reverse are the reversed blobs in reverse order; lag sums reflect) and "
         "under charge inversion (sigma symmetric; the documented delta-max family is closed under inversion: dmaxComp_swap); Omega depends only "
         "on the P/E/D/K/R class and is reversal/inversion invariant; the charge and Omega classes are regenerated from the live code and "
         "proved equal to the published ones. Correspondence + metamorphic oracle on the real code: every pattern <= 6/8 and random sequences, "
         "each with 4 transforms.",
         "SCD over the reals (Mathlib Real.sqrt); float evaluation compared within 1e-9.",
         "Lean 4 proof (list reversal / negation lemmas, family bijection) + metamorphic differential testing"),
 "C06": ("Lean theorems: Omega = kappa of the P/E/D/K/R recoding = kappa_X(PEDKR); kappa = kappa_X(ED,KR); kappa_X depends only on the parsed "
         "groups as sets (order, repeats, letter case), is invariant under swapping DISJOINT groups and under complementing a single group "
         "(both via inversion invariance of kappa), rejects exactly groups with a member that is not one of the 20 letters after upper-casing; "
         "Omega sequence has X exactly at P/E/D/K/R. Correspondence + relations on the real API with random groups incl. malformed ones.",
         "Overlapping groups: the first group wins and the swap is not an inversion; outside the quantifier (partitions), checked as model correspondence only. Non-ASCII member strings are not modelled.",
         "Lean 4 proof (set-extensional recoding + kappa_negate) + relation-based differential testing"),
 "C07": ("Lean theorems over the reals for every pattern: the code's double loop equals the Sawle-Ghosh pair sum (1/N) sum_{m>n} q_m q_n sqrt(m-n), "
         "which equals (1/N) sum_d lag_d sqrt(d) with the executable model's exact integer lag sums (pair sum regrouped by distance via a "
         "sigma-type bijection); SCD = 0 with fewer than two charges; pattern-only; reversal and inversion invariance. Correspondence: "
         "get_SCD vs that lag form on every pattern <= 7/10 and random sequences to 300.",
         "Real.sqrt vs float sqrt: compared within 1e-9; the harness takes the square roots (math.sqrt, fsum).",
         "Lean 4 proof over R (Finset sum reindexing) + differential correspondence through exact integer lag sums"),
 "C09": ("The pH model is written once, generically over a RealLike class; instantiated with R the Lean theorems prove for every sequence: the "
         "single pass equals the sum of per-residue Henderson-Hasselbalch fractions; NCPR(pH) is antitone in pH; |NCPR(pH)| <= FCR(pH) <= titratable/N; "
         "FER = FCR + fP; a pH is rejected iff outside [0,14]; the pI loop terminates (returns or raises) within 221 iterations for ANY charge function; "
         "any returned pI has |mean charge per titratable residue| <= 0.02; nothing titratable => 7.0; and (Props/C09Pi.lean) the loop NEVER takes its error exit: for any antitone charge function with a point r in [0,24] where |f r| <= 0.01 and |f x - f r| <= 0.01 within 1/256 of r the search returns (loop invariant over bracket, width 14/2^breakcount, escape counter), and the normalised Henderson-Hasselbalch charge of EVERY sequence is such a function whenever basic pKa <= 13 and acidic pKa >= 2 (logistic modulus 10^(1/256) <= 1.01, end-point bounds at pH 0 and 24, a grid walk instead of the intermediate-value theorem) - instantiated for the published EMBOSS table and for the table regenerated from the live code. Tie: pKa table, titration classes and the "
         "half-titration points probed from the live charge_at_pH equal the EMBOSS values. Instantiated with Float the same definitions run in the driver "
         "and are compared with the real getters on a pH grid and with get_isoelectric_point (tol 1e-9).",
         "Float vs R: the theorems are about exact reals; that IEEE doubles / libm pow follow the same branches is checked by correspondence only (all multisets of "
         "titratable classes up to size 3/5, extreme compositions, random sequences), not proved.",
         "Lean 4 proof over R of a generic model (also executed on Float) + regenerated pKa/class facts + differential correspondence"),
 "C10": ("Lean theorems for every list and window: the code's flank arithmetic gives floor((w-1)/2) leading and floor(w/2) trailing zeros; a profile is "
         "answered iff w <= N and then has exactly N values, entry i+floor((w-1)/2) is the statistic of the window starting at residue i, the flanks are 0; "
         "for w = N the single window value equals the whole-sequence NCPR / FCR / sigma / Uversky hydropathy / group fraction; delta is the mean of the "
         "mean squared deviations of the w=5,6 sigma windows; w > N is rejected; composition returns one row per group (7 by default). Correspondence: "
         "every pattern <= 6/8 x every w in 1..N+3, random sequences, random user groups.",
         "Defect found and repaired (fix: commit): get_linear_NCPR lacked the window guard.",
         "Lean 4 proof (list index arithmetic, omega) + exhaustive-window correspondence"),
 "C11": ("Lean theorems: K = floor((N-w)/s)+1 windows, each the slice [i*s, i*s+w); K positions, strictly increasing, within 1..N (for K<=N, which "
         "always holds); each value depends only on its own window; LC in [0,1] (distinct words bounded by |A|^wordSize via an explicit word "
         "enumeration, and by the number of positions); LZW in [0,1]; over the reals: the WF loop equals the Shannon entropy base |A| of the window "
         "letter counts, is >= 0 and <= 1 (Jensen with Real.concaveOn_negMulLog), 0 for a homopolymeric window, permutation invariant. Correspondence: "
         "3 types x 12 sizes x user alphabets x w x step x wordSize.",
         "WF: the model outputs exact letter counts, the harness evaluates the entropy (math.log); float value 1.0000000000000002 for uniform windows is float rounding of a value proved <= 1 (tolerance 1e-9).",
         "Lean 4 proof (Nat division arithmetic; counting argument; Jensen over R) + differential correspondence"),
 "C12": ("Kernel-checked (decide) on the table REGENERATED from the live code for all sizes 0..25 x 20 residues: each of the 12 sizes has exactly k "
         "documented groups partitioning the 20 residues, every residue maps to a member of its own documented group (the same for the whole group), "
         "reducing twice changes nothing, the alphabet lists exactly the representatives once each; exactly the 12 documented sizes are accepted. "
         "For all sequences: length preserved, reduce(s++t)=reduce s++reduce t, idempotent, entrywise. User alphabets: accepted iff every residue is "
         "bound to a single upper-case amino-acid letter, then applied residue by residue. Correspondence incl. laws on real outputs.",
         "Documented partitions typed by hand from the docstring (Spec/Partitions.lean).",
         "Lean 4 decide +kernel over the regenerated 26x20 table + List.map laws + differential correspondence"),
 "C13": ("Lean theorems, for ANY str.upper / str.isspace functions: construction from a string succeeds iff the upper-cased string with white "
         "space deleted is a non-empty word over the 20 letters, and the object then holds exactly that word; non-strings, '', and strings that "
         "normalise to nothing are rejected; a normalised word is a fixed point. A tie module proves the hypotheses for Python's own upper/isspace "
         "as tabulated from the running interpreter on every run. Correspondence: every code point U+0000-U+21FF (thorough: whole BMP + astral "
         "samples) as a 1-char string, characters inserted at every position, decorated valid sequences, non-strings; analyses of the object vs "
         "analyses of the normalised word.",
         "CPython's Unicode tables (upper/isspace) are tabulated, not verified.",
         "Lean 4 proof (induction over the character list, parametric in upper/isspace) + exhaustive-code-point correspondence"),
 "C14": ("Lean theorems, for ANY isspace: full iff-characterisation of parseSeqFile (at most one header line; every other non-blank stripped line only "
         "letters, '*', blanks, digits; no '*' or exactly one as the last kept character; result = kept characters in order minus that '*'), the "
         "result consists of residue letters only, rejection of a second header / any other character / bad '*', universal-newline splitting inverts "
         "joining with LF or CRLF, and the layout theorem (arbitrary line breaks, blank lines, spacing, numbering parse to exactly the residues). "
         "Correspondence: random layouts and ALL single-character substitutions/insertions (every ASCII char + Unicode sample, every position) of "
         "small files, through parseSeqFile and SequenceParameters(sequenceFile=...).",
         "File decoding (UTF-8, universal newlines) is modelled by splitLines, not verified; non-UTF-8 bytes are out of scope.",
         "Lean 4 proof (iff-characterisation by induction over lines with the loop state generalised) + exhaustive single-corruption correspondence"),
 "C15": ("Lean theorems: with the invariant CacheOK (a cached delta-max is the true one; a cached permutant is the one a fresh search returns) every "
         "read-only query preserves the invariant, leaves sequence / phosphosites / palette untouched and returns exactly what it returns on a freshly "
         "constructed object; lifted by induction to every finite history of (object, query) steps on any number of live objects (history_independent, "
         "readonly_frame); the shared mutable default group list is unobservable (passing the seven default groups explicitly = default). Queries that "
         "do not touch the cache are modelled as arbitrary functions of (sequence, sites, palette). Correspondence: every ordered pair of 30 query shapes, "
         "random histories over 1-3 objects, each call compared with the same call on a brand-new object.",
         "Defect found and repaired (fix: commit): cached delta-max made get_deltaMax(True) return None. NumPy/matplotlib global state is not modelled.",
         "Lean 4 proof (invariant + induction over histories) + pairwise-exhaustive and random history differential testing"),
 "C16": ("Lean theorems: one set call appends in first-occurrence order the valid new positions; history theorem: after ANY series of set/clear calls "
         "get_phosphosites is eraseDups(filter valid (requests since the last clear)) (+1), never repeats, only in-range S/T/Y; sequence and palette "
         "never change; phosphosequence has E exactly at the listed positions; kappa-after equals kappa of the phosphosequence (under the C15 cache "
         "invariant); the distribution has 2^k entries in binary counting order (valBE(onOff k) = range 2^k) each carrying the six values of the "
         "substituted sequence, the last being the fully phosphorylated one; S/T/Y class regenerated from the live code. Correspondence: random "
         "histories with positions 0, negative, beyond the end, duplicates, int/list/tuple.",
         "Defect found and repaired (fix: commit): out-of-range positions were not skipped.",
         "Lean 4 proof (induction over call histories, eraseDups algebra) + history-based differential testing"),
 "C17": ("Lean theorems over ALL sequences, frozen sets and well-formed random outcomes (tapes): pair swap, block swap, full shuffle, charge clustering and "
         "the charge-type swap each return a List.Perm of the parent (moves written structurally: split/append and three-way dealing, with index "
         "partition lemmas); full shuffle and the charge-type swap keep every frozen in-range position (positional dealing lemma); chains of moves are "
         "rearrangements; a carried-over delta-max, the length and the charge counts of a child equal those of a fresh object (composition-only). "
         "The frozen clause is FALSE for block swap / clustering (witness theorem; known finding F-C17-1). Correspondence: a recording RNG installed in "
         "the real module, every child checked directly (rearrangement, frozen, len, chargePattern, dmax, parent unchanged) and the recorded tape "
         "replayed through the model.",
         "Defects found and repaired (two fix: commits): swapRes and swapRandChargeRes failed for every sequence under the pinned interpreter/NumPy. CPython's random algorithms are abstracted by tapes.",
         "Lean 4 proof (List.Perm by construction, positional induction) + tape-replay differential testing with a recording RNG"),
 "C18": ("PARTIAL. Lean theorems about the Wang-Landau state machine (every configuration, every proposal sequence = every schedule, every acceptance "
         "decision function): an out-of-range proposal is never moved to and counts nothing; once inside the range always inside; an in-range proposal "
         "is accepted iff the decision for g_old - g_new says so; a counted step adds ln f to g and 1 to H of the occupied bin only; the histogram total "
         "counts the counted steps; f -> sqrt f, H -> 0, niter+1 exactly when a scheduled check finds every range bin at >= flatcrit x mean, never "
         "between scheduled checks; the loop runs iff ln f > ln convergence; within an iteration g = g_start + ln f * H bin by bin (so per-iteration g "
         "increments equal ln f times the final histogram); bin centres are midpoints of the equal partition; (Props/C18Bin.lean) the bin index the machine computes for a proposal, argmin |bincts - kappa|, is a nearest centre and for kappa in [0,1] the bin whose closed interval contains kappa, and a request made of whole bins of a partition of [0,1] is tiled exactly (wlConfig_aligned). Also (C18Src) indexInsideRelevantRegion as written in the source today equals the model's range test for all arguments. Tie: a guarded per-step trace hook in "
         "run_normal_WL + a recording RNG; every step of short seeded runs is checked directly against the property and replayed through the model.",
         "Needs the hook (LOCALCIDER_VERIF=1). Not proved: the distribution of proposals; float exp/log (ln f is exactly 2^-k in the model; g compared "
         "within 1e-9); visits-are-rearrangements is C17's theorem chain and is re-checked on every trace step. Runs are capped at 1500 steps (2600 for the runs that push g past 710).",
         "Lean 4 proof (state-machine invariants) + per-step trace conformance through a guarded hook"),
 "C19": ("PARTIAL. Lean theorems: for every point (f+, f-) of the composition simplex the point lies in the closed published polygon of the region the "
         "exact-threshold rule assigns (so, with C08, a marker lies inside the region whose number the sequence is assigned, for every composition of "
         "every length); a point strictly inside polygon k is assigned region k; the five polygons cover the simplex; the two Uversky patches cover the "
         "unit square; the count-based region function of C08 is this point rule. Tie: the polygon vertices are read back from the figure the live code "
         "draws on every run and proved equal (decide) to the published ones. Correspondence: every plotting entry point (object methods and plots "
         "module, show-with-getFig and save) is called under Agg and the resulting artists are compared with the requested title / labels / limits / "
         "legend and with marker coordinates and bar heights from the real getters AND from the model; region agreement on the real artists for every "
         "composition with N <= 14/24.",
         "Argument forwarding is decided by correspondence (differential), not by a theorem; pixels, fonts and legend appearance are out of reach. Defect found and repaired (fix: commit): show_phaseDiagramPlot(getFig=True) dropped the title.",
         "Lean 4 proof (linear arithmetic over convex polygons) + regenerated polygon facts + figure-artist differential testing"),
 "C20": ("Lean theorems on the character-level model: the rendering is prefix + for residue i (0-based) [space iff 10|i][<br> iff 50|i] + one span with "
         "the residue letter in its palette colour, in order + suffix; stripping tags and blanks recovers the sequence (colours contain no '>'); a "
         "dictionary is accepted iff all 20 one-letter keys are bound to one of the 17 documented names; a rejected update leaves the palette "
         "unchanged; after any series of updates the palette is the last accepted one else the initial one. Tie: default palette and accept/reject "
         "of 41 probed colour names regenerated from the live code. Correspondence + regex-structure oracle on random update histories.",
         "str.lower() on accepted names is the identity and is not modelled.",
         "Lean 4 proof (list-of-characters model, induction) + regenerated palette facts (decide) + history-based differential testing"),
 "C08": ("Lean theorems: for every sequence (every (n+,n-,N)) the region cascade never reaches a raise and returns exactly the region of "
         "the exact rational thresholds; range 1..5; 4/5 decided by strict majority; depends only on the counts. Correspondence: every "
         "triple with N<=40 (quick) / 120 (thorough) realised as a sequence, plus boundary compositions up to N=1000.",
         "Float rounding of k/N against 0.25/0.35 is covered by the exhaustive correspondence (all N<=120) and boundary cases, not by a theorem about IEEE doubles.",
         "Lean 4 proof (grind/linear arithmetic over Q) + exhaustive-composition correspondence"),
}
PENDING_REASON = "check not built yet in this session (framework under construction); planned Lean proof + tie described in DESIGN.md §5"


SRC_TIE = {
    "C01": " Shortest inputs (C01Short): for EVERY sequence of at most five residues delta = 0, delta-max = 0 and kappa = -1. Source-text tie (C01Src): Sequence.kappa's zero guard / reporting band and Sequence.sigma, translated from the live source on every run, equal kappaOf / sigmaOf for all arguments.",
    "C02": " Source-text tie (C02Src): the body of deltaForm's loop over blobs and Sequence.delta, translated from the live source on every run, are the model's summand (sigma - sigma_blob)^2/nblobs and (deltaForm 5 + deltaForm 6)/2 for all arguments.",
    "C04": " Source-text tie (C04Src): the no-pH forms of Fplus, Fminus, FCR, NCPR, FER, mean_net_charge translated from the live source equal the model's fractions, and FCR = f+ + f-, NCPR = f+ - f-, |NCPR| <= FCR <= 1 hold of the source text for all counts.",
    "C06": " Source-text tie (C06Src): the per-residue recoding decisions inside the loops of Sequence.Omega, Omega_seq and both arms of kappa_X, translated from the live source on every run, are the model's recodings (letters and charge classes) for EVERY residue / group membership, lifted to whole sequences; the loop frames (empty start, kappa() of a fresh Sequence on the recoded string) are what the model assumes.",
    "C07": " Source-text tie (C07Src): the index arithmetic of sequence_charge_decoration's double loop (both range bounds, the two subscripts into chargePattern, the distance under the root, the exponent, the final denominator), translated from the live source on every run, visits for EVERY length exactly the (index, index, distance) triples of the model's scdLoop, in order, all subscripts in range and all distances positive, with exponent 1/2 and denominator N; and scdLoop (the object of every C07 theorem) is proved equal to the sum of q[i]*q[j]*sqrt(dist) over the triples the SOURCE's nest visits, over the source's denominator (scd_of_source_triples).",
    "C08": " Source-text tie (C08Src): Sequence.phasePlotRegion translated from the live source equals regionCode for all rational arguments.",
    "C09": " Source-text tie (C09Src): __verify_pH translated from the live source rejects exactly pH < 0 or pH > 14.",
    "C10": " Source-text tie (C10Src): the integer bookkeeping (nblobs, flank, flank_start, flank_end) at the head of each of the SIX sliding-window functions, translated from the live source, equals the model's flanks / window count for every legal window - each copy separately.",
    "C13": " Source-text tie (C13Src): __check_window_to_length translated from the live source raises exactly when the window exceeds the length. Source-text tie (C13Val): the per-character decision of validateSequence's loop (append / drop / raise; counters, the warn-once flag and messages recognised as unable to influence it), translated from the live source on every run, is one unfolding of the model's validateChars for every character and every rest of the input.",
    "C16": " Source-text tie (C16Src): the per-site decision of setPhosPhoSites' loop (index shift, range test, S/T/Y test, duplicate test, what is appended), translated from the live source on every run, IS the model's Obj.setSite for every object and every integer site (setSite_eq, lifted to whole calls by setPhos_eq); whatever the source appends is an in-range, unlisted S/T/Y index (appended_ok); the letter lists of setPhosPhoSites and get_STY_residues are exactly S/T/Y in any order (letters_eq).",
    "C18": "",
}


def main():
    m = {
        "version": 1,
        "setup_cmd": "/venv/bin/python tools/extract.py && /venv/bin/python tools/pyexpr2lean.py && cd lean && lake build Cider ciderdrv",
        "hooks": {"guard": "LOCALCIDER_VERIF",
                  "enable": "LOCALCIDER_VERIF=1 in the environment of the process that imports localcider (pure Python, no build step); ./check sets it",
                  "baseline_off_cmd": "cd /repo && /venv/bin/python -m pytest -ra -q -p no:cacheprovider --timeout=900 --continue-on-collection-errors",
                  "source_commits": ["e96c624 verification hook (guarded by LOCALCIDER_VERIF=1, add-only): per-step trace and optional step cap in WangLandauMachine.run_normal_WL"], "add_only": True},
        "engines": [{"name": "lean4-proof+tie", "path": "lean/ , tools/", "serves_properties": sorted(CHECKS),
                     "kind_free_text": "Lean 4 model + theorems (lake project lean/), translators tools/extract.py (+pyexpr2lean.py) regenerating lean/Cider/Gen on every run, native Lean driver lean/Driver.lean, Python correspondence harness tools/vf, entry point ./check"}],
        "checks": [], "not_applicable": [],
        "notes": "every check: regenerate Gen from /repo -> lake build the property's theorems -> #print axioms audit -> correspondence real API vs Lean driver (model@live tables = tie, model@published tables = oracle) -> verdict; exit 2 = infrastructure failure",
    }
    for pid in IDS:
        if pid in CHECKS:
            text, extra, tech = CHECKS[pid]
            text = text + SRC_TIE.get(pid, "")
            m["checks"].append({
                "property_id": pid, "quick_cmd": "./check %s --tier quick" % pid, "thorough_cmd": "./check %s --tier thorough" % pid,
                "evidence_file": "evidence/%s.json" % pid, "replay_cmd_template": "./check %s --replay {path}" % pid,
                "engine": "lean4-proof+tie",
                "level_claimed": {"category": "proof", "text": text, "design_ref": "DESIGN.md §5 " + pid},
                "level_note": NOTE_COMMON + extra, "technique": tech})
        else:
            m["not_applicable"].append({"property_id": pid, "reason": PENDING_REASON})
    json.dump(m, open(os.path.join(ROOT, "MANIFEST.json"), "w"), indent=1)


if __name__ == "__main__":
    main()
