#!/usr/bin/env python3
"""print a python source without docstrings / comments (reading aid only)"""
import ast,sys
for fn in sys.argv[1:]:
    src=open(fn).read()
    t=ast.parse(src)
    lines=src.split('\n')
    skip=set()
    for n in ast.walk(t):
        if isinstance(n,(ast.FunctionDef,ast.ClassDef,ast.Module)):
            if n.body and isinstance(n.body[0],ast.Expr) and isinstance(getattr(n.body[0],'value',None),ast.Constant) and isinstance(n.body[0].value.value,str):
                for i in range(n.body[0].lineno,n.body[0].end_lineno+1): skip.add(i)
    print("#####",fn)
    for i,l in enumerate(lines,1):
        if i in skip: continue
        if l.strip().startswith('#') or not l.strip(): continue
        print(i,l)
