"""shared input generators; every random choice derives from the rng handed in"""
import itertools

AAS = "ACDEFGHIKLMNPQRSTVWY"
POS = "KR"
NEG = "DE"
NEUT = "ACFGHILMNPQSTVWY"


def spell(pattern, rng, plain=False):
    """pattern over +-0 -> residues of the same charge class"""
    if plain:
        return "".join({'+': 'K', '-': 'E', '0': 'G'}[c] for c in pattern)
    out = []
    for c in pattern:
        if c == '+':
            out.append(rng.choice(POS))
        elif c == '-':
            out.append(rng.choice(NEG))
        else:
            out.append(rng.choice(NEUT))
    return "".join(out)


def patterns_upto(n, lo=1):
    for L in range(lo, n + 1):
        for t in itertools.product("+-0", repeat=L):
            yield "".join(t)


def compositions(N, lo=1):
    """all (np, nn, n0) with lo <= np+nn+n0 <= N"""
    for tot in range(lo, N + 1):
        for a in range(tot + 1):
            for b in range(tot - a + 1):
                yield (a, b, tot - a - b)


def arrange(comp, rng):
    a, b, c = comp
    l = ['+'] * a + ['-'] * b + ['0'] * c
    rng.shuffle(l)
    return "".join(l)


def rand_seq(rng, kind, n):
    if kind == "idp":
        w = {'A': 6, 'C': 1, 'D': 6, 'E': 9, 'F': 2, 'G': 8, 'H': 2, 'I': 2, 'K': 8, 'L': 4, 'M': 2, 'N': 4, 'P': 8, 'Q': 6,
             'R': 5, 'S': 9, 'T': 6, 'V': 3, 'W': 1, 'Y': 2}
        return "".join(rng.choices(list(w), weights=list(w.values()), k=n))
    if kind == "polyampholyte":
        f = rng.uniform(0.3, 1.0)
        return "".join(rng.choice("KRDE") if rng.random() < f else rng.choice(NEUT) for _ in range(n))
    if kind == "polyelectrolyte":
        cls = rng.choice([POS, NEG])
        f = rng.uniform(0.2, 1.0)
        return "".join(rng.choice(cls) if rng.random() < f else rng.choice(NEUT) for _ in range(n))
    if kind == "lowcomplexity":
        k = rng.randint(1, 3)
        letters = rng.sample(AAS, k)
        return "".join(rng.choice(letters) for _ in range(n))
    if kind == "blocky":
        out = []
        while len(out) < n:
            out += [rng.choice(AAS)] * rng.randint(1, 8)
        return "".join(out[:n])
    if kind == "uniform":
        return "".join(rng.choice(AAS) for _ in range(n))
    if kind == "neutral":
        return "".join(rng.choice(NEUT) for _ in range(n))
    raise ValueError(kind)


KINDS = ["idp", "polyampholyte", "polyelectrolyte", "lowcomplexity", "blocky", "uniform", "neutral"]


def rand_len(rng, hi):
    r = rng.random()
    if r < 0.25:
        return rng.randint(1, 8)
    if r < 0.6:
        return rng.randint(9, 40)
    if r < 0.9:
        return rng.randint(41, max(42, hi // 2))
    return rng.randint(max(42, hi // 2), hi)


def rand_seqs(rng, count, hi):
    for _ in range(count):
        k = rng.choice(KINDS)
        yield k, rand_seq(rng, k, rand_len(rng, hi))


def permute(s, rng):
    l = list(s)
    rng.shuffle(l)
    return "".join(l)


def unicode_signature_sample(per_class=3, limit=0x30000):
    """representatives of every distinct behaviour class of CPython's character predicates / case maps among the
    non-ASCII code points (so that a test narrowed to, or widened from, its ASCII meaning is hit):
    first `per_class` code points of each signature"""
    seen = {}
    out = []
    for cp in range(128, limit):
        if 0xD800 <= cp <= 0xDFFF:
            continue
        c = chr(cp)
        up = c.upper()
        sig = (c.isdigit(), c.isdecimal(), c.isnumeric(), c.isspace(), c.isalpha(), c.isupper(), c.islower(), c.isalnum(),
               c.isprintable(), c.isidentifier(), up.isascii() and up != c, c.lower().isascii() and c.lower() != c, len(up), c in "\x85\u2028\u2029")
        k = seen.get(sig, 0)
        if k < per_class:
            seen[sig] = k + 1
            out.append(cp)
    return out


def ws_layouts(s, rng=None):
    """raw constructor arguments that normalise to the word s: white space the API documents it strips"""
    out = [s + "\n", " ".join(s[i:i + 10] for i in range(0, len(s), 10)) + " ", "\t" + s, s[:len(s) // 2] + "\n" + s[len(s) // 2:],
           " \t " + s[:3] + "  " + s[3:] + "\r\n"]
    if rng is not None:
        k = rng.randint(0, len(s))
        out.append(s[:k] + rng.choice([" ", "\n", "\t", "\x0b", "\x0c", "\r"]) * rng.randint(1, 4) + s[k:])
    return out


def large_regime():
    """long sequences whose counts leave the ranges small sequences live in (> 127 / > 255 charged or neutral residues,
    net charge beyond +-127, length > 256): where narrow integer types, identity-vs-equality of ints and the like differ"""
    return ["K" * 128, "K" * 129, "E" * 130, "E" * 200, "KE" * 70, "K" * 150 + "E" * 150, "KRG" * 100, "EKEKDRRDEEKK" * 25,
            "G" * 257, "GS" * 150, "Q" * 300, "G" * 256, "K" + "G" * 256, "KD" * 129, "R" * 260 + "D" * 3, "GSKE" * 70 + "G"]


def very_long(rng, heavy=False):
    """sequences beyond 1000 / 1028 / 1100 residues (and, heavy, beyond 10000) whose lengths are not round numbers: where block-wise,
    FFT or vectorised fast paths and read-size limits start to matter; two ends of different character"""
    out = []
    for n in ((1029, 1150, 1500) if not heavy else (1029, 1150, 1437, 1500, 2100, 3300)):
        head = "".join(rng.choice("KRKRGS") for _ in range(n // 3))
        tail = "".join(rng.choice("EDGSQNAP") for _ in range(n - n // 3 - 40))
        out.append(head + "H" * 5 + "GSTYC" * 7 + tail)
    out.append("K" * 15 + "GS" * 560 + "E" * 15)
    return out


def sparse_charge_seqs(rng, n):
    """long, weakly charged chains (0 < FCR < 0.05, 21-200 residues): lone charges, adjacent pairs, a pair closer than a blob"""
    out = []
    for _ in range(n):
        L = rng.randint(21, 200)
        s = [rng.choice("GSQNTAP") for _ in range(L)]
        k = max(1, min(rng.randint(1, 4), L // 21))
        pos = rng.sample(range(L), k)
        if k >= 2 and rng.random() < 0.6:
            pos[1] = min(L - 1, pos[0] + rng.randint(1, 5))        # two charges within one blob
        for i in pos:
            s[i] = rng.choice("KRDE")
        out.append("".join(s))
    return out


def boundary_lengths(heavy=False):
    """lengths at and next to powers of two and round thousands (and the blob counts N-4 / N-5 at such values): where strides, block
    sizes, padded transforms and `x[-rest:]` leftovers of a vectorised rewrite change behaviour"""
    out = set()
    for m in ((1024, 2048) if not heavy else (512, 1024, 2048, 4096)):
        out.update([m - 1, m, m + 1, m + 2, m + 4, m + 5])
    out.update([1000, 1001, 2000, 2001] if not heavy else [1000, 1001, 2000, 2001, 3000, 3001, 4000, 4001])
    return sorted(out)


def boundary_seqs(rng, heavy=False, ends="KE"):
    """one chain per boundary length: charged residues at BOTH termini, a moderately charged interior"""
    out = []
    for n in boundary_lengths(heavy):
        mid = "".join(rng.choice("KRDEGSGSQNAP") for _ in range(n - 2))
        out.append(ends[0] + mid + ends[1])
    return out


def charged_count_seqs(rng, heavy=False):
    """chains whose NUMBER OF CHARGED residues is 1000 / 1001 / 1024 / 1025 (heavy: 2001 too): all charged, and scattered among neutrals"""
    out = []
    for c in ((1000, 1001, 1025) if not heavy else (1000, 1001, 1024, 1025, 2001)):
        out.append("".join(rng.choice("KE") for _ in range(c)))
        l = [rng.choice("KRDE") for _ in range(c)] + [rng.choice("GSQNAP") for _ in range(c * 4 // 5 - 1)]
        rng.shuffle(l)
        out.append("".join(l))
    out.append("K" * 1001)
    return out


def sparse_clustered_seqs(rng, n):
    """long, very weakly charged chains (155-900 residues, 3-8 charged) whose few charges sit TOGETHER: three or more within five
    consecutive positions, somewhere in the interior or at a terminus"""
    out = []
    for _ in range(n):
        L = rng.randint(155, 900)
        s = [rng.choice("GSQNTAP") for _ in range(L)]
        k = rng.randint(3, min(8, max(3, L // 62)))
        at = rng.choice([0, L - 6, rng.randint(0, L - 6), rng.randint(0, L - 6)])
        first = rng.randint(3, min(5, k))
        for i in rng.sample(range(at, at + 5), first) if first < 5 else range(at, at + 5):
            s[i] = rng.choice("KRDE")
        for _j in range(k - first):
            s[rng.randrange(L)] = rng.choice("KRDE")
        out.append("".join(s))
    return out


def block_arrangements(rng, n, min_neut=18, max_neut=34):
    """block-ordered chains with at least 18 neutral residues: neutral^a | one sign^p | neutral^b | other sign^q | neutral^c with a, c
    anywhere in 0..20 (also beyond the six end-neutrals the delta-max scan tries), one sign often a lone residue or a pair; more than half
    of them with a short neutral gap (2-4) between the charged blocks, 0-4 neutrals at one end and all the others piled up at the other"""
    out = []
    neut = lambda k: "".join(rng.choice("GSAQN") for _ in range(k))
    for _ in range(n):
        n0 = rng.randint(min_neut, max_neut)
        s1, s2 = rng.choice([("KR", "DE"), ("DE", "KR")])
        if rng.random() < 0.65:
            b = rng.choice([2, 3, 3, 4])
            short = rng.choice([0, 0, 1, 3, 4])
            p = rng.choice([1, 1, 2, 2, 3])
            q = rng.randint(7, 14)
            strict = rng.random() < 0.6
            if strict:
                n0, b, short, p, q = rng.randint(18, 26), 3, rng.choice([0, 0, 1]), rng.choice([1, 2]), rng.randint(7, 12)
            minority, majority = "".join(rng.choice(s1) for _ in range(p)), "".join(rng.choice(s2) for _ in range(q))
            first, second = (minority, majority) if (strict or rng.random() < 0.8) else (majority, minority)
            sq = neut(short) + first + neut(b) + second + neut(n0 - short - b)
            out.append(sq if rng.random() < 0.5 else sq[::-1])
            continue
        a = rng.randint(0, min(20, n0))
        c = rng.randint(0, min(20, n0 - a))
        b = n0 - a - c
        p = rng.choice([1, 1, 2, 3, rng.randint(1, 9)])
        q = rng.choice([rng.randint(4, 12), rng.randint(1, 9)])
        blocks = [neut(a), "".join(rng.choice(s1) for _ in range(p)), neut(b), "".join(rng.choice(s2) for _ in range(q)), neut(c)]
        if rng.random() < 0.5:
            blocks[1], blocks[3] = blocks[3], blocks[1]
        out.append("".join(blocks))
    return out

# words over the residue letters that can also be read differently: three-letter codes, float literals
AMBIGUOUS_WORDS = ["ASPARGLYS", "SERARGASPLYS", "METSERASPARGTHRLYSGLYASPVALARG", "ALAGLYSERTHRVALTRPTYRPHEMETCYS", "HISASNGLNILEASPLYSARGASPSER",
                   "NAN", "INF", "INFINITY", "nan", "Inf", "GLY", "ASP", "LYS", "ARGLYS"]


def two_charge_seqs(nmax, step=1):
    """exactly two charged residues at every length 2..nmax (ends), all three sign pairs"""
    for n in range(2, nmax + 1, step):
        for a, b in (("K", "E"), ("R", "K"), ("D", "E")):
            yield a + "G" * (n - 2) + b


def ws_lines(lines, rng):
    """the same block with every `q <name> <SEQ> ...` line turned into `mkq <raw> <name> ...` where raw is a white-space layout of
    SEQ: the object is built from the raw string by the public constructor, the answers must be those of the normalised word"""
    from .real import hex6
    out = []
    k = rng.randint(0, 5)
    for l in lines:
        t = l.split(" ")
        if t[0] == "q" and len(t) >= 3 and t[2].isalpha():
            lay = ws_layouts(t[2], rng)
            out.append(" ".join(["mkq", hex6(lay[k % len(lay)]), t[1]] + t[3:]))
        else:
            out.append(l)
    return out


# sequences whose own delta is 1.0-1.1 x the heuristic delta-max on the pinned tree (kappa() reports exactly 1.0 for them):
# all K/E/G words of length <= 9 with that property were enumerated once; a spread of them is kept here
CLAMP_BAND = ["GKKKGG", "GEEGEG", "KKEEEGK", "KEEEGGK", "KEGEGEK", "KGGEEEK", "KGGGGGK", "EKKGKGE", "EGKKKEE", "EGGGGGE", "GKKKKKG",
              "KKEEGEEK", "KEEEEEGK", "KGEEEEGK", "KGGEEEGK", "EKKKKKGE", "EEGKKKKG", "EGKKKKGE", "GEEEEEGK", "KGGEEEGGK",
              "KEGSGSGSGSDR", "DGPGGGK", "EGKKKKGE", "KGEEEEGK"]


# sequences whose own delta EXCEEDS the heuristic delta-max by more than 10 % on the pinned tree (kappa > 1.1; known finding F-C01-1) and
# short compositions from which a block swap can reach such an arrangement
ABOVE_MAX = ["KEEEEK", "KKEEEEK", "EGKKKE", "KEEEEKK", "KKEEEEEK", "KKKEEEEEK", "EEKEKEEK", "KKEEEEEEEEKK", "KKKEEEEEEEEEER"]


def structured_frozen(s):
    """frozen sets tied to the charge classes of s: all neutral / all positive / all negative / all charged positions,
    each also with one position left free"""
    pos = [i for i, c in enumerate(s) if c in "KR"]
    neg = [i for i, c in enumerate(s) if c in "DE"]
    neu = [i for i, c in enumerate(s) if c not in "KRDE"]
    out = []
    for grp in (neu, pos, neg, pos + neg, neu + pos, neu + neg):
        if grp:
            out.append(set(grp))
            if len(grp) > 1:
                out.append(set(grp[1:]))
                out.append(set(grp[:-1]))
    return out


# public read-only calls made on an object BEFORE a property's own query (scene setting: their answers are not judged there)
PRECALLS = ["kappa", "dmax", "dmaxperm", "delta", "sigma", "omega", "omegaseq", "region", "scd", "linFCR 3", "linNCPR 2", "linSigma 5",
            "linHydro 4", "linComp 3 -", "reduce 5 -", "cplx WF 20 - 3 1 3", "html", "phosseq", "kappaphos", "pi", "phq fcr 7/1",
            "kappaX s000045,s000044 s00004b,s000052", "kappaX s000050,s000045,s000044,s00004b,s000052 -", "fcr", "countNeg", "seq"]


def file_cases(rng, n, own, maxlen=60):
    """the property's own queries on objects built with sequenceFile= : two files per block (the second one must not see the first),
    FASTA header or not, line breaks every 10-60 residues, optional trailing '*'"""
    from .runner import Case
    from .real import hex6
    for _ in range(n):
        lines = []
        for _f in range(2):
            s = rand_seq(rng, rng.choice(KINDS), rng.randint(1, maxlen))
            w = rng.choice([10, 25, 60])
            text = (rng.choice([">sp|TEST\n", ">sp|P00001|TEST_HUMAN variant K->E (charge swap)\n", ">construct 7 => tagged, cleaved\n", ">>nested marker\n", ">\n"])
                    if rng.random() < 0.5 else "") + "\n".join(s[i:i + w] for i in range(0, len(s), w)) + rng.choice(["", "\n", "*\n"])
            lines += ["parseq %s %s" % (hex6(text), q) for q in own]
        yield Case(lines, {"kind": "object-from-file"})
    # one multi-line file beyond 8 KB
    s = "".join(rng.choice("ACDEFGHIKLMNPQRSTVWY") for _ in range(9100))
    text = ">big\n" + "\n".join(s[i:i + 60] for i in range(0, len(s), 60)) + "\n"
    big = ["parseq %s %s" % (hex6(text), q) for q in own if q.split(" ")[0] not in ("kappa", "dmax", "dmaxperm", "omega", "scd")]
    if big:
        yield Case(big, {"kind": "object-from-big-file"})


def repeated_call_cases(rng, n, own, extra_seqs=()):
    """every own query asked three times in a row (and once more after the others) on one object: the answers must all be the model's"""
    from .runner import Case
    seqs = list(extra_seqs) + [rand_seq(rng, rng.choice(["polyampholyte", "idp", "blocky"]), rng.randint(6, 40)) for _ in range(n)]
    for s in seqs:
        lines = ["new 0 " + s]
        for q in own:
            lines += ["o 0 " + q] * 3
        lines += ["o 0 " + q for q in own]
        yield Case(lines, {"kind": "repeated-calls", "judge_from": 1})


def after_calls_cases(rng, n, own, minlen=8, maxlen=50):
    """blocks `new 0 SEQ ; <other public calls> ; <the property's own queries>` on ONE object: half of them with every call of PRECALLS
    (shuffled), half with a random few; only the own queries are judged (tag judge_from)"""
    from .runner import Case
    for k in range(n):
        s = rand_seq(rng, rng.choice(["polyampholyte", "idp", "blocky", "polyampholyte"]), rng.randint(minlen, maxlen))
        if not (any(c in "KR" for c in s) and any(c in "DE" for c in s)):
            s = s[:-4] + "KEDR"
        pre = list(PRECALLS)
        rng.shuffle(pre)
        if k % 2:
            pre = pre[:rng.randint(1, 4)]
        scene = ["o 0 " + q for q in pre]
        # state-changing calls that must not touch any analysis either: phosphosites set / cleared, a palette installed
        if rng.random() < 0.6:
            from .real import hex6
            pal = ",".join("%s=%s" % (hex6(a), hex6(rng.choice(["red", "blue", "teal", "olive", "black"]))) for a in AAS)
            extra = ["setphos 0 " + " ".join(str(rng.randint(-1, len(s) + 1)) for _ in range(rng.randint(1, 4))), "clearphos 0", "setpal 0 " + pal,
                     "setphos 0 " + " ".join(str(i + 1) for i, c in enumerate(s) if c in "STY")[:40]]
            for e in extra:
                if e.strip() != "setphos 0" and rng.random() < 0.7:
                    scene.insert(rng.randint(0, len(scene)), e)
        if k % 4 == 2:
            # the scene is played on ANOTHER live object (object 1): object 0 must not notice
            t = rand_seq(rng, rng.choice(["polyampholyte", "idp", "blocky"]), rng.randint(minlen, maxlen))
            scene = [l.replace("o 0 ", "o 1 ", 1).replace("setphos 0 ", "setphos 1 ", 1).replace("clearphos 0", "clearphos 1").replace("setpal 0 ", "setpal 1 ", 1)
                     for l in scene if not l.startswith("setphos")]
            lines = ["new 0 " + s, "new 1 " + t] + scene + ["o 0 " + q for q in own]
            yield Case(lines, {"kind": "after-calls-on-another-object", "judge_from": 2 + len(scene)})
            continue
        lines = ["new 0 " + s] + scene + ["o 0 " + q for q in own]
        yield Case(lines, {"kind": "after-other-calls", "judge_from": 1 + len(scene)})
