"""shared input generators; every random choice derives from the rng handed in"""
import itertools

AAS = "ACDEFGHIKLMNPQRSTVWY"
POS = "KR"
NEG = "DE"
NEUT = "ACFGHILMNPQSTVWY"


def spell(pattern, rng, plain=False):
    """pattern over +-0 -> residues of the same charge class"""
    if plain:
        return "".join({'+': 'K', '-': 'E', '0': 'G'}[c] for c in pattern)
    out = []
    for c in pattern:
        if c == '+':
            out.append(rng.choice(POS))
        elif c == '-':
            out.append(rng.choice(NEG))
        else:
            out.append(rng.choice(NEUT))
    return "".join(out)


def patterns_upto(n, lo=1):
    for L in range(lo, n + 1):
        for t in itertools.product("+-0", repeat=L):
            yield "".join(t)


def compositions(N, lo=1):
    """all (np, nn, n0) with lo <= np+nn+n0 <= N"""
    for tot in range(lo, N + 1):
        for a in range(tot + 1):
            for b in range(tot - a + 1):
                yield (a, b, tot - a - b)


def arrange(comp, rng):
    a, b, c = comp
    l = ['+'] * a + ['-'] * b + ['0'] * c
    rng.shuffle(l)
    return "".join(l)


def rand_seq(rng, kind, n):
    if kind == "idp":
        w = {'A': 6, 'C': 1, 'D': 6, 'E': 9, 'F': 2, 'G': 8, 'H': 2, 'I': 2, 'K': 8, 'L': 4, 'M': 2, 'N': 4, 'P': 8, 'Q': 6,
             'R': 5, 'S': 9, 'T': 6, 'V': 3, 'W': 1, 'Y': 2}
        return "".join(rng.choices(list(w), weights=list(w.values()), k=n))
    if kind == "polyampholyte":
        f = rng.uniform(0.3, 1.0)
        return "".join(rng.choice("KRDE") if rng.random() < f else rng.choice(NEUT) for _ in range(n))
    if kind == "polyelectrolyte":
        cls = rng.choice([POS, NEG])
        f = rng.uniform(0.2, 1.0)
        return "".join(rng.choice(cls) if rng.random() < f else rng.choice(NEUT) for _ in range(n))
    if kind == "lowcomplexity":
        k = rng.randint(1, 3)
        letters = rng.sample(AAS, k)
        return "".join(rng.choice(letters) for _ in range(n))
    if kind == "blocky":
        out = []
        while len(out) < n:
            out += [rng.choice(AAS)] * rng.randint(1, 8)
        return "".join(out[:n])
    if kind == "uniform":
        return "".join(rng.choice(AAS) for _ in range(n))
    if kind == "neutral":
        return "".join(rng.choice(NEUT) for _ in range(n))
    raise ValueError(kind)


KINDS = ["idp", "polyampholyte", "polyelectrolyte", "lowcomplexity", "blocky", "uniform", "neutral"]


def rand_len(rng, hi):
    r = rng.random()
    if r < 0.25:
        return rng.randint(1, 8)
    if r < 0.6:
        return rng.randint(9, 40)
    if r < 0.9:
        return rng.randint(41, max(42, hi // 2))
    return rng.randint(max(42, hi // 2), hi)


def rand_seqs(rng, count, hi):
    for _ in range(count):
        k = rng.choice(KINDS)
        yield k, rand_seq(rng, k, rand_len(rng, hi))


def permute(s, rng):
    l = list(s)
    rng.shuffle(l)
    return "".join(l)
