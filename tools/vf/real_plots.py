"""C19: call the plotting entry points of the real code (Agg backend) and describe the figure they build"""
import os, io, contextlib, tempfile, shutil


def figdesc(plt, ret):
    d = {"returned": ret is not None, "returned_is_plt": ret is plt}
    figs = plt.get_fignums()
    if not figs:
        d["nofig"] = True
        return d
    fig = plt.gcf()
    ax = fig.axes[0] if fig.axes else None
    if ax is None:
        d["nofig"] = True
        return d
    d["title"] = ax.get_title()
    d["xlabel"] = ax.get_xlabel()
    d["ylabel"] = ax.get_ylabel()
    d["xlim"] = [float(x) for x in ax.get_xlim()]
    d["ylim"] = [float(x) for x in ax.get_ylim()]
    d["markers"] = [[float(a), float(b)] for c in ax.collections for a, b in c.get_offsets().tolist()]
    d["texts"] = [[t.get_text(), float(t.xy[0]) if hasattr(t, "xy") else None, float(t.xy[1]) if hasattr(t, "xy") else None] for t in ax.texts]
    polys, bars = [], []
    import matplotlib.patches as mp
    for p in ax.patches:
        if isinstance(p, mp.Rectangle):
            bars.append([float(p.get_x() + p.get_width() / 2.0), float(p.get_height()), float(p.get_width())])
        else:
            xy = p.get_xy().tolist()
            if len(xy) > 1 and xy[0] == xy[-1]:
                xy = xy[:-1]
            polys.append([[float(a), float(b)] for a, b in xy])
    d["polygons"] = polys
    d["bars"] = bars
    d["legend"] = ax.get_legend() is not None
    # drawing order: (zorder, insertion index) of every marker collection and of every region polygon
    order = {id(a): i for i, a in enumerate(ax.get_children())}
    d["marker_order"] = [[float(c.get_zorder()), order.get(id(c), 0)] for c in ax.collections]
    d["polygon_order"] = [[float(p.get_zorder()), order.get(id(p), 0)] for p in ax.patches if not isinstance(p, mp.Rectangle)]
    return d


def _seq_objs(a, SP):
    objs = [SP(s) for s in a["seqs"]]
    k = a.get("seqs_one_shot")
    return iter(objs) if k == "iter" else (o for o in objs) if k == "gen" else tuple(objs) if k == "tuple" else objs


def run_plot(toks, state):
    """plot <entry> <json-hex args>"""
    import json
    import matplotlib
    matplotlib.use("Agg")
    import matplotlib.pyplot as plt
    from localcider.sequenceParameters import SequenceParameters as SP
    from localcider import plots
    from . import real
    a = json.loads(real.unhex6(toks[2]))
    entry = toks[1]
    if a.get("coords_as_str"):
        a["x"], a["y"] = repr(a["x"]), repr(a["y"])          # numeric strings, which the entry points convert with float()
    if a.get("seqs_one_shot"):
        _seqs_one_shot = True
    if a.get("labels") and a.get("labels_as"):
        import numpy as np
        a["labels"] = {"tuple": tuple, "ndarray": np.array}[a["labels_as"]](a["labels"])
    if a.get("as_array"):
        import numpy as np
        a["xs"] = np.array(a["xs"], dtype=float)
        a["ys"] = np.array(a["ys"], dtype=float)
        before_xy = (a["xs"].copy(), a["ys"].copy())
    # figures are closed by the harness only at the start of a block and after a show_* call (getFig=True hands the figure to the
    # caller); a save_* call has to leave no figure behind by itself - a later plot of the same block would otherwise show it
    if not state.get("plot_started"):
        plt.close("all")
        state["plot_started"] = True
    at_save = []
    orig_savefig = plt.savefig

    def recording_savefig(*args, **kwargs):
        # what is about to be written: the figure as it is at save time
        try:
            at_save.append(figdesc(plt, None))
        except Exception as e:  # noqa
            at_save.append({"nofig": True, "error": repr(e)})
        return orig_savefig(*args, **kwargs)
    plt.savefig = recording_savefig
    tmp = tempfile.mkdtemp(prefix="ciderverif_plot_")
    try:
        # the file NAME may carry another extension than the requested format (or none): the format argument decides what is written
        ext = a.get("fname_ext", a.get("fmt", "png"))
        fname = os.path.join(tmp, "out" + ("." + ext if ext else ""))
        saved = None
        with contextlib.redirect_stdout(io.StringIO()), contextlib.redirect_stderr(io.StringIO()):
            kw = {k: a[k] for k in ("label", "title", "legendOn", "xLim", "yLim", "fontSize") if k in a}
            if entry == "sp_show_phase":
                ret = SP(a["seq"]).show_phaseDiagramPlot(getFig=True, **kw)
            elif entry == "sp_save_phase":
                ret = SP(a["seq"]).save_phaseDiagramPlot(fname, saveFormat=a["fmt"], **kw); saved = fname
            elif entry == "sp_show_uversky":
                ret = SP(a["seq"]).show_uverskyPlot(getFig=True, **kw)
            elif entry == "sp_save_uversky":
                ret = SP(a["seq"]).save_uverskyPlot(fname, saveFormat=a["fmt"], **kw); saved = fname
            elif entry == "sp_show_linear":
                ret = getattr(SP(a["seq"]), "show_linear" + a["kind"])(a["w"], getFig=True)
            elif entry == "sp_save_linear":
                ret = getattr(SP(a["seq"]), "save_linear" + a["kind"])(fname, a["w"], a["fmt"]); saved = fname
            elif entry == "sp_show_complexity":
                ret = SP(a["seq"]).show_linearComplexity(complexityType=a["ctype"], blobLen=a["w"], getFig=True)
            elif entry == "sp_save_complexity":
                ret = SP(a["seq"]).save_linearComplexity(fname, complexityType=a["ctype"], blobLen=a["w"], saveFormat=a["fmt"]); saved = fname
            elif entry == "pl_show_single_phase":
                ret = plots.show_single_phasePlot(a["x"], a["y"], getFig=True, **kw)
            elif entry == "pl_save_single_phase":
                ret = plots.save_single_phasePlot(a["x"], a["y"], fname, saveFormat=a["fmt"], **kw); saved = fname
            elif entry == "pl_show_multi_phase":
                kw2 = dict(kw); kw2.pop("label", None)
                ret = plots.show_multiple_phasePlot(a["xs"], a["ys"], a["labels"], getFig=True, **kw2) if len(a["labels"]) else plots.show_multiple_phasePlot(a["xs"], a["ys"], getFig=True, **kw2)
            elif entry == "pl_save_multi_phase":
                kw2 = dict(kw); kw2.pop("label", None)
                ret = plots.save_multiple_phasePlot(a["xs"], a["ys"], fname, a["labels"], saveFormat=a["fmt"], **kw2); saved = fname
            elif entry == "pl_show_multi_phase2":
                kw2 = dict(kw); kw2.pop("label", None)
                ret = plots.show_multiple_phasePlot2(_seq_objs(a, SP), a["labels"], getFig=True, **kw2) if len(a["labels"]) else plots.show_multiple_phasePlot2(_seq_objs(a, SP), getFig=True, **kw2)
            elif entry == "pl_save_multi_phase2":
                kw2 = dict(kw); kw2.pop("label", None)
                ret = plots.save_multiple_phasePlot2(_seq_objs(a, SP), fname, a["labels"], saveFormat=a["fmt"], **kw2); saved = fname
            elif entry == "pl_show_single_uversky":
                ret = plots.show_single_uverskyPlot(a["y"], a["x"], getFig=True, **kw)
            elif entry == "pl_save_single_uversky":
                ret = plots.save_single_uverskyPlot(a["y"], a["x"], fname, saveFormat=a["fmt"], **kw); saved = fname
            elif entry == "pl_show_multi_uversky":
                kw2 = dict(kw); kw2.pop("label", None)
                ret = plots.show_multiple_uverskyPlot(a["ys"], a["xs"], a["labels"], getFig=True, **kw2) if len(a["labels"]) else plots.show_multiple_uverskyPlot(a["ys"], a["xs"], getFig=True, **kw2)
            elif entry == "pl_save_multi_uversky":
                kw2 = dict(kw); kw2.pop("label", None)
                ret = plots.save_multiple_uverskyPlot(a["ys"], a["xs"], fname, a["labels"], saveFormat=a["fmt"], **kw2); saved = fname
            elif entry == "pl_show_multi_uversky2":
                kw2 = dict(kw); kw2.pop("label", None)
                ret = plots.show_multiple_uverskyPlot2(_seq_objs(a, SP), a["labels"], getFig=True, **kw2) if len(a["labels"]) else plots.show_multiple_uverskyPlot2(_seq_objs(a, SP), getFig=True, **kw2)
            elif entry == "pl_save_multi_uversky2":
                kw2 = dict(kw); kw2.pop("label", None)
                ret = plots.save_multiple_uverskyPlot2(_seq_objs(a, SP), fname, a["labels"], saveFormat=a["fmt"], **kw2); saved = fname
            else:
                raise KeyError(entry)
        d = figdesc(plt, ret)
        d["open_figures_after"] = len(plt.get_fignums())
        if a.get("as_array"):
            d["caller_arrays_unchanged"] = bool((a["xs"] == before_xy[0]).all() and (a["ys"] == before_xy[1]).all())
        if saved:
            d["at_save"] = at_save[-1] if at_save else None
            d["n_savefig_calls"] = len(at_save)
            d["saved"] = os.path.exists(saved) and os.path.getsize(saved) > 100
            if d["saved"]:
                head = open(saved, "rb").read(8)
                d["magic"] = "png" if head.startswith(b"\x89PNG") else "pdf" if head.startswith(b"%PDF") else "svg" if head.startswith(b"<?xml") else "other"
        if "_show_" in entry:
            plt.close("all")
        return ("fig", d)
    finally:
        plt.savefig = orig_savefig
        shutil.rmtree(tmp, ignore_errors=True)
