"""extension ops: constructors from raw strings / files, stateful objects, moves"""
import os, tempfile, shutil
from . import real


class StrSub(str):
    pass


class ColourName(str):
    """a str subclass (as a str-valued Enum member is) whose str() is not the colour name"""
    def __str__(self):
        return "ColourName." + str.upper(self)


class StrLike(object):
    """not a string, but str() of it spells residues"""
    def __str__(self):
        return "MKDE"


def _seqobj():
    from localcider.backend.sequence import Sequence
    return Sequence("ACDE")


OTHERS = {"none": None, "int": 5, "bytes": b"ACD", "list": ["A"], "strsub": StrSub("ACD"), "float": 1.5, "tuple": ("A", "C"),
          # non-strings whose str() happens to spell amino-acid letters
          "false": False, "true": True, "nan": float("nan"), "inf": float("inf"), "strlike": StrLike(), "seqobj": _seqobj,
          "dict": {"A": 1}, "set": {"A"}, "complex": 1j, "zero": 0}


def _tmp(state):
    if "tmp" not in state:
        state["tmp"] = tempfile.mkdtemp(prefix="ciderverif_")
    return state["tmp"]


def write_file(state, text):
    d = _tmp(state)
    state["nfile"] = state.get("nfile", 0) + 1
    p = os.path.join(d, "seq%d.txt" % state["nfile"])
    with open(p, "w", encoding="utf-8", newline="") as fh:
        fh.write(text)
    return p


def build_sp(SP, text, state):
    """SequenceParameters from a string; '@withfile' also hands a sequenceFile (of another sequence), '@seqobj:<kind>' an empty / false
    SeqObj - neither is used when a string is given"""
    kw = {}
    pos = [text]
    for f in real.FLAGS:
        if f == "@withfile":
            path = write_file(state, ">other\nGGGGSSSSGGGGSSSS\n")
            if len(text) % 2:
                pos.append(path)
            else:
                kw["sequenceFile"] = path
        elif f.startswith("@seqobj:"):
            kw["SeqObj"] = {"empty": "", "false": False, "zero": 0, "tuple": (), "list": [], "none": None}[f.split(":", 1)[1]]
    if "SeqObj" in kw and len(pos) == 1 and len(text) % 3 == 0:
        return SP(text, "", kw["SeqObj"])
    return SP(*pos, **kw)


def _same_answer(a, b):
    if a[0] != b[0]:
        return False
    if a[0] == "exc":
        return a[1] == b[1]
    if a[0] == "num":
        return a[1] == b[1] or abs(a[1] - b[1]) <= 1e-12 * max(1.0, abs(a[1]), abs(b[1])) or (a[1] != a[1] and b[1] != b[1])
    if a[0] == "perm":
        return abs(a[1] - b[1]) <= 1e-12 and a[2] == b[2]
    if a[0] == "mat":
        try:
            import numpy as np
            return np.allclose(np.array(a[1], dtype=float), np.array(b[1], dtype=float), rtol=1e-12, atol=1e-12, equal_nan=True)
        except Exception:
            return a == b
    return a == b


def eval_ext(toks, state):
    SP = real.SP()
    op = toks[0]
    if op == "reset":
        state.pop("objs", None)
        return ("none",)
    if op == "mk":
        text = real.unhex6(toks[1]) if len(toks) > 1 else ""
        return real.query(build_sp(SP, text, state), "seq", [])
    if op == "mkcwd":
        # mkcwd <hex raw> <query...>: construct from the raw string while the current directory contains a FILE and a DIRECTORY-free
        # namesake of that string (and of its upper-cased form)
        raw = real.unhex6(toks[1])
        d = _tmp(state)
        sub = os.path.join(d, "cwd%d" % state.setdefault("ncwd", 0))
        state["ncwd"] += 1
        os.makedirs(sub, exist_ok=True)
        for name in {raw, raw.upper(), raw.strip()}:
            if name and "/" not in name and "\x00" not in name and len(name) < 200:
                try:
                    with open(os.path.join(sub, name), "w") as fh:
                        fh.write(">x\nGGGGGGGGGG\n")
                except OSError:
                    pass
        old = os.getcwd()
        os.chdir(sub)
        try:
            return real.query(SP(raw), toks[2], toks[3:])
        finally:
            os.chdir(old)
    if op == "backendq":
        # backendq <hex raw letters> <query...>: SequenceParameters(SeqObj=Sequence(raw)) - the backend upper-cases on its own
        from localcider.backend.sequence import Sequence
        return real.query(SP(SeqObj=Sequence(real.unhex6(toks[1]))), toks[2], toks[3:])
    if op == "mkother":
        v = OTHERS[toks[1]]
        return real.query(SP(v() if callable(v) and not isinstance(v, StrLike) else v), "seq", [])
    if op == "mkq":
        return real.query(build_sp(SP, real.unhex6(toks[1]), state), toks[2], toks[3:])
    if op == "parse":
        from localcider.backend.seqfileparser import SequenceFileParser
        text = real.unhex6(toks[1]) if len(toks) > 1 else ""
        if "@silent" in real.FLAGS:
            return ("str", SequenceFileParser().parseSeqFile(write_file(state, text), silent=True) if len(text) % 2 else
                    SequenceFileParser().parseSeqFile(write_file(state, text), True))
        return ("str", SequenceFileParser().parseSeqFile(write_file(state, text)))
    if op == "childq":
        # childq <how> SEQ [i j] <query> [args]: the query is put to an object that was NOT built from a string but handed back by a
        # move / shuffle of the library; its answers must be those of the sequence it holds
        from localcider.backend.sequence import Sequence
        import io, contextlib
        how, seq = toks[1], toks[2]
        with contextlib.redirect_stdout(io.StringIO()):
            par_backend = None
            if how == "swap":
                par_backend = Sequence(seq)
                child, rest = SP(SeqObj=par_backend.swapRes(int(toks[3]), int(toks[4]))), toks[5:]
            elif how == "swapcharge":
                par_backend = Sequence(seq)
                child, rest = SP(SeqObj=par_backend.swapRandChargeRes()), toks[3:]
            elif how in ("deepcopy", "pickle", "copybackend", "copy"):
                # a duplicate of an object on which state was built up first: copy<how> SEQ <pre-call csv|-> query...
                import copy as _copy, pickle as _pickle
                parent = SP(seq)
                for pre in ([] if toks[3] == "-" else toks[3].split(",")):
                    if pre == "kappa":
                        parent.get_kappa()
                    elif pre == "dmaxperm":
                        parent.get_deltaMax(True)
                    elif pre == "setphos":
                        parent.set_phosphosites([i + 1 for i, c in enumerate(seq) if c in "STY"][:3])
                    elif pre == "linFCR":
                        parent.get_linear_FCR(2)
                child = {"deepcopy": lambda: _copy.deepcopy(parent), "pickle": lambda: _pickle.loads(_pickle.dumps(parent)),
                         "copy": lambda: _copy.copy(parent), "copybackend": lambda: SP(SeqObj=_copy.copy(parent.SeqObj))}[how]()
                rest = toks[4:]
                if child.get_phosphosites() != parent.get_phosphosites() and how != "copy":
                    return ("exc", "Inconsistent", "the duplicate lists phosphosites %r, the original %r" % (child.get_phosphosites(), parent.get_phosphosites()))
            elif how == "shuffle":
                child, rest = SP(seq).get_shuffled_sequence(), toks[3:]
            elif how in ("frozenshuffle", "kappashuffle"):
                # frozenshuffle SEQ <frozen csv|-> ... ; kappashuffle: the parent is asked for kappa first (its cache is warm)
                from . import real_moves
                fr = real_moves.frozen_of(toks[3])
                parent = SP(seq)
                if how == "kappashuffle":
                    parent.get_kappa()
                child, rest = parent.get_shuffled_sequence(real_moves.frozen_as(fr, len(seq))), toks[4:]
                if any(child.get_sequence()[i] != seq[i] for i in fr if 0 <= i < len(seq)):
                    return ("exc", "Inconsistent", "frozen residue moved")
            elif how == "backendshuffle":
                child, rest = SP(SeqObj=Sequence(seq).full_shuffle()), toks[3:]
            elif how in ("blockswap", "cluster"):
                par = Sequence(seq)
                par_backend = par
                if toks[3] == "warm":
                    par.deltaMax()
                try:
                    moved = par.permute_block_swap()
                except Exception:
                    moved = par.full_shuffle()      # (no block swap changes delta for this parent: the move gives up after 100 tries)
                child = SP(SeqObj=moved)
                rest = toks[4:]
            elif how == "permshuffle":
                # the parent was asked for its delta-max ARRANGEMENT first
                parent = SP(seq)
                parent.get_deltaMax(True)
                child, rest = parent.get_shuffled_sequence(), toks[3:]
                if child is parent or child.SeqObj is parent.SeqObj:
                    return ("exc", "Inconsistent", "get_shuffled_sequence handed back the object it was called on")
            elif how == "permutant":
                from localcider.sequencePermutants import SequencePermutants
                child, rest = SequencePermutants(seq).get_permutant(), toks[3:]
            else:
                raise KeyError(how)
        if sorted(child.get_sequence()) != sorted(seq):
            return ("exc", "Inconsistent", "the object handed back holds %s, not a rearrangement of %s" % (child.get_sequence(), seq))
        ans = real.query(child, rest[0], rest[1:])
        # model-free: the object answers exactly like one freshly built from the sequence it holds (asked the same way)
        if rest[0] not in ("getphos", "phosseq", "kappaphos", "phosdist", "html"):
            fresh = real.query(SP(child.get_sequence()), rest[0], rest[1:])
            if not _same_answer(ans, fresh):
                return ("exc", "Inconsistent", "the object obtained by %s answers %s -> %s, a fresh object holding the same sequence %s answers %s" % (
                    how, " ".join(rest), str(ans)[:120], child.get_sequence(), str(fresh)[:120]))
            # ... and the object the move was called on still answers like a fresh object holding ITS sequence
            if par_backend is not None and par_backend is not child.SeqObj:
                pa = real.query(SP(SeqObj=par_backend), rest[0], rest[1:])
                pf = real.query(SP(seq), rest[0], rest[1:])
                if not _same_answer(pa, pf):
                    return ("exc", "Inconsistent", "after %s the PARENT %s answers %s -> %s, a fresh object %s" % (how, seq, " ".join(rest), str(pa)[:120], str(pf)[:120]))
        return ("childq", child.get_sequence(), " ".join(rest), ans)
    if op == "parse2":
        # one parser object reused for every parse2 line of the block (parsing must not depend on earlier files)
        from localcider.backend.seqfileparser import SequenceFileParser
        if "parser" not in state:
            state["parser"] = SequenceFileParser()
        text = real.unhex6(toks[1]) if len(toks) > 1 else ""
        return ("str", state["parser"].parseSeqFile(write_file(state, text)))
    if op == "parseq":
        return real.query(SP(sequenceFile=write_file(state, real.unhex6(toks[1]))), toks[2], toks[3:])
    objs = state.setdefault("objs", {})
    if op == "new":
        objs[toks[1]] = SP(toks[2])
        return ("none",)
    if op == "o":
        return real.query(objs[toks[1]], toks[2], toks[3:])
    if op == "copyobj":
        # copyobj <j> <i>: object j := a facade around copy.copy of object i's backend object
        import copy as _copy
        objs[toks[1]] = SP(SeqObj=_copy.copy(objs[toks[2]].SeqObj))
        return ("none",)
    if op == "shufall":
        # shufall <j> <i>: object j := object i .get_shuffled_sequence(frozen = every position) - same sequence, a NEW object
        n = len(objs[toks[2]])
        objs[toks[1]] = objs[toks[2]].get_shuffled_sequence(set(range(n)) if n % 2 else list(range(n)))
        return ("none",)
    if op == "setphos":
        vals = [int(x) for x in toks[2:]]
        mode = state.get("phosmode", 0)
        if mode % 7 == 5 and len(vals) > 1:
            state["phosmode"] = mode + 1
            objs[toks[1]].set_phosphosites(iter(vals) if mode % 2 else (v for v in vals))      # positions from a one-shot iterator
            return ("none",)
        if mode % 4 == 3 and not (len(vals) == 1 and mode % 3 == 0):
            import numpy as np
            vals = [np.int64(v) for v in vals]      # (only inside a list / tuple: the single-position form is documented for a plain int)
        state["phosmode"] = mode + 1
        if len(vals) == 1 and mode % 3 == 0:
            arg = vals[0]            # single int
        elif mode % 3 == 1:
            arg = tuple(vals)
        else:
            arg = list(vals)
        objs[toks[1]].set_phosphosites(arg)
        return ("none",)
    if op == "clearphos":
        objs[toks[1]].clear_phosphosites()
        return ("none",)
    if op == "setpal":
        d = real.dict_tok(toks[2])
        state["palmode"] = state.get("palmode", 0) + 1
        if state["palmode"] % 3 == 0:
            d = dict((k, ColourName(v) if isinstance(v, str) else v) for k, v in d.items())     # values of a str subclass with its own __str__
        if "@backend" in real.FLAGS:
            objs[toks[1]].SeqObj.set_HTMLColorResiduePalette(d)      # the same update made on the backend object the facade wraps
        else:
            objs[toks[1]].set_HTMLColorResiduePalette(d)
        return ("none",)
    if op == "plot":
        from . import real_plots
        return real_plots.run_plot(toks, state)
    if op == "wlrun":
        from . import real_wl
        return real_wl.run_wl(toks)
    if op == "move":
        from . import real_moves
        return real_moves.eval_move(toks, state)
    raise KeyError("unknown op " + op)


def cleanup(state):
    d = state.pop("tmp", None)
    if d:
        shutil.rmtree(d, ignore_errors=True)
