"""extension ops (stateful / non-`q` ops); filled in per property"""


def eval_ext(toks, state):
    raise KeyError("unknown op " + toks[0])


def cleanup(state):
    pass
