"""C17: run the permutation moves of the real code under a RECORDING random generator"""
import random, types


class TapeCap(Exception):
    pass


class RecordingRandom(random.Random):
    TAPE = []
    SEED = 0
    CAP = 4000

    def seed(self, *a, **k):          # the code seeds with time.time(): replaced by the harness seed
        super().seed(RecordingRandom.SEED)
        RecordingRandom.SEED += 1

    def _log(self, item):
        if len(RecordingRandom.TAPE) >= RecordingRandom.CAP:
            raise TapeCap("more than %d random draws in one move" % RecordingRandom.CAP)
        RecordingRandom.TAPE.append(item)

    _depth = 0

    def shuffle(self, x):
        RecordingRandom._depth += 1
        try:
            super().shuffle(x)
        finally:
            RecordingRandom._depth -= 1
        self._log(("shuffle", list(int(v) for v in x)))

    def sample(self, population, k, **kw):
        RecordingRandom._depth += 1
        try:
            r = super().sample(population, k, **kw)
        finally:
            RecordingRandom._depth -= 1
        self._log(("sample", [int(v) for v in r]))
        return r

    def randint(self, a, b):
        RecordingRandom._depth += 1
        try:
            r = super().randint(a, b)
        finally:
            RecordingRandom._depth -= 1
        self._log(("randint", int(r)))
        return r

    def random(self):
        r = super().random()
        if RecordingRandom._depth == 0:
            self._log(("random", r))
        return r


def install(seed):
    import localcider.backend.sequence as seqmod
    shim = types.SimpleNamespace(Random=RecordingRandom)
    seqmod.rng = shim
    RecordingRandom.TAPE = []
    RecordingRandom.SEED = seed
    RecordingRandom._depth = 0


def frozen_of(tok):
    return set() if tok == "-" else set(int(x) for x in tok.split(","))


def fresh_pattern(seq):
    return [1 if c in "KR" else -1 if c in "DE" else 0 for c in seq]


def check_child(parent_seq, child, frozen, Sequence, respects_frozen=True):
    """the property's own oracle on the real objects"""
    bad = []
    cs = child.seq
    if sorted(cs) != sorted(parent_seq):
        bad.append("not-a-rearrangement")
    if respects_frozen:
        for i in frozen:
            if 0 <= i < len(parent_seq) and (i >= len(cs) or cs[i] != parent_seq[i]):
                bad.append("frozen-%d-moved" % i)
                break
    if child.len != len(cs):
        bad.append("len")
    if [int(x) for x in child.chargePattern] != fresh_pattern(cs):
        bad.append("chargePattern")
    if child.dmax != -1:
        f = Sequence(cs).deltaMax()
        if abs(float(child.dmax) - float(f)) > 1e-12:
            bad.append("stale-dmax")
    if getattr(child, "seqDeltaMax", None) is not None:
        # a carried-over delta-max ARRANGEMENT must be the one a fresh object computes
        if child.seqDeltaMax != Sequence(cs).deltaMax(True)[1]:
            bad.append("stale-dmax-permutant")
    return bad


def frozen_as(frozen, salt):
    """the frozen positions in one of the container types callers use"""
    fs = sorted(frozen)
    k = salt % 5
    if k == 4 and fs and fs == list(range(fs[0], fs[-1] + 1)):
        return range(fs[0], fs[-1] + 1)
    return [set(fs), list(fs), tuple(fs), frozenset(fs), set(fs)][k]


def do_move(obj, kind, frozen, args):
    if kind == "swap":
        return obj.swapRes(int(args[0]), int(args[1]))
    if kind == "swapcharge":
        return obj.swapRandChargeRes(frozen)
    if kind == "shuffle":
        return obj.full_shuffle(frozen_as(frozen, len(obj.seq) + len(frozen)))
    if kind == "block":
        return obj.permute_block_swap(frozen)
    if kind == "cluster":
        return obj.permute_cluster_charges(frozen)
    raise KeyError(kind)


def eval_move(toks, state):
    """move <kinds csv> SEQ <frozen> <seed> <cached 0|1> [i j]"""
    from localcider.backend.sequence import Sequence
    kinds = toks[1].split(",")
    seq, frozen, seed, cached = toks[2], frozen_of(toks[3]), int(toks[4]), toks[5] in ("1", "2")
    via_kappa = toks[5] == "2"      # warm the cache through kappa() instead of deltaMax()
    extra = toks[6:]
    install(seed)
    if kinds == ["api_shuffle"]:
        from localcider.sequenceParameters import SequenceParameters
        if seed % 4 == 0:
            class Labelled(SequenceParameters):          # a user subclass with its own constructor signature
                def __init__(self, sequence, label="x"):
                    SequenceParameters.__init__(self, sequence)
                    self.label = label
            sp = Labelled(seq, "mine")
        else:
            sp = SequenceParameters(seq)
        if cached:
            sp.get_kappa()
        RecordingRandom.TAPE = []
        child = sp.get_shuffled_sequence(frozen_as(frozen, len(seq) + len(frozen) + seed))
        bad = check_child(seq, child.SeqObj, frozen, Sequence)
        if sp.get_sequence() != seq:
            bad.append("parent-changed")
        if child.get_length() != len(child.get_sequence()) or len(child) != len(seq):
            bad.append("api-len")
        return ("moves", [("shuffle", seq, child.get_sequence(), list(RecordingRandom.TAPE), bad)])
    if kinds == ["permutant"]:
        import io, contextlib
        from localcider.sequencePermutants import SequencePermutants
        with contextlib.redirect_stdout(io.StringIO()):
            p = SequencePermutants(seq)
        RecordingRandom.TAPE = []
        child = p.get_permutant()
        bad = check_child(seq, child.SeqObj, set(), Sequence)
        if p.SeqObj.seq != seq:
            bad.append("parent-changed")
        return ("moves", [("shuffle", seq, child.get_sequence(), list(RecordingRandom.TAPE), bad)])
    obj = Sequence(seq)
    if toks[5] == "3":
        obj.deltaMax(True)          # the parent holds value AND arrangement
    if cached:
        if via_kappa:
            import io, contextlib
            with contextlib.redirect_stdout(io.StringIO()):
                obj.kappa()
        else:
            obj.deltaMax()
    steps = []
    for kind in kinds:
        before = obj.seq
        before_pat = [int(x) for x in obj.chargePattern]
        RecordingRandom.TAPE = []
        try:
            child = do_move(obj, kind, frozen, extra)
        except TapeCap as e:
            steps.append((kind, before, "exc:TapeCap", list(RecordingRandom.TAPE[-3:]), []))
            break
        except Exception as e:
            steps.append((kind, before, "exc:" + e.__class__.__name__, list(RecordingRandom.TAPE), []))
            break
        bad = []
        if obj.seq != before or [int(x) for x in obj.chargePattern] != before_pat:
            bad.append("parent-changed")
        if child is obj:
            steps.append((kind, before, "self", list(RecordingRandom.TAPE), bad))
        else:
            # swapRes(i, j) has no `frozen` parameter: the caller picks the positions
            bad += check_child(before, child, frozen, Sequence, respects_frozen=(kind != "swap"))
            steps.append((kind, before, child.seq, list(RecordingRandom.TAPE), bad))
            obj = child
    return ("moves", steps)
