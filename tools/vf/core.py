"""
vf.core — shared machinery of the checks:
  * regenerate Gen/*.lean from /repo, build the Lean project, audit axioms
  * run the real API and the Lean driver on the same op lines, compare
  * evidence / replay files / VIOLATION lines / known findings
Runs under /venv/bin/python (the interpreter that has localcider's dependencies).
"""
import os, sys, json, time, re, subprocess, fcntl, random, tempfile, shutil, hashlib, traceback
from fractions import Fraction
import multiprocessing as mp

VERIF = os.path.abspath(os.path.join(os.path.dirname(__file__), "..", ".."))
LEAN = os.path.join(VERIF, "lean")
REPO = os.environ.get("CIDER_REPO", "/repo")
DRV = os.path.join(LEAN, ".lake", "build", "bin", "ciderdrv")
GUARD = "LOCALCIDER_VERIF"
ALLOWED_AXIOMS = {"propext", "Classical.choice", "Quot.sound"}
NCPU = max(2, min(16, (os.cpu_count() or 4)))
TOL = 1e-9

TRUSTED_BASE_COMMON = [
    "Lean 4.33.0 kernel (+ leanchecker re-check of the Props modules in the thorough tier)",
    "axioms allowed: propext, Classical.choice, Quot.sound (audited with #print axioms on every run); no sorry/admit/native_decide/own axioms",
    "tools/extract.py (tabulates the live code into lean/Cider/Gen/*.lean on every run)",
    "correspondence harness tools/vf (op dispatch to the public API, float-vs-rational tolerance 1e-9, exception => 'exc')",
    "CPython/NumPy double arithmetic is IEEE-754 with correctly rounded + - * /",
]


# ----------------------------------------------------------------------------------------------
# small utilities
# ----------------------------------------------------------------------------------------------
def log(*a):
    print(*a, file=sys.stderr, flush=True)


class Infra(Exception):
    """infrastructure failure: exit 2, never a VIOLATION"""


def run(cmd, cwd=None, timeout=3600, env=None, input=None):
    e = dict(os.environ)
    if env:
        e.update(env)
    p = subprocess.run(cmd, cwd=cwd, stdout=subprocess.PIPE, stderr=subprocess.STDOUT, timeout=timeout, env=e,
                       input=input, text=True)
    return p.returncode, p.stdout


class Lock:
    def __init__(self, name=".lock"):
        self.path = os.path.join(VERIF, name)

    def __enter__(self):
        self.fh = open(self.path, "w")
        fcntl.flock(self.fh, fcntl.LOCK_EX)
        return self

    def __exit__(self, *a):
        fcntl.flock(self.fh, fcntl.LOCK_UN)
        self.fh.close()


# ----------------------------------------------------------------------------------------------
# (G) regenerate + build + audit
# ----------------------------------------------------------------------------------------------
def regenerate():
    """run the translators against the live tree.  returns dict(status)"""
    st = {"ok": True, "errors": {}, "changed": []}
    for script in ("extract.py", "pyexpr2lean.py"):
        path = os.path.join(VERIF, "tools", script)
        if not os.path.exists(path):
            continue
        rc, out = run(["/venv/bin/python", path], env={"CIDER_REPO": REPO, GUARD: "1", "MPLBACKEND": "Agg"}, timeout=600)
        last = [l for l in out.splitlines() if l.startswith("{")]
        try:
            js = json.loads(last[-1])
        except Exception:
            js = {"ok": False, "errors": {script: out[-2000:]}, "changed": []}
        if not js.get("ok", False) or rc != 0:
            st["ok"] = False
        st["errors"].update(js.get("errors", {}))
        st["changed"] += js.get("changed", [])
        if "unavailable" in js:
            st.setdefault("unavailable", []).extend(js["unavailable"])
    return st


def lake_build(targets, timeout=3000):
    rc, out = run(["lake", "build"] + list(targets), cwd=LEAN, timeout=timeout)
    return rc, out


ERR_RE = re.compile(r"^(?:error: (\S+?\.lean):(\d+):(\d+):(.*)|(\S+?\.lean):(\d+):(\d+): error:?(.*))$")


def failing_theorems(build_output):
    """map lake's error lines to the enclosing theorem names"""
    res = []
    for line in build_output.splitlines():
        m = ERR_RE.match(line.strip())
        if not m:
            continue
        g = m.groups()
        if g[0] is None:
            g = g[4:]
        f, ln = g[0], int(g[1])
        path = f if os.path.isabs(f) else os.path.join(LEAN, f)
        name = None
        try:
            src = open(path).read().splitlines()
            for i in range(min(ln, len(src)) - 1, -1, -1):
                mm = re.match(r"\s*(?:private\s+|protected\s+)?(?:theorem|lemma|def|example|instance)\s+([^\s:({\[]+)?", src[i])
                if mm:
                    name = mm.group(1) or "example@%d" % (i + 1)
                    break
        except OSError:
            pass
        res.append({"file": os.path.relpath(path, LEAN), "line": ln, "decl": name, "msg": (g[3] or "").strip()[:300]})
    return res


FORBIDDEN = re.compile(r"\b(sorry|admit|native_decide|bv_decide|implemented_by|unsafe|maxHeartbeats 0)\b|^\s*axiom\s", re.M)


def strip_comments(src):
    # remove /- ... -/ (nested) and -- comments
    out, i, depth = [], 0, 0
    while i < len(src):
        if src.startswith("/-", i):
            depth += 1
            i += 2
        elif src.startswith("-/", i) and depth > 0:
            depth -= 1
            i += 2
        elif depth > 0:
            i += 1
        elif src.startswith("--", i):
            j = src.find("\n", i)
            i = len(src) if j < 0 else j
        else:
            out.append(src[i])
            i += 1
    return "".join(out)


def grep_forbidden():
    hits = []
    for root, _, files in os.walk(os.path.join(LEAN, "Cider")):
        for f in files:
            if f.endswith(".lean"):
                p = os.path.join(root, f)
                src = strip_comments(open(p).read())
                for m in FORBIDDEN.finditer(src):
                    hits.append("%s: %s" % (os.path.relpath(p, LEAN), m.group(0).strip()))
    return hits


def audit(theorems, imports):
    """#print axioms for every property theorem; returns {name: [axioms]} or raises Infra"""
    src = "".join("import %s\n" % m for m in imports) + "".join("#print axioms %s\n" % t for t in theorems)
    d = tempfile.mkdtemp(prefix="ciderverif_audit_")
    try:
        f = os.path.join(d, "Audit.lean")
        open(f, "w").write(src)
        rc, out = run(["lake", "env", "lean", f], cwd=LEAN, timeout=1200)
    finally:
        shutil.rmtree(d, ignore_errors=True)
    res = {}
    # messages can span several lines
    txt = out.replace("\n  ", " ").replace("\n ", " ")
    for t in theorems:
        m = re.search(r"'%s' depends on axioms: \[([^\]]*)\]" % re.escape(t), txt)
        if m:
            res[t] = [a.strip() for a in m.group(1).split(",") if a.strip()]
        elif re.search(r"'%s' does not depend on any axioms" % re.escape(t), txt):
            res[t] = []
        else:
            res[t] = None
    return res, out


# ----------------------------------------------------------------------------------------------
# driver
# ----------------------------------------------------------------------------------------------
def driver_line(line):
    """tokens starting with '@' select the ROUTE by which the real API is reached (backend method instead of the facade, silent=True,
    the SequencePermutants wrapper, ...); the model has one answer for all routes, so the driver never sees them"""
    if "@" not in line:
        return line
    return " ".join(t for t in line.split(" ") if not t.startswith("@"))


def run_driver(lines, mode):
    """lines: list of op lines. returns list of output lines (same length)"""
    if not lines:
        return []
    lines = [driver_line(l) for l in lines]
    p = subprocess.run([DRV, mode], input="\n".join(lines) + "\n", stdout=subprocess.PIPE, stderr=subprocess.PIPE, text=True,
                       timeout=7200)
    if p.returncode != 0:
        raise Infra("driver exited %d: %s" % (p.returncode, p.stderr[-500:]))
    out = p.stdout.split("\n")
    if out and out[-1] == "":
        out.pop()
    if len(out) != len(lines):
        raise Infra("driver returned %d lines for %d ops" % (len(out), len(lines)))
    return out


def run_driver_parallel(lines, mode, chunks=NCPU):
    if len(lines) < 64:
        return run_driver(lines, mode)
    lines = [driver_line(l) for l in lines]
    n = len(lines)
    k = min(chunks, max(1, n // 16))
    # round-robin so heavy cases spread
    parts = [lines[i::k] for i in range(k)]
    procs = []
    for part in parts:
        p = subprocess.Popen([DRV, mode], stdin=subprocess.PIPE, stdout=subprocess.PIPE, stderr=subprocess.PIPE, text=True)
        procs.append(p)
    import threading
    outs = [None] * k

    def feed(i):
        o, e = procs[i].communicate("\n".join(parts[i]) + "\n")
        outs[i] = (procs[i].returncode, o, e)
    ths = [threading.Thread(target=feed, args=(i,)) for i in range(k)]
    for t in ths:
        t.start()
    for t in ths:
        t.join()
    res = [None] * n
    for i in range(k):
        rc, o, e = outs[i]
        if rc != 0:
            raise Infra("driver exited %d: %s" % (rc, e[-500:]))
        ol = o.split("\n")
        if ol and ol[-1] == "":
            ol.pop()
        if len(ol) != len(parts[i]):
            raise Infra("driver returned %d lines for %d ops" % (len(ol), len(parts[i])))
        for j, l in enumerate(ol):
            res[i + j * k] = l
    return res


# ----------------------------------------------------------------------------------------------
# comparing a real (tagged python) value with a driver line
# ----------------------------------------------------------------------------------------------
def parse_rat(tok):
    n, d = tok.split("/")
    return Fraction(int(n), int(d))


def close(x, q, tol=TOL):
    try:
        x = float(x)
    except (TypeError, ValueError):
        return False
    if x != x:
        return False
    qf = float(q)
    return abs(x - qf) <= tol * max(1.0, abs(qf))


def match(real, line, tol=TOL):
    """real: tagged tuple from vf.real ; line: driver output.  returns (ok: bool, note: str)"""
    toks = line.split(" ")
    tag = toks[0]
    rtag = real[0]
    if tag == "exc":
        return (rtag == "exc"), ""
    if rtag == "exc":
        return False, ""
    if tag == "rat":
        if rtag not in ("num",):
            return False, "tag"
        return close(real[1], parse_rat(toks[1]), tol), ""
    if tag == "int":
        if rtag not in ("num", "int"):
            return False, "tag"
        v = real[1]
        try:
            return (float(v) == float(int(toks[1]))), ""
        except (TypeError, ValueError):
            return False, ""
    if tag == "str":
        if rtag != "str":
            return False, "tag"
        return (real[1] == (line[4:] if len(line) > 4 else "")), ""
    if tag == "vec":
        if rtag != "vec":
            return False, "tag"
        qs = [parse_rat(t) for t in toks[1:]]
        if len(qs) != len(real[1]):
            return False, "len"
        return all(close(x, q, tol) for x, q in zip(real[1], qs)), ""
    if tag == "ints":
        if rtag not in ("ints", "vec"):
            return False, "tag"
        qs = [int(t) for t in toks[1:]]
        if len(qs) != len(real[1]):
            return False, "len"
        return all(float(x) == float(q) for x, q in zip(real[1], qs)), ""
    if tag == "mat":
        # mat r c v...  (row-major rationals)
        if rtag != "mat":
            return False, "tag"
        r, c = int(toks[1]), int(toks[2])
        rows = real[1]
        if len(rows) != r or any(len(row) != c for row in rows):
            return False, "shape"
        qs = [parse_rat(t) for t in toks[3:]]
        flat = [x for row in rows for x in row]
        return all(close(x, q, tol) for x, q in zip(flat, qs)), ""
    if tag == "flt":
        if rtag != "num":
            return False, "tag"
        import struct
        if toks[1] in ("nan", "inf", "-inf"):
            return False, "nonfinite"
        v = struct.unpack("<d", struct.pack("<Q", int(toks[1])))[0]
        return close(real[1], v, tol), ""
    if tag == "red":
        return (rtag == "red" and real[1] == toks[1] and real[2] == (toks[2] if len(toks) > 2 else "")), ""
    if tag == "self":
        return (rtag == "self"), ""
    if tag == "perm":
        if rtag != "perm":
            return False, "tag"
        return (close(real[1], parse_rat(toks[1]), tol) and real[2] == (toks[3] if len(toks) > 3 else "")), ""
    if tag == "dist":
        if rtag != "dist":
            return False, "tag"
        ents = toks[2:]
        if len(ents) != len(real[1]) or int(toks[1]) != len(real[1]):
            return False, "len"
        for (vals, bits), e in zip(real[1], ents):
            q, b = e.split(":")
            qs = [parse_rat(x) for x in q.split(",")]
            if b != bits or len(qs) != len(vals) or not all(close(x, y, tol) for x, y in zip(vals, qs)):
                return False, "entry"
        return True, ""
    if tag in ("wf", "cx"):
        # complexity: positions exact, values exact rationals (cx) or entropy of the counts (wf)
        if rtag != "mat" or len(real[1]) != 2:
            return False, "tag"
        import math
        bar = toks.index("|")
        if tag == "wf":
            A, w, K = int(toks[1]), int(toks[2]), int(toks[3])
            pos = [int(t) for t in toks[4:bar]]
            vals = []
            for t in toks[bar + 1:]:
                cs = [int(x) for x in t.split(",")]
                if A < 2:
                    return False, "base-1"
                vals.append(-math.fsum((c / w) * math.log(c / w, A) for c in cs if c > 0))
        else:
            K = int(toks[1])
            pos = [int(t) for t in toks[2:bar]]
            vals = [float(parse_rat(t)) for t in toks[bar + 1:]]
        rp, rv = real[1]
        if len(rp) != K or len(rv) != K or len(pos) != K or len(vals) != K:
            return False, "len"
        return (all(float(a) == float(b) for a, b in zip(rp, pos)) and all(close(a, b, tol) for a, b in zip(rv, vals))), ""
    if tag == "scdlag":
        # exact integer lag sums from the model; the square roots are taken here
        if rtag != "num":
            return False, "tag"
        import math
        n = int(toks[1])
        lags = [int(t) for t in toks[2:]]
        val = math.fsum(l * math.sqrt(d + 1) for d, l in enumerate(lags)) / n if n else 0.0
        return close(real[1], val, tol), ""
    if tag == "none":
        return (rtag == "none"), ""
    if tag == "bool":
        return (rtag == "bool" and str(real[1]).lower() == toks[1]), ""
    if tag == "ok":
        return (rtag != "exc"), ""
    return False, "unknown-tag " + tag


def perm_ok(real, spec_line, seq):
    """get_deltaMax(True): value == delta-max, permutant a rearrangement of `seq` whose EXACT delta equals delta-max
    (float ties between mirror-image candidates may pick another maximiser than the model's first one)"""
    toks = spec_line.split(" ")
    if real[0] != "perm" or toks[0] != "perm":
        return False, "get_deltaMax(True) -> %r" % (real,)
    dm = parse_rat(toks[1])
    if not close(real[1], dm):
        return False, "dmax value %r vs spec %s" % (real[1], toks[1])
    perm = real[2]
    if not isinstance(perm, str) or sorted(perm) != sorted(seq):
        return False, "permutant %r is not a rearrangement of the input %s" % (perm, seq)
    model_perm = toks[3] if len(toks) > 3 else seq
    if perm != model_perm:
        d = run_driver(["q delta " + perm], "spec")[0]
        if parse_rat(d.split(" ")[1]) != dm:
            return False, "permutant %s has delta %s != delta-max %s" % (perm, d, toks[1])
    return True, ""


# ----------------------------------------------------------------------------------------------
# real-code evaluation in worker processes
# ----------------------------------------------------------------------------------------------
def _worker_init():
    os.environ[GUARD] = "1"
    os.environ.setdefault("MPLBACKEND", "Agg")
    if REPO not in sys.path:
        sys.path.insert(0, REPO)
    sys.path.insert(0, os.path.join(VERIF, "tools"))
    import warnings
    warnings.filterwarnings("ignore")


def _worker_eval(block):
    from vf import real
    return real.eval_block(block)


_POOL = None


def pool():
    global _POOL
    if _POOL is None:
        ctx = mp.get_context("fork")
        _POOL = ctx.Pool(NCPU, initializer=_worker_init)
    return _POOL


def eval_real_optimized(blocks, timeout=900):
    """the same blocks evaluated by a child interpreter started with -O (sys.flags.optimize = 1: `assert` statements are compiled away);
    one process, so callers pass a modest sample"""
    import pickle
    # the child also turns RuntimeWarning (NumPy's "divide by zero", "invalid value", ...) into errors: a caller running with -W error
    # must get the same answers
    code = ("import sys, json, pickle, warnings; sys.path.insert(0, %r); from vf import real; real.SP(); warnings.simplefilter('error', RuntimeWarning); "
            "blocks = json.load(sys.stdin); out = [real.eval_block(b) for b in blocks]; sys.stdout.buffer.write(b'\\n@@PICKLE@@' + pickle.dumps(out, 2))" % os.path.join(VERIF, "tools"))
    env = dict(os.environ)
    env.update({GUARD: "1", "MPLBACKEND": "Agg", "PYTHONDONTWRITEBYTECODE": "1"})
    p = subprocess.run(["/venv/bin/python", "-O", "-c", code], input=json.dumps(blocks).encode(), stdout=subprocess.PIPE, stderr=subprocess.DEVNULL,
                       env=env, timeout=timeout, cwd=os.path.join(VERIF, "tools"))
    i = p.stdout.rfind(b"@@PICKLE@@")
    if p.returncode != 0 or i < 0:
        raise RuntimeError("python -O evaluation failed (rc %s)" % p.returncode)
    return pickle.loads(p.stdout[i + 10:])


def eval_real(blocks):
    """blocks: list of list-of-op-lines.  returns list of list-of-tagged-values"""
    if not blocks:
        return []
    cs = max(1, min(64, len(blocks) // (NCPU * 4) or 1))
    return pool().map(_worker_eval, blocks, chunksize=cs)


# ----------------------------------------------------------------------------------------------
# known findings
# ----------------------------------------------------------------------------------------------
_CHILDQ_SPEC = {}


def prefetch_childq(reals_all):
    """one parallel driver call for the model's answers to every childq line of a run (judge_childq then finds them cached)"""
    keys = []
    for reals in reals_all:
        for r in reals:
            if r and r[0] == "childq":
                parts = r[2].split(" ")
                if parts[0] not in ("html", "getphos", "phosseq", "kappaphos"):
                    keys.append("q %s %s%s" % (parts[0], r[1], "".join(" " + a for a in parts[1:])))
    keys = [k for k in dict.fromkeys(keys) if k not in _CHILDQ_SPEC]
    if keys:
        for k, v in zip(keys, run_driver_parallel(keys, "spec")):
            _CHILDQ_SPEC[k] = v


def _spec1(line):
    if line not in _CHILDQ_SPEC:
        _CHILDQ_SPEC[line] = run_driver([line], "spec")[0]
    return _CHILDQ_SPEC[line]


def judge_childq(r):
    """a `childq` answer: (tag, sequence the object holds, query, answer) - compared with the model's answer for that sequence"""
    _, childseq, q, ans = r
    parts = q.split(" ")
    if parts[0] == "dmaxperm":
        spec = _spec1("q dmaxperm " + childseq)
        return perm_ok(ans, spec, childseq)
    if parts[0] in ("getphos", "phosseq", "kappaphos"):
        return True, ""      # (consistency of the duplicate's sites with the original is checked where the duplicate is made)
    if parts[0] == "html":
        spec = run_driver(["new 0 " + childseq, "o 0 html"], "spec")[1]
    else:
        line = "q %s %s%s" % (parts[0], childseq, "".join(" " + a for a in parts[1:]))
        spec = _spec1(line)
    ok, why = match(ans, spec)
    return ok, "object handed back by the library holds %s; %s on it -> %s but that sequence's value is %s" % (childseq, q, str(ans)[:100], spec[:100])


def copy_cases(rng, nseq, queries, pres=("kappa", "dmaxperm", "setphos", "linFCR", "kappa,setphos", "-")):
    """duplicates (copy / deepcopy / pickle / copy of the backend object) of objects with built-up state: every way x every pre-call"""
    from . import gen
    out = []
    for _ in range(nseq):
        s = gen.rand_seq(rng, rng.choice(["polyampholyte", "idp", "blocky"]), rng.randint(8, 30))
        if not any(c in "STY" for c in s):
            s = s[:-3] + "STY"
        for how in ("deepcopy", "pickle", "copybackend", "copy"):
            for pre in pres:
                out.append("childq %s %s %s %s" % (how, s, pre, rng.choice(queries)))
    return out


def childq_cases(rng, n, queries, maxlen=40):
    """lines putting `queries` to objects returned by swapRes (both index orders), swapRandChargeRes, shuffles and get_permutant"""
    from . import gen
    out = []
    for _ in range(n):
        s = gen.rand_seq(rng, rng.choice(["polyampholyte", "idp", "blocky"]), rng.randint(6, maxlen))
        how = rng.choice(["swap", "swap", "swapcharge", "shuffle", "backendshuffle", "permutant", "frozenshuffle", "frozenshuffle", "frozenshuffle",
                          "kappashuffle", "deepcopy", "pickle", "copybackend", "copy", "blockswap", "cluster", "swapdesc", "permshuffle"])
        q = rng.choice(queries)
        if how == "swap":
            i, j = rng.randrange(len(s)), rng.randrange(len(s))
            out.append("childq swap %s %d %d %s" % (s, i, j, q))
        elif how == "swapdesc":
            # the higher index first, two positions of DIFFERENT charge classes where the sequence has them
            cls = lambda c: 1 if c in "KR" else -1 if c in "DE" else 0
            pairs = [(i, j) for i in range(len(s)) for j in range(i) if cls(s[i]) != cls(s[j])]
            i, j = rng.choice(pairs) if pairs else (len(s) - 1, 0)
            out.append("childq swap %s %d %d %s" % (s, i, j, q))
        elif how in ("blockswap", "cluster"):
            how = "blockswap"       # (charge clustering has no iteration cap; it is exercised with a scripted generator in C17)
            if len(s) < 8:
                s = s + gen.rand_seq(rng, "polyampholyte", 8)
            out.append("childq %s %s %s %s" % (how, s, rng.choice(["warm", "cold"]), q))
        elif how in ("deepcopy", "pickle", "copybackend", "copy"):
            pre = rng.sample(["kappa", "dmaxperm", "setphos", "linFCR"], rng.randint(0, 2))
            out.append("childq %s %s %s %s" % (how, s, ",".join(pre) or "-", q))
        elif how in ("frozenshuffle", "kappashuffle"):
            # frozen: charged positions / their right neighbours / a window / everything but one / nothing
            ch = [i for i, c in enumerate(s) if c in "KRDE"]
            nb = [i + 1 for i in ch if i + 1 < len(s)]
            fr = rng.choice([ch, nb, nb, [i for i in nb if i not in ch], list(range(2, min(len(s), 6))), list(range(1, len(s))), ch[:1], []])
            out.append("childq %s %s %s %s" % (how, s, ",".join(map(str, fr)) or "-", q))
        else:
            out.append("childq %s %s %s" % (how, s, q))
    return out


def load_known():
    p = os.path.join(VERIF, "known_findings.json")
    try:
        return json.load(open(p))
    except FileNotFoundError:
        return {"findings": []}


# ----------------------------------------------------------------------------------------------
# evidence / replay
# ----------------------------------------------------------------------------------------------
def write_json(path, obj):
    os.makedirs(os.path.dirname(path), exist_ok=True)
    tmp = path + ".tmp%d" % os.getpid()
    with open(tmp, "w") as fh:
        json.dump(obj, fh, indent=1, sort_keys=False, default=str)
    os.replace(tmp, path)


def replay_path(pid, tag):
    d = os.path.join(VERIF, "replays")
    os.makedirs(d, exist_ok=True)
    return os.path.join(d, "%s_%s.json" % (pid, tag))
