"""
vf.real — evaluates op lines on the REAL localcider code (public API named in the
properties' observe_at), in-process.  Every result is a small tagged tuple:
  ('num', float) ('int', int) ('str', s) ('vec', [float]) ('mat', [[float]]) ('ints', [int])
  ('perm', float, str|None) ('none',) ('bool', b) ('exc', ExceptionClassName, message)
Exceptions are outcomes, never skipped.
"""
import os, sys, io, contextlib

_SP = None


def SP():
    global _SP
    if _SP is None:
        from localcider.sequenceParameters import SequenceParameters
        _SP = SequenceParameters
    return _SP


def unhex6(s):
    return "".join(chr(int(s[i:i + 6], 16)) for i in range(0, len(s), 6))


def hex6(s):
    return "".join("%06x" % ord(c) for c in s)


class NonStr:
    """a group member without .upper()"""
    pass


def parse_group_tok(t):
    if t.startswith("S:"):
        l = parse_group_tok(t[2:])
        return "".join(l)
    if t == "-":
        return None
    if t == "[]":
        return []
    out = []
    for m in t.split(","):
        if m.startswith("s"):
            out.append(unhex6(m[1:]))
        else:
            out.append(7)  # an int: no .upper()
    return out


def num(x):
    return ("num", float(x))


ALIAS = {"specdelta": "delta", "specsigma": "sigma", "specdmax": "dmax", "specregion": "region"}


def _q(name, seq, args):
    return query(SP()(seq), name, args)


def mat(a):
    import numpy as np
    a = np.atleast_2d(np.asarray(a, dtype=float))
    return ("mat", [[float(x) for x in row] for row in a])


def groups_tok(t):
    if t == "-":
        return None
    return [parse_group_tok(g) for g in t.split(";")]


def dict_tok(t):
    if t == "-":
        return {}
    d = {}
    for kv in t.split(","):
        k, v = kv.split("=")
        d[unhex6(k)] = 5 if v == "n" else unhex6(v)
    return d


def container(lst, salt):
    """a group / list argument in one of the container types the API accepts (list, tuple, set, frozenset); chosen by the content so
    that a run is reproducible; anything unhashable stays a list"""
    if not isinstance(lst, list):
        return lst
    k = (len(lst) + salt) % 6
    if k == 4:
        return iter(list(lst))                      # a one-shot iterator
    if k == 5:
        return (x for x in list(lst))               # a generator
    try:
        return [lst, tuple(lst), set(lst), frozenset(lst)][k] if len(set(lst)) == len(lst) or k < 2 else tuple(lst)
    except TypeError:
        return tuple(lst) if k % 2 else lst


def truthy(salt):
    """the flag `True` as the caller may pass it: True, 1 or a NumPy bool"""
    import numpy as np
    return [True, 1, np.True_, True][salt % 4]


def ival(tok, salt):
    """an integer argument: a Python int, or (for a third of the calls, chosen by the arguments themselves so that a run is
    reproducible) a NumPy integer - the API accepts both"""
    v = int(tok)
    if (v + salt) % 3 == 0:
        import numpy as np
        return np.int64(v) if (v + salt) % 2 else np.int32(v)
    return v


def query(sp, name, args):
    name = ALIAS.get(name, name)
    if name == "kappa":
        return num(sp.get_kappa())
    if name == "delta":
        return num(sp.get_delta())
    if name == "dform":
        return num(sp.SeqObj.deltaForm(int(args[0])))
    if name == "dmax":
        return num(sp.get_deltaMax())
    if name == "dmaxperm":
        r = sp.get_deltaMax(truthy(len(sp))) if len(sp) % 2 else sp.get_deltaMax(returnSeqDeltaMax=truthy(len(sp) // 2))
        return ("perm", float(r[0]), r[1])
    if name == "sigma":
        return num(sp.SeqObj.sigma())
    if name == "pattern":
        cp = sp.SeqObj.chargePattern
        return ("str", "".join('+' if x > 0 else '-' if x < 0 else '0' for x in cp))
    if name == "omega":
        return num(sp.get_Omega())
    if name == "omegaseq":
        return ("str", sp.get_Omega_sequence())
    if name == "kappaX":
        g1 = container(parse_group_tok(args[0]), len(sp))
        g2 = container(parse_group_tok(args[1]), len(sp) + 1)
        if "@backend" in FLAGS:
            return num(sp.SeqObj.kappa_X(g1, g2))
        return num(sp.get_kappa_X(g1, g2))
    if name == "region":
        return ("int", int(sp.get_phasePlotRegion()))
    if name == "countPos":
        return ("int", int(sp.get_countPos()))
    if name == "countNeg":
        return ("int", int(sp.get_countNeg()))
    if name == "countNeut":
        return ("int", int(sp.get_countNeut()))
    if name == "fplus":
        return num(sp.get_fraction_positive())
    if name == "fminus":
        return num(sp.get_fraction_negative())
    if name == "fcr":
        return num(sp.get_FCR())
    if name == "ncpr":
        return num(sp.get_NCPR())
    if name == "mnc":
        return num(sp.get_mean_net_charge())
    if name == "fer":
        return num(sp.get_fraction_expanding())
    if name == "disorder":
        return num(sp.get_fraction_disorder_promoting())
    if name == "aafrac":
        d = sp.get_amino_acid_fractions()
        keys = sorted(d.keys())
        if keys != list("ACDEFGHIKLMNPQRSTVWY"):
            return ("exc", "BadKeys", str(keys))
        res = ("vec", [float(d[k]) for k in keys])
        try:
            # the returned dictionary is the caller's own: editing it must not reach the library
            d["A"] = "0.04%"
            del d["C"]
            d["X"] = 1.0
        except Exception:
            pass
        return res
    if name == "kd":
        return num(sp.get_mean_hydropathy())
    if name == "uversky":
        return num(sp.get_uversky_hydropathy())
    if name == "ww":
        return num(sp.get_WW_hydropathy())
    if name == "ppii":
        return num(sp.get_PPII_propensity(args[0]) if args[0] != "default" else sp.get_PPII_propensity())
    if name == "mw":
        return num(sp.get_molecular_weight())
    if name == "scd":
        return num(sp.get_SCD())
    if name == "strof":
        t = str(sp)
        r = repr(sp)
        if not (r.startswith("[0x") and r.endswith("]: " + t)):
            return ("exc", "Inconsistent", "repr() is not '[address]: ' + str()")
        return ("str", t.replace(" ", "_"))
    if name == "seq":
        s_ = sp.get_sequence()
        if not (sp.get_length() == len(sp) == len(s_)):
            return ("exc", "Inconsistent", "get_length/len/get_sequence disagree")
        return ("str", s_)
    if name == "len":
        return ("int", int(sp.get_length()))
    if name == "sty":
        return ("ints", [int(x) for x in sp.get_all_phosphorylatable_sites()])
    if name in ("linNCPR", "linFCR", "linSigma", "linHydro"):
        f = {"linNCPR": sp.get_linear_NCPR, "linFCR": sp.get_linear_FCR, "linSigma": sp.get_linear_sigma, "linHydro": sp.get_linear_hydropathy}[name]
        w = ival(args[0], len(sp))
        # positional and keyword form alternate
        return mat(f(w) if (int(args[0]) + len(sp)) % 2 else f(blobLen=w))
    if name == "linComp":
        import numpy as np
        g = groups_tok(args[1])
        if g is not None:
            g = [container(x, len(sp) + i) if isinstance(x, list) else x for i, x in enumerate(g)]
        w = ival(args[0], len(sp))
        r = sp.get_linear_sequence_composition(w) if g is None else sp.get_linear_sequence_composition(w, g)
        return mat(np.vstack((np.asarray(r[0], dtype=float), np.atleast_2d(np.asarray(r[1], dtype=float)))))
    if name == "reduce":
        ua = dict_tok(args[1])
        size = args[0]
        size = int(size) if size.lstrip("-").isdigit() else size
        if isinstance(size, int) and (size + len(sp)) % 5 == 0:
            size = str(size) if len(sp) % 2 else " %d " % size      # the size as a numeric string (the API applies int() to it)
        r = sp.get_reduced_alphabet_sequence(size, ua) if ua else sp.get_reduced_alphabet_sequence(size)
        res = ("red", r[0], "".join(r[1]))
        # the returned alphabet is the caller's own list: what the caller does to it afterwards must not reach the library
        try:
            if isinstance(r[1], list) and r[1]:
                r[1].pop()
                r[1].append("X")
                r[1].reverse()
        except Exception:
            pass
        return res
    if name == "cplx":
        typ, size, ua, w, st, ws = args
        if typ.startswith("h:"):
            typ = unhex6(typ[2:])       # a type name that is not a plain token ('', ' ', ',', ...)
        ua = dict_tok(ua)
        size = int(size) if size.lstrip("-").isdigit() else size
        r = sp.get_linear_complexity(complexityType=typ, alphabetSize=size, userAlphabet=ua, blobLen=ival(w, len(sp)), stepSize=ival(st, len(sp) + 1),
                                     wordSize=int(ws))
        return mat(r)
    if name == "titr":
        return ("skip",)
    if name == "phq":
        n, d = (args[1].split("/") + ["1"])[:2]
        # a token without "/" is passed as a Python int, "n/1" as a float
        pH = int(n) if "/" not in args[1] else float(int(n)) / float(int(d))
        if "@totnorm" in FLAGS and args[0] == "fcr":
            # FCR(pH) through the backend's other parameter combination: total charge per TITRATABLE residue, rescaled to per residue
            sq = sp.get_sequence()
            ntit = sum(c in "KRHDECY" for c in sq)
            tot = sp.SeqObj.charge_at_pH(pH, mode="TOTAL", normalize=True) if (len(sq) + int(n)) % 2 else sp.SeqObj.charge_at_pH(pH, "TOTAL", True)
            return num(float(tot) * ntit / len(sq))
        f = {"ncpr": sp.get_NCPR, "fcr": sp.get_FCR, "mnc": sp.get_mean_net_charge, "fer": sp.get_fraction_expanding}[args[0]]
        return num(f(pH) if (len(sp) + int(n)) % 2 else f(pH=pH))
    if name == "pisound":
        pi = sp.get_isoelectric_point()
        c = sp.SeqObj.charge_at_pH(pi, normalize=True)
        return ("bool", bool(abs(float(c)) <= 0.02 + 1e-12))
    if name == "pi":
        return num(sp.get_isoelectric_point())
    if name == "kappaphos":
        return num(sp.get_kappa_after_phosphorylation())
    if name == "getphos":
        return ("ints", [int(x) for x in sp.get_phosphosites()])
    if name == "phosseq":
        return ("str", sp.get_phosphosequence())
    if name == "phosdist":
        r = sp.get_full_phosphostatus_kappa_distribution()
        return ("dist", [([float(x) for x in e[:6]], "".join(str(b) for b in e[6])) for e in r])
    if name == "html":
        return ("str", sp.get_HTMLColorString())
    if name == "lag":
        # the real code has no lag API: this op is only meaningful on the driver side
        return ("skip",)
    raise KeyError("unknown q op " + name)


FLAGS = frozenset()      # the '@route' tokens of the line being evaluated


def eval_line(line, state):
    global FLAGS
    toks = [t for t in line.strip().split(" ") if t]
    FLAGS = frozenset(t for t in toks if t.startswith("@"))
    toks = [t for t in toks if not t.startswith("@")]
    if not toks:
        return ("none",)
    try:
        with contextlib.redirect_stdout(io.StringIO()):
            if toks[0] == "q":
                return _q(toks[1], toks[2], toks[3:])
            from vf import real_ext
            return real_ext.eval_ext(toks, state)
    except Exception as e:  # noqa: every exception is an outcome
        return ("exc", e.__class__.__name__, str(e)[:200])


def eval_block(block):
    state = {}
    out = []
    for line in block:
        out.append(eval_line(line, state))
    try:
        from vf import real_ext
        real_ext.cleanup(state)
    except Exception:
        pass
    return out
