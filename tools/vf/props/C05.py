"""C05 — patterning parameters see only charge classes; reversal/inversion invariant"""
from ..runner import Case
from .. import gen, core

ID = "C05"
STATEFUL = True     # some blocks keep a live object across lines
LEAN_TARGETS = ["Cider.Props.C05", "Cider.Props.C02Tie", "Cider.Props.C05Tie"]
P = "Cider.C05."
THEOREMS = ["Cider.C02.gen_charge_eq_published", P + "gen_omegaX_eq_published"] + [P + t for t in (
    "delta_reverse", "delta_negate", "dmax_reverse", "dmax_negate", "kappa_reverse", "kappa_negate", "scd_reverse", "scd_negate",
    "class_substitution", "published_classes", "omega_class_substitution", "published_omega_class", "reversal",
    "inversion", "omega_inversion")]
RULE = ("each case = one sequence s and four transforms of it: same-charge-class respelling, reversal, charge inversion "
        "(K->E, R->D, D->R, E->K), respelling inside {P,E,D,K,R} / inside the other fifteen; kappa, delta, delta-max, SCD (and Omega "
        "where the statement covers it) are evaluated on fresh objects for every variant; oracle 1 (metamorphic, needs no model): the "
        "real values of a variant equal those of s; oracle 2: each real value equals the exact model value; sequences: every charge "
        "pattern of length <= 6 (quick) / 8 (thorough) + random sequences to 200; non-trivial = distinct s with both kappa defined "
        "and at least 2 residue types")
EXHAUSTIVE = {"quick": "all charge patterns of length 1..6 (each with its 4 transforms)", "thorough": "all charge patterns of length 1..8"}
FIVE = ["kappa", "delta", "dmax", "scd", "omega"]
INV = {'K': 'E', 'R': 'D', 'D': 'R', 'E': 'K'}
XCLS = "PEDKR"
OCLS = "ACFGHILMNQSTVWY"


def respell(s, rng):
    return "".join(rng.choice("KR") if c in "KR" else rng.choice("DE") if c in "DE" else rng.choice(gen.NEUT) for c in s)


def omega_respell(s, rng):
    return "".join(rng.choice(XCLS) if c in XCLS else rng.choice(OCLS) for c in s)


def block(s, rng):
    v = [("base", s, FIVE), ("respell", respell(s, rng), FIVE[:4]), ("reverse", s[::-1], FIVE),
         ("invert", "".join(INV.get(c, c) for c in s), FIVE), ("omega-respell", omega_respell(s, rng), ["omega"])]
    lines, idx = [], []
    for name, seq, ops in v:
        for o in ops:
            lines.append("q %s %s" % (o, seq))
            idx.append((name, o))
        if len(ops) >= 4:
            # kappa once more through the two-group route kappa_X(ED, KR): facade method and backend method
            lines.append("q kappaX %s s000045,s000044 s00004b,s000052%s" % (seq, " @backend" if rng.random() < 0.4 else ""))
            idx.append((name, "kappaX"))
    return lines, idx


def cases(rng, tier):
    # the same query several times in a row on one object
    for c in gen.repeated_call_cases(rng, 8 if tier == "quick" else 60, ['kappa', 'omega'], gen.CLAMP_BAND[:8] if True else ()):
        yield c
    # very long chains (> 1000 residues, lengths that are not round numbers): the chain, its reverse and its charge inverse
    for sq in gen.very_long(rng, tier != "quick")[:2 if tier == "quick" else 7]:
        inv = sq.translate(str.maketrans("KRDE", "DEKR"))
        yield Case(["q %s %s" % (q, t) for t in (sq, sq[::-1], inv) for q in ("delta", "scd", "sigma")], {"kind": "very-long"})
    # objects built from sequence files (two per block)
    for c in gen.file_cases(rng, 12 if tier == "quick" else 100, ['kappa', 'omega', 'scd']):
        yield c
    # objects handed back by the library's own moves / shuffles (also with frozen sets, also from a parent whose cache is warm)
    for l in core.childq_cases(rng, 90 if tier == "quick" else 600, ['kappa', 'delta', 'scd', 'omega', 'dmax']):
        yield Case([l], {"kind": "object-from-move"})
    # the property's own queries AFTER other public calls on the same object (same answers as on a fresh one)
    for c in gen.after_calls_cases(rng, 16 if tier == "quick" else 120, ['kappa', 'delta', 'dmax', 'scd', 'omega']):
        yield c
    # the delta-max ARRANGEMENT (returnSeqDeltaMax=True) of one-sign and lopsided chains and of their charge-inverted twins
    for _ in range(30 if tier == "quick" else 300):
        nch, nneu = rng.randint(2, 14), rng.randint(0, 14)
        pat = ["+"] * nch + ["0"] * nneu + (["-"] * rng.randint(1, 2) if rng.random() < 0.3 else [])
        rng.shuffle(pat)
        sq = gen.spell("".join(pat), rng)
        inv = "".join(INV.get(c, c) for c in sq)
        yield Case(["q dmaxperm " + sq, "q dmaxperm " + inv, "q dmax " + sq, "q dmax " + inv], {"kind": "permutant-of-twins", "twins": (sq, inv)})
    n = 6 if tier == "quick" else 8
    for pat in gen.patterns_upto(n):
        s = gen.spell(pat, rng)
        lines, idx = block(s, rng)
        yield Case(lines, {"kind": "exhaustive", "idx": idx}, nontrivial=len(set(s)) >= 2 and len(s) >= 6)
    # lopsided compositions in every regime of the delta-max search (inversion maps them to the mirror composition)
    for k in (5, 6, 8, 11, 12, 14, 19):
        for m in (1, 2):
            for n0 in (0, 5, 7, 9, 12, 15, 17, 18, 19, 25):
                s = gen.spell(gen.arrange((k, m, n0), rng), rng)
                lines, idx = block(s, rng)
                yield Case(lines, {"kind": "lopsided", "idx": idx})
    for kind, s in gen.rand_seqs(rng, 120 if tier == "quick" else 1200, 200):
        lines, idx = block(s, rng)
        yield Case(lines, {"kind": kind, "idx": idx}, nontrivial=len(set(s)) >= 2 and len(s) >= 6)
    # raw constructor arguments with white space (blocks of ten, line breaks, tabs): same answers as the normalised word
    for kind, s in gen.rand_seqs(rng, 30 if tier == "quick" else 300, 60):
        lines, idx = block(s, rng)
        yield Case(gen.ws_lines(lines, rng), {"kind": "whitespace-input", "idx": idx})


def judge(case, reals, gens, specs):
    if case.block and case.block[0].startswith("childq "):
        if reals[0][0] != "childq":
            return [("violation", 0, "%s -> %s" % (case.block[0], str(reals[0])[:300]))]
        ok_c, why = core.judge_childq(reals[0])
        return [] if ok_c else [("violation", 0, why)]
    if case.tags.get("kind") in ("after-other-calls", "after-calls-on-another-object", "object-from-file", "object-from-big-file", "very-long", "repeated-calls"):
        from ..runner import default_judge
        return default_judge(None, case, reals, gens, specs)
    if case.tags.get("kind") == "permutant-of-twins":
        out = []
        for i, sq in enumerate(case.tags["twins"]):
            ok, why = core.perm_ok(reals[i], specs[i], sq)
            if not ok:
                out.append(("violation", i, "%s: %s" % (case.block[i], why)))
            if not core.match(reals[2 + i], specs[2 + i])[0]:
                out.append(("violation", 2 + i, "%s: real=%r spec=%s" % (case.block[2 + i], reals[2 + i], specs[2 + i][:100])))
        a, b = reals[0], reals[1]
        if a[0] == b[0] == "perm" and abs(a[1] - b[1]) > 1e-9 * max(1.0, abs(a[1])):
            out.append(("violation", 1, "METAMORPHIC delta-max (with the arrangement requested) of the charge-inverted twin is %r, of the original %r" % (b[1], a[1])))
        return out
    out = []
    idx = case.tags.get("idx")
    for i, (r, g, s) in enumerate(zip(reals, gens, specs)):
        if not core.match(r, s)[0]:
            # kappa near a clamp threshold: accept (the relation below still applies)
            out.append(("violation", i, "real=%r spec=%s" % (r, s[:200])))
        elif not core.match(r, g)[0]:
            out.append(("tie", i, "real=%r model@gen=%s" % (r, g[:200])))
    if idx:
        base = {o: reals[i] for i, (n, o) in enumerate(idx) if n == "base"}
        for i, (n, o) in enumerate(idx):
            if n == "base":
                continue
            b, r = base[o], reals[i]
            same = (b[0] == r[0] == "exc") or (b[0] == r[0] == "num" and abs(b[1] - r[1]) <= 1e-9 * max(1.0, abs(b[1])))
            if not same:
                out.append(("violation", i, "METAMORPHIC %s(%s)=%r but %s of the original %s is %r" % (
                    o, case.block[i].split(" ")[2], r, o, case.block[0].split(" ")[2], b)))
    return out
