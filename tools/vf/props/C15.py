"""C15 — read-only queries are history-independent and never change the object"""
from ..runner import Case
from .. import gen, core
from ..real import hex6

ID = "C15"
STATEFUL = True
LEAN_TARGETS = ["Cider.Props.C15"]
P = "Cider.C15."
THEOREMS = [P + t for t in (
    "cacheOK_fresh", "deltaMax_spec", "query_preserves", "query_out_eq_fresh", "stepWorld_ok", "history_independent", "readonly_frame",
    "default_groups_unobservable")]
RULE = ("each case = 1..3 live objects and a history of 4..25 read-only calls with arguments (all scalar getters, get_deltaMax with and "
        "without the permutant, kappa_X, linear profiles, composition with default and user groups, reduced alphabets, complexity, SCD, "
        "phosphosequence, HTML string, len/get_sequence), each call paired with the same call on a brand-new object; oracle 1 (no model): "
        "the live object's answer equals the fresh object's answer and get_sequence / get_phosphosites never change; oracle 2: equality "
        "with the model's step function (which carries the delta-max cache and the shared default list); histories on an object whose phosphosites were registered in non-ascending order (each call issued at least twice: same answer); plus every ordered pair of the "
        "query shapes on two fixed sequences (exhaustive); non-trivial = distinct history containing at least one cache-touching query "
        "(kappa, delta-max, Omega-free) before another query")
EXHAUSTIVE = {"quick": "every ordered pair (q1, q2) of the 37 query shapes on 2 fixed sequences, same object",
              "thorough": "every ordered pair of the 37 query shapes on 4 fixed sequences, same object and across two objects"}


def _utok(d):
    return ",".join("%s=%s" % (hex6(k), hex6(v)) for k, v in sorted(d.items()))


UA_HP = _utok({a: ("E" if a in "EDNQKRH" else "L") for a in gen.AAS})
UA_KR = _utok(dict({a: a for a in gen.AAS}, R="K"))
UA_BAD = _utok({a: a for a in "ACDEF"})


def shapes(rng, N):
    w = max(1, min(N, rng.choice([1, 2, 5, 6, N])))
    return ["kappa", "delta", "dmax", "dmaxperm", "sigma", "omega", "omegaseq", "region", "countPos", "countNeg", "countNeut",
            "fplus", "fminus", "fcr", "ncpr", "mnc", "fer", "disorder", "aafrac", "kd", "uversky", "ww", "ppii hilser", "mw", "scd",
            "seq", "len", "sty", "strof", "kappaX s000045,s000044 s00004b,s000052", "kappaX s000050,s000045,s000044,s00004b,s000052 -",
            "kappaX s000045,s000044,s00004b,s000052 -", "kappaX s000041,s000047 s000053,s000054,s000056",
            "kappaX s000041,s000047,s000053 s000054,s000056", "kappaX s00004b,s000052 s000045,s000044",
            "linNCPR %d" % w, "linFCR %d" % w, "linSigma %d" % w, "linHydro %d" % w, "linComp %d -" % w,
            "linComp %d s000041,s000047;s00004b" % w, "reduce 5 -", "reduce 20 -",
            "cplx WF 20 - %d 1 3" % w, "cplx LC 5 - %d 1 2" % w, "cplx LZW 8 - %d 2 3" % w,
            "getphos", "phosseq", "kappaphos", "html",
            # pH-dependent getters at the pH values the pI bisection itself evaluates, and the pI search
            "pi", "phq ncpr 7/1", "phq mnc 21/2", "phq fcr 7/2", "phq fer 7/1",
            # user alphabets (same size argument as a predefined call)
            "reduce 20 " + UA_HP, "reduce 5 " + UA_KR, "reduce 20 " + UA_BAD]


def hist_case(seqs, calls, kind):
    lines = ["new %d %s" % (i + 1, s) for i, s in enumerate(seqs)]
    for oi, q in calls:
        lines.append("o %d %s" % (oi + 1, q))
        parts = q.split(" ")
        lines.append("q %s %s%s" % (parts[0], seqs[oi], "".join(" " + a for a in parts[1:])))
    for i in range(len(seqs)):
        lines.append("o %d seq" % (i + 1))
        lines.append("o %d getphos" % (i + 1))
    return Case(lines, {"kind": kind, "nobj": len(seqs)}, nontrivial=True)


FIXED = ["EEEEEKKKKKGGGG", "KEGSTYPKRDDEAG", "EEEEDDEEDD", "KEKEK", "KGGEEEGGK", "KEEEGGK", "KKEEEEK", "KKEEEEEEEEKK", "GGGGGGG", "MKKKKKKKKKKSTY", "AGSTVKEAGSTVDR"]


def cases(rng, tier):
    # duplicates of objects with built-up state: every way of copying x every kind of state
    for l in core.copy_cases(rng, 2 if tier == "quick" else 12, ['dmaxperm', 'kappa', 'dmax', 'html', 'phosseq']):
        yield Case([l], {"kind": "duplicate-of-object"})
    # objects handed back by moves / shuffles, and copy / deepcopy / pickle duplicates of objects with built-up state
    for l in core.childq_cases(rng, 60 if tier == "quick" else 400, ['dmaxperm', 'kappa', 'dmax', 'html', 'phosseq']):
        yield Case([l], {"kind": "object-from-move-or-copy"})
    # block-ordered chains with >= 18 neutral residues (a lone charge or a pair against a block, neutrals piled up at one end): the
    # parent is asked for kappa / delta-max first, then a shuffled child is queried; and query pairs on the same object
    for sq in gen.block_arrangements(rng, 30 if tier == "quick" else 300):
        yield Case(["childq kappashuffle %s - %s" % (sq, rng.choice(["dmax", "kappa", "dmaxperm"]))], {"kind": "object-from-move-or-copy"})
        q1, q2 = rng.sample(["kappa", "dmax", "dmaxperm", "delta", "omega"], 2)
        yield hist_case([sq], [(0, q1), (0, q2), (0, q1)], "pair-block-ordered")
    nfix = 8 if tier == "quick" else 11
    for s in FIXED[:nfix]:
        sh = [q for q in shapes(rng, len(s)) if not q.startswith(("linComp", "cplx", "reduce", "ppii", "ww", "mw", "aafrac", "disorder", "countN", "fminus", "sty", "len"))][:37]
        for q1 in sh:
            for q2 in sh:
                yield hist_case([s], [(0, q1), (0, q2)], "pair")
        if tier == "thorough":
            for q1 in sh[:12]:
                for q2 in sh[:12]:
                    yield hist_case([s, s], [(0, q1), (1, q2), (0, q2)], "pair-two-objects")
    n = 120 if tier == "quick" else 1200
    for _ in range(n):
        k = rng.randint(1, 3)
        seqs = [gen.rand_seq(rng, rng.choice(gen.KINDS), rng.randint(1, 40)) for _ in range(k)]
        calls = []
        for _ in range(rng.randint(4, 25)):
            oi = rng.randrange(k)
            calls.append((oi, rng.choice(shapes(rng, len(seqs[oi])))))
        yield hist_case(seqs, calls, "history")
    for _ in range(60 if tier == "quick" else 600):
        yield phos_history(rng)
    for _ in range(60 if tier == "quick" else 600):
        yield palette_history(rng)


def phos_history(rng):
    """an object with phosphosites registered in arbitrary (not ascending) order, then read-only calls; every call is issued at
    least twice at different points of the history"""
    while True:
        s = gen.rand_seq(rng, rng.choice(gen.KINDS), rng.randint(8, 30))
        sty = [i + 1 for i, c in enumerate(s) if c in "STY"]
        if len(sty) >= 2:
            break
    sites = rng.sample(sty, min(len(sty), rng.randint(2, 4)))
    if sites == sorted(sites):
        sites.reverse()
    qs = ["getphos", "phosdist", "phosseq", "kappaphos", "kappa", "dmax", "html", "seq", "fcr"]
    calls = [rng.choice(qs) for _ in range(rng.randint(4, 10))]
    calls = ["phosdist"] + calls + ["getphos", "phosdist", "phosseq", "kappaphos"]
    lines = ["new 1 " + s, "setphos 1 " + " ".join(map(str, sites))] + ["o 1 " + q for q in calls]
    return Case(lines, {"kind": "history-with-phosphosites"}, nontrivial=True)


def palette_history(rng):
    """1-2 live objects, a custom palette installed on one of them, then read-only calls on both with renderings in between:
    every rendering is compared with the model (one palette per object) and repeated renderings of one object must agree"""
    from .C20 import rand_update, dtok
    s = gen.rand_seq(rng, rng.choice(gen.KINDS), rng.randint(6, 30))
    t = gen.rand_seq(rng, rng.choice(gen.KINDS), rng.randint(6, 30))
    d, _ = rand_update(rng)
    while not all(a in d and d[a] for a in gen.AAS) or any(v is None for v in d.values()):
        d, _ = rand_update(rng)
    lines = ["new 1 " + s, "new 2 " + t, "setpal 1 " + dtok(d), "o 1 html", "o 2 html"]
    qs = ["kappa", "omega", "dmax", "kappaX s000045,s000044 s00004b,s000052", "delta", "scd", "region", "linNCPR 2", "reduce 5 -", "phosseq", "strof"]
    for _ in range(rng.randint(2, 6)):
        lines.append("o %d %s" % (rng.choice([1, 2]), rng.choice(qs)))
        lines.append("o %d html" % rng.choice([1, 2]))
    lines += ["o 1 html", "o 2 html"]
    return Case(lines, {"kind": "history-with-custom-palette"}, nontrivial=True)


def same(a, b):
    if a[0] != b[0]:
        return False
    if a[0] == "exc":
        return True
    if a[0] == "num":
        return abs(a[1] - b[1]) <= 1e-12 * max(1.0, abs(a[1]))
    if a[0] == "perm":
        return abs(a[1] - b[1]) <= 1e-12 and a[2] == b[2]
    return a == b


def judge(case, reals, gens, specs):
    if case.block and case.block[0].startswith("childq "):
        if reals[0][0] != "childq":
            return [("violation", 0, "%s -> %s" % (case.block[0], str(reals[0])[:300]))]
        ok_c, why = core.judge_childq(reals[0])
        return [] if ok_c else [("violation", 0, why)]
    out = []
    for i, (r, g, s) in enumerate(zip(reals, gens, specs)):
        if r[0] == "skip":
            continue
        if s.startswith("perm "):
            toks = case.block[i].split(" ")
            seq = toks[2] if toks[0] == "q" else case.block[int(toks[1]) - 1].split(" ")[2]
            ok, why = core.perm_ok(r, s, seq)
            if not ok:
                out.append(("violation", i, "%s: %s" % (case.block[i], why)))
            continue
        if not core.match(r, s)[0]:
            out.append(("violation", i, "%s: real=%s spec=%s" % (case.block[i], str(r)[:160], s[:160])))
        elif not core.match(r, g)[0]:
            out.append(("tie", i, "real=%s model@gen=%s" % (str(r)[:160], g[:160])))
    nobj = sum(1 for l in case.block if l.startswith("new "))
    n = len(case.block)
    hist = []
    for i in range(nobj, n - 1):
        a, b = case.block[i].split(" "), case.block[i + 1].split(" ")
        if a[0] == "o":
            hist.append(" ".join(a[1:]))
        if a[0] == "o" and b[0] == "q" and a[2] == b[1] and a[3:] == b[3:]:
            live, fresh = reals[i], reals[i + 1]
            if not same(live, fresh):
                out.append(("violation", i, "HISTORY-DEPENDENT: %s -> %s but a fresh object (%s) -> %s ; history: %s" % (
                    case.block[i], str(live)[:120], case.block[i + 1], str(fresh)[:120], " | ".join(hist)[:300])))
    if case.tags.get("kind") in ("history-with-phosphosites", "history-with-custom-palette"):
        first = {}
        for i, l in enumerate(case.block):
            if l.startswith("o "):
                if l in first and reals[first[l]] != reals[i]:
                    out.append(("violation", i, "HISTORY-DEPENDENT: %s answered %s first and %s after %s" % (
                        l, str(reals[first[l]])[:150], str(reals[i])[:150], " | ".join(case.block[first[l] + 1:i])[:200])))
                first.setdefault(l, i)
    if case.tags.get("nobj"):
        for k in range(nobj):
            seq = case.block[k].split(" ")[2]
            if reals[n - 2 * nobj + 2 * k] != ("str", seq) or reals[n - 2 * nobj + 2 * k + 1] != ("ints", []):
                out.append(("violation", n - 2 * nobj + 2 * k, "a read-only history changed the object: %r %r" % (
                    reals[n - 2 * nobj + 2 * k], reals[n - 2 * nobj + 2 * k + 1])))
    return out
