"""C07 — SCD equals the Sawle-Ghosh sequence charge decoration"""
import os, re
from ..runner import Case
from .. import gen, core

ID = "C07"
STATEFUL = True     # some blocks keep a live object across lines
LEAN_TARGETS = ["Cider.Props.C07", "Cider.Props.C02Tie"]
OPTIONAL_TARGETS = ["Cider.Props.C07Src"]
OPTIONAL_THEOREMS = {"Cider.Props.C07Src": ['Cider.C07Src.triples_eq', 'Cider.C07Src.triples_in_range', 'Cider.C07Src.exp_denom_eq', 'Cider.C07Src.scdLoop_eq_sum_modelTriples', 'Cider.C07Src.scd_of_source_triples']}
P = "Cider.C07."
THEOREMS = ["Cider.C02.gen_charge_eq_published"] + [P + t for t in (
    "scdLoop_eq_spec", "scd_eq_lagform", "scd_zero_of_few_charges", "scd_pattern_only", "scd_reverse", "scd_negate")]
RULE = ("each case = one sequence: get_SCD() of a fresh object vs (1/N) * sum_d lag_d * sqrt(d) where the integer lag sums "
        "lag_d come from the Lean model (theorem scd_eq_lagform ties this form to the code's double loop) and the square roots "
        "are taken in the harness (math.sqrt + fsum); every charge pattern of length <= 7 (quick) / 10 (thorough), random "
        "sequences up to 300, the 30 Das-Pappu 50-mers; non-trivial = distinct "
        "pattern with >= 2 charged residues")
EXHAUSTIVE = {"quick": "all charge patterns of length 1..7", "thorough": "all charge patterns of length 1..10"}
TRUSTED = ["math.sqrt / math.fsum in the harness for sum_d lag_d*sqrt(d)"]


def das():
    try:
        src = open(os.path.join(core.REPO, "misc", "das_Seqs.py")).read()
        seqs = re.findall(r"'([EK]{50})'", src)
        return seqs
    except Exception:
        return []


def cases(rng, tier):
    for sq in gen.sparse_charge_seqs(rng, 20 if tier == "quick" else 200) + gen.AMBIGUOUS_WORDS:
        yield Case(["q scd " + sq.upper() if sq.isupper() else "mkq %s scd" % __import__("vf.real", fromlist=["hex6"]).hex6(sq)], {"kind": "sparse-or-ambiguous"})
    # duplicates of objects with built-up state: every way of copying x every kind of state
    for l in core.copy_cases(rng, 2 if tier == "quick" else 12, ['scd']):
        yield Case([l], {"kind": "duplicate-of-object"})
    # the same query several times in a row on one object
    for c in gen.repeated_call_cases(rng, 8 if tier == "quick" else 60, ['scd'], gen.CLAMP_BAND[:8] if False else ()):
        yield c
    # very long chains (> 1000 residues, lengths that are not round numbers)
    for sq in gen.very_long(rng, tier != "quick"):
        yield Case(["q %s %s%s" % (q.split(" ")[0], sq, "".join(" " + a for a in q.split(" ")[1:])) for q in ['scd']], {"kind": "very-long"})
    # lengths at / next to powers of two and round thousands with charged residues at BOTH termini; chains with 1000 / 1001 / 1025 charged residues
    for sq in gen.boundary_seqs(rng, tier != "quick") + gen.charged_count_seqs(rng, tier != "quick"):
        yield Case(["q scd " + sq], {"kind": "boundary-length-or-charged-count"})
    # backend objects built directly from lower / mixed case text (the backend upper-cases on its own)
    from ..real import hex6 as _hex6b
    for kind_, sq in gen.rand_seqs(rng, 12 if tier == "quick" else 120, 60):
        raw = "".join(c.lower() if rng.random() < 0.6 else c for c in sq)
        yield Case(["backendq %s scd" % _hex6b(raw)], {"kind": "backend-object-from-mixed-case"})
    # objects built from sequence files (two per block)
    for c in gen.file_cases(rng, 12 if tier == "quick" else 100, ['scd']):
        yield c
    n = 7 if tier == "quick" else 10
    for pat in gen.patterns_upto(n):
        nt = (len(pat) - pat.count('0')) >= 2
        yield Case(["q scd " + gen.spell(pat, rng, plain=(rng.random() < 0.5))], {"kind": "exhaustive"}, nontrivial=nt)
    for s in das():
        yield Case(["q scd " + s], {"kind": "das-pappu"})
    for kind, s in gen.rand_seqs(rng, 150 if tier == "quick" else 1500, 300):
        yield Case(["q scd " + s], {"kind": kind}, nontrivial=sum(c in "KRDE" for c in s) >= 2)
    # exactly two charges at EVERY length (a count derived from a float fraction is where a guard can misfire at particular N)
    for s in gen.two_charge_seqs(260 if tier == "quick" else 420):
        if tier != "quick" or s[0] == "K":
            yield Case(["q scd " + s], {"kind": "two-charges-every-length"})
    for n in range(1, 130 if tier == "quick" else 300):
        yield Case(["q scd " + "G" * (n // 2) + "K" + "G" * (n - n // 2)], {"kind": "one-charge-every-length"}, nontrivial=False)
        yield Case(["q scd " + "E" + "G" * (n // 3) + "K" + "G" * (n - n // 3) + "R"], {"kind": "three-charges-every-length"})
    # raw constructor arguments with white space (blocks of ten, line breaks, tabs): same answers as the normalised word
    for kind, s in gen.rand_seqs(rng, 30 if tier == "quick" else 300, 80):
        yield Case(gen.ws_lines(["q scd " + s], rng), {"kind": "whitespace-input"})
    # long sequences with > 127 / > 255 charged or neutral residues, net charge beyond +-127, length > 256
    for s in gen.large_regime():
        yield Case(["q scd " + s], {"kind": "large-regime"})
    # objects that were handed back by the library's own moves / shuffles answer for the sequence they hold
    for l in core.childq_cases(rng, 90 if tier == "quick" else 600, ["scd"]):
        yield Case([l], {"kind": "object-from-move"})
    # SCD asked AFTER other public calls on the same object
    for c in gen.after_calls_cases(rng, 16 if tier == "quick" else 120, ["scd"]):
        yield c


def judge(case, reals, gens, specs):
    out = []
    if reals[0][0] == "childq":
        ok_c, why = core.judge_childq(reals[0])
        return [] if ok_c else [("violation", 0, why)]
    if case.tags.get("kind") in ("after-other-calls", "after-calls-on-another-object", "object-from-file", "object-from-big-file", "very-long", "repeated-calls", "boundary-length-or-charged-count", "backend-object-from-mixed-case"):
        from ..runner import default_judge
        return default_judge(None, case, reals, gens, specs)      # (only the final scd line: judge_from)
    r, g, s = reals[0], gens[0], specs[0]
    if not core.match(r, s)[0]:
        out.append(("violation", 0, "get_SCD=%r but the Sawle-Ghosh value from lag sums is %s" % (r, s[:200])))
    elif not core.match(r, g)[0]:
        out.append(("tie", 0, "real=%r model@gen=%s" % (r, g[:200])))
    return out
