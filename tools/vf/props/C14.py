"""C14 — sequence files parse to exactly their residues"""
from ..runner import Case
from .. import gen, core
from ..real import hex6

ID = "C14"
LEAN_TARGETS = ["Cider.Props.C14", "Cider.Props.C13Tie"]
P = "Cider.C14."
THEOREMS = [P + t for t in (
    "validSeqLine_iff", "parseLines_iff", "finalValidation_iff", "parseFile_ok_iff", "parse_result_letters",
    "rejects_second_header", "rejects_other_character", "rejects_bad_star", "splitLines_join", "parse_layout")]
RULE = ("each case = one text file written to a scratch directory (UTF-8, newlines preserved): SequenceFileParser.parseSeqFile and "
        "SequenceParameters(sequenceFile=...) (+ kappa, FCR, hydropathy of that object) vs the model; files: random layouts of random "
        "sequences (header or not, line lengths 1..80, 10-residue blocks, position numbers, blank lines, leading/trailing white space, "
        "LF / CRLF / CR, trailing newline or not, optional final '*'), all single-character corruptions (every ASCII character + a "
        "sample of every behaviour class of CPython's character predicates among non-ASCII code points, replacing and inserting at every position) of small files, files with a second header, repeated / non-final "
        "'*'; blocks of 2-6 files parsed by ONE reused SequenceFileParser object; non-trivial = distinct file content")
EXHAUSTIVE = {"quick": "every ASCII character substituted and inserted at every position of 2 small files",
              "thorough": "every ASCII character substituted and inserted at every position of 6 small files"}
TRUSTED = ["universal-newline decoding and UTF-8 file encoding are modelled (splitLines), not verified"]
QS = ["kappa", "fcr", "kd"]
# further analyses of an object built from a file (a few per file)
QS_MORE = ["delta", "scd", "region", "dmax", "omega", "linNCPR 3", "linHydro 2", "reduce 5 -", "seq", "len", "mw", "strof", "sty", "sigma", "ww"]


def layout(seq, rng, star=None):
    nl = rng.choice(["\n", "\n", "\r\n", "\r"])
    lines = []
    if rng.random() < 0.5:
        lines.append(">" + rng.choice(["sp|P12345|TEST_HUMAN Test protein", "seq1", "", " x y z", ">double"]))
    if rng.random() < 0.2:
        lines.append("")
    style = rng.choice(["plain", "blocks", "numbered", "ragged"])
    i = 0
    pos = 1
    while i < len(seq):
        if style == "ragged":
            w = rng.randint(1, 80)
        else:
            w = rng.choice([10, 50, 60, 70, 80])
        chunk = seq[i:i + w]
        if style in ("blocks", "numbered"):
            chunk = " ".join(chunk[k:k + 10] for k in range(0, len(chunk), 10))
        if style == "numbered":
            chunk = ("%6d " % pos) + chunk + (" %d" % (pos + w - 1) if rng.random() < 0.5 else "")
        if rng.random() < 0.2:
            chunk = rng.choice([" ", "\t", "  "]) + chunk
        if rng.random() < 0.2:
            chunk = chunk + rng.choice([" ", "\t", " \t "])
        lines.append(chunk)
        if rng.random() < 0.1:
            lines.append(rng.choice(["", "   ", "\t"]))
        i += w
        pos += w
    if star is None:
        star = rng.random() < 0.3
    if star:
        if rng.random() < 0.5 and lines:
            lines[-1] = lines[-1].rstrip() + "*"
        else:
            lines.append("*")
    text = nl.join(lines)
    if rng.random() < 0.7:
        text += nl
    return text


def fcase(text, kind, analyses=False, nontrivial=True):
    h = hex6(text)
    lines = ["parse " + h if text else "parse"]
    if text:
        lines.append("parse " + h + " @silent")       # the same file with the parser's silent=True
    if analyses and text:
        lines += ["parseq %s %s" % (h, q) for q in QS]
        k = sum(map(ord, text)) % len(QS_MORE)
        lines += ["parseq %s %s" % (h, q) for q in (QS_MORE[k], QS_MORE[(k + 5) % len(QS_MORE)])]
    return Case(lines, {"kind": kind}, nontrivial=nontrivial)


def cases(rng, tier):
    yield fcase("", "empty-file")
    small = [">hdr\nACDEF GHIKL\n MNPQR 15\nSTVWY*\n", "KE\r\nGG\r\n", "  10 ACD\n\n>late header\nEK*", "A", ">only header\n", "ACD\rEFG\r"]
    nsmall = 2 if tier == "quick" else 6
    # non-ASCII: one representative of every behaviour class of CPython's str predicates / case maps (digits that are not
    # 0-9, spaces that are not ASCII, letters whose upper() is ASCII, ...) + a few fixed ones
    extra = sorted(set(gen.unicode_signature_sample() + [0x85, 0xa0, 0x2028, 0x3000, 0xdf, 0x131, 0xe9, 0x3a9, 0xff11, 0xff21, 0x2463, 0x1f600]))
    for f in small[:nsmall]:
        # (an object built from a file without residues has an empty sequence: outside the property's quantifier)
        yield fcase(f, "small-file", analyses=any(c.isalpha() for l in f.replace("\r", "\n").split("\n") if not l.strip().startswith(">") for c in l))
        for pos in range(len(f) + 1):
            for cp in list(range(0, 128)) + extra:
                ch = chr(cp)
                yield fcase(f[:pos] + ch + f[pos:], "insert-char")
                if pos < len(f):
                    yield fcase(f[:pos] + ch + f[pos + 1:], "replace-char")
    for h1 in (">", "> ", ">\t", ">  \t "):
        for body in ("MDVFMKGLSK\n>first\nAKEGVVAAAE\n", "MDVFMKGLSK\n>\nAKEGV\n", "\nACD\n\n> x\n", "AC\n>b\n"):
            yield fcase(h1 + "\n" + body, "nameless-first-header")
        yield fcase(h1 + "\nMDVFMKGLSK\nAKEGV\n", "nameless-first-header", analyses=True)
    # ONE parser object reused for several files (valid with header / without, rejected ones in between): the result
    # for a file must not depend on the files parsed before it
    pool = [">h1\nACDEF\nGHIKL\n", "KEKE\n", ">h2 x\nMNPQR*\n", ">a\n>b\nAC\n", "AC1DE\n", "ACxDE\n", ">h3\n 10 STVWY\n", "A*C\n", ""]
    for _ in range(30 if tier == "quick" else 300):
        files = [rng.choice(pool) if rng.random() < 0.6 else layout(gen.rand_seq(rng, rng.choice(gen.KINDS), rng.randint(1, 60)), rng) for _ in range(rng.randint(2, 6))]
        yield Case([("parse2 " + hex6(t)) if t else "parse2" for t in files], {"kind": "parser-reuse"})
    # files beyond 8 KB and beyond 64 KB (read-size limits), with an error only past that point too
    for nres, w in ((9000, 60), (70000, 60)) if tier == "quick" else ((9000, 60), (9500, 10), (70000, 60), (120000, 70)):
        s = "".join(rng.choice("ACDEFGHIKLMNPQRSTVWY") for _ in range(nres))
        body = "\n".join(s[i:i + w] for i in range(0, nres, w))
        yield fcase(">big\n" + body + "\n", "big-file")
        yield fcase(body + "\n>second header\nAC\n", "big-file-late-error")
        yield fcase(body[:-3] + "x" + body[-2:], "big-file-late-error")
    n = 150 if tier == "quick" else 1500
    for kind, s in gen.rand_seqs(rng, n, 300):
        t = layout(s, rng)
        yield fcase(t, "layout-" + kind, analyses=True)
        r = rng.random()
        if r < 0.15:
            # second header
            parts = t.split("\n")
            parts.insert(rng.randint(0, len(parts)), ">second")
            parts.insert(rng.randint(0, len(parts)), ">first")
            yield fcase("\n".join(parts), "second-header")
        elif r < 0.3:
            p = rng.randint(0, len(t))
            yield fcase(t[:p] + "*" + t[p:], "extra-star")
        elif r < 0.45:
            p = rng.randint(0, len(t))
            yield fcase(t[:p] + rng.choice("abcxyzBJOUXZ-_.,;:!?@#$%&()[]{}<>/\\|~^'\"`=+") + t[p:], "bad-char")
