"""C03 — delta-max is attained, composition-only, and matches the documented search"""
from ..runner import Case
from .. import gen, core

ID = "C03"
STATEFUL = True     # some blocks keep a live object across lines
LEAN_TARGETS = ["Cider.Props.C03", "Cider.Props.C02Tie"]
P = "Cider.C03."
THEOREMS = ["Cider.C02.gen_charge_eq_published"] + [P + t for t in (
    "dmax_eq_family_max", "dmax_composition_only", "dmax_respelling", "candidates_composition", "candidates_nonempty",
    "permutant_perm", "permutant_pattern", "dmax_attained", "dmax_nonneg")]
RULE = ("each case = one sequence: get_deltaMax() and get_deltaMax(True) on fresh objects vs the model's family maximum "
        "(exact rational) and vs the declarative max over the documented family; the returned permutant must be a "
        "rearrangement of the input whose exact delta equals delta-max (string equality with the model's first maximiser is "
        "recorded but float ties between mirror-image candidates are accepted); compositions: every (n+,n-,n0) with total <= N "
        "(quick 16 / thorough 40), each as 2 random arrangements with random same-class spellings, boundary n0 in 17..19, "
        "plus random compositions to 300; non-trivial = distinct sequence with >= 1 charged residue and length >= 6")
EXHAUSTIVE = {"quick": "every composition (n+, n-, n0) with 1 <= n+ + n- + n0 <= 16", "thorough": "every composition with total <= 40"}


def block(s):
    return ["q dmax " + s, "q specdmax " + s, "q dmaxperm " + s]


def cases(rng, tier):
    # lopsided compositions with >= 18 neutrals given ALREADY SEGREGATED (neutrals at one end): delta-max is composition-only
    for comp in ((2, 38, 19), (38, 2, 19), (1, 20, 18), (3, 30, 25), (2, 9, 23), (1, 7, 40)) if tier != "quick" else ((2, 38, 19), (1, 20, 18), (2, 9, 23)):
        a, b, n0 = comp
        for pat in ("0" * n0 + "+" * a + "-" * b, "+" * a + "-" * b + "0" * n0, "-" * b + "+" * a + "0" * n0):
            yield Case(block(gen.spell(pat, rng)), {"kind": "segregated-input"})
    # block-ordered chains with >= 18 neutral residues whose own arrangement lies outside (and above) the scanned family
    for sq in gen.block_arrangements(rng, 20 if tier == "quick" else 200):
        yield Case(block(sq), {"kind": "block-ordered-input"})
    # objects handed back by moves / shuffles, and copy / deepcopy / pickle duplicates of objects with built-up state
    for l in core.childq_cases(rng, 60 if tier == "quick" else 400, ['dmax', 'dmaxperm']):
        yield Case([l], {"kind": "object-from-move-or-copy"})
    N = 16 if tier == "quick" else 40
    for comp in gen.compositions(N):
        for rep in range(2):
            s = gen.spell(gen.arrange(comp, rng), rng)
            yield Case(block(s), {"kind": "exhaustive-composition"}, nontrivial=(comp[0] + comp[1] > 0 and sum(comp) >= 6))
    # regime boundaries
    for n0 in (16, 17, 18, 19, 20, 30):
        for a, b in ((1, 1), (2, 1), (1, 3), (3, 3), (5, 2), (0, 3), (4, 0), (n0, 0), (0, n0 + 1), (n0 - 1, 0)):
            s = gen.spell(gen.arrange((a, b, n0), rng), rng)
            yield Case(block(s), {"kind": "boundary"})
    # the 18-neutral regime boundary with every small charge composition, and lopsided compositions in every regime
    for n0 in (17, 18, 19, 24):
        for a in range(1, 9):
            for b in range(1, 9):
                if (a, b) in ((1, 1), (2, 1), (1, 3), (3, 3), (5, 2)) and n0 != 24:
                    continue
                s = gen.spell(gen.arrange((a, b, n0), rng), rng)
                yield Case(block(s), {"kind": "boundary-18"})
    for k in (13, 14, 15, 19, 20, 24, 30):
        for m in (1, 2, 3):
            for comp in ((k, m, 0), (m, k, 0), (k, m, 18), (m, k, 18), (k, m, 20), (m, k, 30)):
                s = gen.spell(gen.arrange(comp, rng), rng)
                yield Case(block(s), {"kind": "lopsided"})
    for a, b in ((3, 3), (4, 3), (3, 4), (10, 10), (11, 10), (1, 12), (12, 1)):
        s = gen.spell(gen.arrange((a, b, 0), rng), rng)
        yield Case(block(s), {"kind": "boundary-noneut"})
    # no neutral residues: every majority size with every small minority, both signs (the sliding-block search of that regime)
    amax, bmax = (60, 8) if tier == "quick" else (120, 12)
    for a in range(1, amax + 1):
        for b in range(1, min(a, bmax) + 1):
            for comp in ((a, b, 0), (b, a, 0)):
                if a + b > N:
                    yield Case(block(gen.spell(gen.arrange(comp, rng), rng)), {"kind": "noneut-lopsided"})
    # the tuple form asked AFTER a scalar query on the same object (the cache is then warm): every composition
    M = 10 if tier == "quick" else 14
    for comp in gen.compositions(M):
        if comp[0] + comp[1] == 0 and sum(comp) > 3:
            continue
        s = gen.spell(gen.arrange(comp, rng), rng)
        first = rng.choice(["dmax", "kappa"])
        yield Case(["new 0 " + s, "o 0 " + first, "o 0 dmaxperm", "o 0 dmax"], {"kind": "warm-cache-then-permutant", "seq": s},
                   nontrivial=(comp[0] + comp[1] > 0 and sum(comp) >= 6))
    # > 1000 residues (cheap regimes of the search: no neutrals / one charge type / >= 18 neutrals)
    for comp in ((40, 25, 990),) if tier == "quick" else ((700, 350, 0), (0, 90, 960), (40, 25, 990), (1100, 3, 0), (5, 5, 1100)):
        yield Case(block(gen.spell(gen.arrange(comp, rng), rng)), {"kind": "very-long"})
    for kind, s in gen.rand_seqs(rng, 60 if tier == "quick" else 600, 300):
        yield Case(block(s), {"kind": kind}, nontrivial=len(s) >= 6 and any(c in "KRDE" for c in s))


def judge(case, reals, gens, specs):
    if case.block and case.block[0].startswith("childq "):
        if reals[0][0] != "childq":
            return [("violation", 0, "%s -> %s" % (case.block[0], str(reals[0])[:300]))]
        ok_c, why = core.judge_childq(reals[0])
        return [] if ok_c else [("violation", 0, why)]
    out = []
    for i, (r, g, s) in enumerate(zip(reals, gens, specs)):
        if case.block[i].startswith("new "):
            continue
        if not case.block[i].startswith(("q dmaxperm", "o 0 dmaxperm")):
            ok_s, _ = core.match(r, s)
            if not ok_s:
                out.append(("violation", i, "real=%r spec=%s" % (r, s)))
            elif not core.match(r, g)[0]:
                out.append(("tie", i, "real=%r model@gen=%s" % (r, g)))
            continue
        seq = case.block[i].split(" ")[2] if case.block[i].startswith("q ") else case.block[0].split(" ")[2]
        if r[0] != "perm":
            out.append(("violation", i, "get_deltaMax(True) -> %r" % (r,)))
            continue
        toks = s.split(" ")
        dm = core.parse_rat(toks[1])
        if not core.close(r[1], dm):
            out.append(("violation", i, "dmax value %r vs spec %s" % (r[1], toks[1])))
            continue
        perm = r[2]
        if not isinstance(perm, str) or sorted(perm) != sorted(seq):
            out.append(("violation", i, "get_deltaMax(True) of %s returned %r: not a rearrangement of the input" % (seq, perm)))
            continue
        model_perm = toks[3] if len(toks) > 3 else seq
        if perm != model_perm:
            # accept any rearrangement whose exact delta equals delta-max
            d = core.run_driver(["q delta " + perm], "spec")[0]
            if core.parse_rat(d.split(" ")[1]) != dm:
                out.append(("violation", i, "permutant %s has delta %s != delta-max %s" % (perm, d, toks[1])))
            else:
                case.tags["alt_maximiser"] = True
        gt = g.split(" ")
        if gt[1] != toks[1]:
            out.append(("tie", i, "model@gen dmax %s vs model@spec %s" % (gt[1], toks[1])))
    return out
