"""C06 — Omega and kappa_X are kappa of the recoded sequence"""
from ..runner import Case
from .. import gen, core
from ..real import hex6

ID = "C06"
STATEFUL = True     # some blocks keep a live object across lines
LEAN_TARGETS = ["Cider.Props.C06", "Cider.Props.C02Tie", "Cider.Props.C05Tie"]
OPTIONAL_TARGETS = ["Cider.Props.C06Src"]
OPTIONAL_THEOREMS = {"Cider.Props.C06Src": ['Cider.C06Src.omegaChar_eq', 'Cider.C06Src.omegaSeqChar_eq', 'Cider.C06Src.omega_strings',
                                           'Cider.C06Src.kappaX2Char_eq', 'Cider.C06Src.kappaX1Char_eq', 'Cider.C06Src.kappaX_patterns',
                                           'Cider.C06Src.frames_eq']}
P = "Cider.C06."
THEOREMS = ["Cider.C02.gen_charge_eq_published", "Cider.C05.gen_omegaX_eq_published"] + [P + t for t in (
    "omega_eq_kappa_recode", "omega_eq_kappaX_PEDKR", "kappa_eq_kappaX_ED_KR", "recode_set_ext", "kappaX_member_order_case",
    "kappaX_swap", "kappaX_complement", "kappaX_rejects", "omegaSeq_spec")]
RULE = ("each case = one sequence with 14 calls on fresh objects: get_Omega, kappa_X(PEDKR), get_kappa, kappa_X(ED,KR), kappa_X(g1,g2) "
        "for random DISJOINT groups, the swapped call, the same groups with shuffled member order / mixed case / repeats (sometimes "
        "passed as a str), a one-group call, its complement, the one-group call with an empty second group, two malformed calls "
        "('B', 'AB', '', '1', a non-string member), get_Omega_sequence, and an OVERLAPPING pair (model correspondence only: outside the "
        "property's quantifier). oracle 1: the relations between the real values; oracle 2: real value == exact model value; "
        "non-trivial = distinct (sequence, groups) with both recoded classes present")
BAD = [["B"], ["AB"], [""], ["1"], [None], ["A", "Z"], ["a", "e", "x"], ["*"], ["E", None],
       # members that are not single residues although every character of them is a residue letter
       ["ED"], ["E", "D", ""], ["GLY"], ["k", "r", "his"], ["KR"], ["P", "E", "D", "K", "R", "pSer"], ["AA"]]


def tok(group, as_str=False):
    if group is None:
        return "-"
    if len(group) == 0:
        return "[]"
    t = ",".join("n" if m is None else "s" + hex6(m) for m in group)
    if as_str and all(m is not None and len(m) == 1 for m in group):
        return "S:" + t
    return t


def variant(g, rng):
    g2 = list(g) + [rng.choice(g) for _ in range(rng.randint(0, 2))] if g else []
    rng.shuffle(g2)
    return [m.lower() if rng.random() < 0.5 else m for m in g2]


def block(s, rng):
    letters = list(gen.AAS)
    rng.shuffle(letters)
    k1 = rng.randint(1, 8)
    k2 = rng.randint(1, 8)
    g1, g2 = letters[:k1], letters[k1:k1 + k2]
    g = letters[:rng.randint(1, 19)]
    comp = [a for a in gen.AAS if a not in g]
    bad = rng.choice(BAD)
    o1 = rng.sample(gen.AAS, rng.randint(2, 8))
    o2 = rng.sample(gen.AAS, rng.randint(2, 8)) + [o1[0]]
    q = "q kappaX %s " % s
    lines = ["q omega " + s, q + tok(list("PEDKR")) + " -", "q kappa " + s, q + tok(list("ED")) + " " + tok(list("KR")),
             q + tok(g1) + " " + tok(g2), q + tok(g2) + " " + tok(g1),
             q + tok(variant(g1, rng), rng.random() < 0.3) + " " + tok(variant(g2, rng), rng.random() < 0.3),
             q + tok(g) + " -", q + tok(comp) + " -", q + tok(g) + " []",
             q + tok(bad) + " -", q + tok(g1) + " " + tok(bad), "q omegaseq " + s, q + tok(o1) + " " + tok(o2)]
    return lines


RELS = [(0, 1, "Omega == kappa_X(PEDKR)"), (2, 3, "kappa == kappa_X(ED,KR)"), (4, 5, "kappa_X(g1,g2) == kappa_X(g2,g1) for disjoint groups"),
        (4, 6, "member order / case / repeats"), (7, 8, "one group == complementary group"), (7, 9, "empty second group == one-group call")]


def cases(rng, tier):
    for sq in gen.CLAMP_BAND + ["PEAGSTQNLVDK", "KEWSTQQYWD", "DRGMGCYFPP", "PPVYFMWQR", "SAKRKKRG", "KSCAVCK", "GKRKKRQ"]:
        yield Case(block(sq, rng), {"kind": "reporting-band"})
    # residues of only ONE of the two groups, at least 18 residues of neither, and more group residues than others (both orientations)
    for _ in range(10 if tier == "quick" else 80):
        nother = rng.randint(18, 30)
        ngrp = rng.randint(int(nother * 1.5) + 1, nother * 3)
        for grp in ("KR", "DE"):
            l = [rng.choice(grp) for _ in range(ngrp)] + [rng.choice("GSQNTAYHCMLIVFW") for _ in range(nother)]
            rng.shuffle(l)
            yield Case(block("".join(l), rng), {"kind": "one-group-many-others"})
    # several kappa_X calls on ONE object with related groups: the same letters split differently, a one-group call after a two-group call
    for kind_, sq in gen.rand_seqs(rng, 20 if tier == "quick" else 200, 60):
        calls = [(list("ED"), list("KRP")), (list("PEDKR"), None), (list("ED"), list("KR")), (list("DEKR"), None), (list("E"), list("DKR")), (list("EDK"), list("R")),
                 (list("AG"), list("STV")), (list("AGS"), list("TV")), (list("KR"), list("ED"))]
        rng.shuffle(calls)
        lines = ["new 0 " + sq] + ["o 0 kappaX %s %s" % (tok(a), tok(b)) for a, b in calls[:rng.randint(3, 9)]] + ["o 0 omega", "o 0 kappa"]
        yield Case(lines, {"kind": "repeated-calls", "judge_from": 1})
    # the same query several times in a row on one object
    for c in gen.repeated_call_cases(rng, 8 if tier == "quick" else 60, ['omega', 'kappaX s000045,s000044 s00004b,s000052'], gen.CLAMP_BAND[:8] if True else ()):
        yield c
    # objects handed back by moves / shuffles, and copy / deepcopy / pickle duplicates of objects with built-up state
    for l in core.childq_cases(rng, 60 if tier == "quick" else 400, ['omega', 'kappaX s000045,s000044 s00004b,s000052']):
        yield Case([l], {"kind": "object-from-move-or-copy"})
    # the property's own queries AFTER other public calls on the same object (same answers as on a fresh one)
    for c in gen.after_calls_cases(rng, 16 if tier == "quick" else 120, ['omega', 'kappaX s000050,s000045,s000044,s00004b,s000052 -', 'kappaX s000045,s000044 s00004b,s000052', 'kappa', 'omegaseq']):
        yield c
    n = 5 if tier == "quick" else 7
    for pat in gen.patterns_upto(n, lo=4):
        s = gen.spell(pat, rng)
        yield Case(block(s, rng), {"kind": "exhaustive"}, nontrivial=len(set(s)) >= 2)
    for kind, s in gen.rand_seqs(rng, 150 if tier == "quick" else 1500, 150):
        yield Case(block(s, rng), {"kind": kind}, nontrivial=len(set(s)) >= 2)
    # one recoded class rare (1-3 residues of 15-45), in both orientations: the lopsided no-neutral regime of the delta-max search
    for _ in range(40 if tier == "quick" else 300):
        L = rng.randint(15, 45)
        k = rng.randint(1, 3)
        major, minor = ("GSQNTAYHCMLIVFW", "PEDKR") if rng.random() < 0.5 else ("PEDKR", "GSQNTAYHCMLIVFW")
        s = [rng.choice(major) for _ in range(L)]
        for i in rng.sample(range(L), k):
            s[i] = rng.choice(minor)
        yield Case(block("".join(s), rng), {"kind": "rare-class"})


def judge(case, reals, gens, specs):
    if case.block and case.block[0].startswith("childq "):
        if reals[0][0] != "childq":
            return [("violation", 0, "%s -> %s" % (case.block[0], str(reals[0])[:300]))]
        ok_c, why = core.judge_childq(reals[0])
        return [] if ok_c else [("violation", 0, why)]
    if case.tags.get("kind") in ("after-other-calls", "after-calls-on-another-object", "repeated-calls"):
        from ..runner import default_judge
        return default_judge(None, case, reals, gens, specs)
    out = []
    for i, (r, g, s) in enumerate(zip(reals, gens, specs)):
        if not core.match(r, s)[0]:
            out.append(("violation", i, "real=%r spec=%s" % (r, s[:200])))
        elif not core.match(r, g)[0]:
            out.append(("tie", i, "real=%r model@gen=%s" % (r, g[:200])))
    for a, b, what in RELS:
        ra, rb = reals[a], reals[b]
        same = (ra[0] == rb[0] == "num" and abs(ra[1] - rb[1]) <= 1e-9 * max(1.0, abs(ra[1])))
        if not same:
            out.append(("violation", b, "RELATION %s: %s -> %r but %s -> %r" % (what, case.block[a], ra, case.block[b], rb)))
    for i in (10, 11):
        if reals[i][0] != "exc":
            out.append(("violation", i, "a group containing a non-amino-acid was accepted: %s -> %r" % (case.block[i], reals[i])))
    return out
