"""C09 — pH-dependent charge follows Henderson-Hasselbalch; pI neutralises the chain"""
import itertools
from fractions import Fraction
from ..runner import Case
from .. import gen, core

ID = "C09"
STATEFUL = True     # some blocks keep a live object across lines
LEAN_TARGETS = ["Cider.Props.C09Pi", "Cider.Props.C09", "Cider.Props.C09Tie"]
# source-text tie (translated on every run by tools/pyexpr2lean.py); skipped when the function no longer fits the translator
OPTIONAL_TARGETS = ["Cider.Props.C09Src"]
OPTIONAL_THEOREMS = {"Cider.Props.C09Src": ['Cider.C09Src.verifyPH_eq']}
P = "Cider.C09."
THEOREMS = [P + t for t in (
    "charge_loop_eq_counts", "ncprPH_antitone", "abs_ncprPH_le_fcrPH", "fcrPH_le_titratable_fraction", "fcrPH_nonneg",
    "ferPH_eq", "pH_rejected_iff", "piStep_progress", "pi_fuel_suffices", "pi_result_sound", "pi_no_titratable",
    "gen_pKa_eq_emboss", "gen_titration_classes",
    # get_isoelectric_point() never raises (Props/C09Pi.lean)
    "piEscape_inv", "piBisect_inv", "piLoop_no_error", "pi_returns_of", "sigma_mod", "chargeNormalized_antitone", "chargeNormalized_mod",
    "chargeNormalized_at_zero", "chargeNormalized_at_24", "exists_near_neutral", "pi_never_raises", "spec_table_ok", "gen_table_ok",
    "pi_never_raises_spec", "pi_never_raises_gen")]
RULE = ("each case = one sequence: get_NCPR / get_FCR / get_mean_net_charge / get_fraction_expanding at a grid of pH values (0, 14, every "
        "pKa, random interior points, ints and floats, and values just outside [0,14] that must raise) and get_isoelectric_point(), vs "
        "the generic Lean model run on Float (same formula, same bisection; tol 1e-9); oracle 1 (no model): NCPR(pH) is non-increasing "
        "along the sorted grid, |NCPR| <= FCR <= titratable/N, FER = FCR + fP, and at the returned pI the mean charge per titratable "
        "residue is within 0.02 of 0; sequences: all count vectors over the 7 titratable classes + neutral with total <= 3 (quick) / 5 "
        "(thorough), extreme compositions (only-R, only-K, only-acidic, only-C/Y, R^50 D, no titratable), random sequences to 300; "
        "non-trivial = distinct sequence with at least one titratable residue")
EXHAUSTIVE = {"quick": "every multiset of {K,R,H,D,E,C,Y,G} of size 1..3", "thorough": "every multiset of {K,R,H,D,E,C,Y,G} of size 1..5"}
TRUSTED = ["Float (IEEE double, libm pow) approximates the real-valued model: the same generic Lean definitions are instantiated with R in the proofs and with Float in the driver"]
PKAS = [Fraction(85, 10), Fraction(101, 10), Fraction(65, 10), Fraction(41, 10), Fraction(39, 10), Fraction(10), Fraction(125, 10)]


# (nR, nK, nH, nD) whose mean charge per titratable residue at pH 14 lies within 1e-7 of the 0.02 tolerance of the pI search, on either
# side (enumerated once from the published pKa values): the in-tolerance part of the 0-14 window is narrower than one bisection step
NEAR_R_DOMINATED = [(131, 44, 26, 0), (189, 65, 36, 0), (73, 23, 16, 0), (146, 46, 32, 0), (234, 71, 3, 1), (174, 63, 30, 0), (58, 21, 10, 0),
                    (161, 48, 38, 0), (88, 25, 22, 0), (159, 61, 24, 0), (101, 40, 14, 0), (206, 54, 5, 1), (103, 27, 28, 0), (221, 56, 11, 1),
                    (144, 59, 18, 0), (118, 29, 34, 0), (43, 19, 4, 0), (86, 38, 8, 0), (163, 35, 1, 1), (178, 37, 7, 1), (114, 55, 6, 0),
                    (71, 36, 2, 0), (142, 72, 4, 0), (170, 89, 2, 0)]


def grid(rng):
    g = [Fraction(0), Fraction(14), Fraction(7), Fraction(37, 5)] + PKAS
    g += [Fraction(rng.randint(0, 1400), 100) for _ in range(4)]
    return sorted(set(g))


def block(s, rng):
    lines, meta = [], []
    for pH in grid(rng):
        t = "%d/%d" % (pH.numerator, pH.denominator)
        for gname in ("ncpr", "fcr", "fer", "mnc"):
            lines.append("q phq %s %s %s%s" % (s, gname, t, " @totnorm" if gname == "fcr" and rng.random() < 0.25 else ""))
            meta.append((gname, pH))
    # integer pH values passed as Python ints (not floats)
    for k in rng.sample(range(0, 15), 5):
        for gname in ("ncpr", "fcr", "fer", "mnc"):
            lines.append("q phq %s %s %d" % (s, gname, k))
            meta.append((gname, Fraction(k)))
    for bad in ("-1/100", "-1/1", "1401/100", "15/1", "141/10", "-1", "15"):
        lines.append("q phq %s %s %s" % (s, rng.choice(["ncpr", "fcr", "fer", "mnc"]), bad))
        meta.append(("bad", None))
    lines.append("q pi " + s)
    meta.append(("pi", None))
    lines.append("q pisound " + s)
    meta.append(("pi", None))
    return lines, meta


def cases(rng, tier):
    # objects handed back by moves / shuffles, and copy / deepcopy / pickle duplicates of objects with built-up state
    for l in core.childq_cases(rng, 60 if tier == "quick" else 400, ['pi', 'phq ncpr 7/1']):
        yield Case([l], {"kind": "object-from-move-or-copy"})
    n = 3 if tier == "quick" else 5
    for L in range(1, n + 1):
        for t in itertools.combinations_with_replacement("KRHDECYG", L):
            s = "".join(t)
            if rng.random() < 0.5:
                s = gen.permute(s, rng)
            lines, meta = block(s, rng)
            yield Case(lines, {"kind": "exhaustive-multiset", "meta": meta, "seq": s}, nontrivial=any(c in "KRHDECY" for c in s))
    ext = ["R", "RR", "R" * 30, "K" * 30, "H" * 10, "D" * 30, "E" * 30, "C" * 12, "Y" * 12, "CY" * 8, "R" * 50 + "D", "K" * 50 + "E", "D" * 50 + "R",
           "GGGG", "G", "RG" * 20, "R" * 5 + "G" * 200, "HHHHHHC", "RRRRRRRRRRY", "KY" * 15, "RC" * 15]
    for s in ext:
        lines, meta = block(s, rng)
        yield Case(lines, {"kind": "extreme", "meta": meta, "seq": s})
    # arginine-dominated chains WITH acidic residues (more / fewer than ~96 R per acid), and compositions a hair's breadth from dominated
    rdom = []
    for acid in ("D", "E", "DE", "Y", "C", "DC", "EEY"):
        for per in (60, 90, 95, 96, 97, 100, 120, 200):
            rdom.append("R" * (per * len(acid)) + acid)
    for (r_, k_, h_, d_) in NEAR_R_DOMINATED[:(10 if tier == "quick" else 24)]:
        l = list("R" * r_ + "K" * k_ + "H" * h_ + "D" * d_ + "G" * rng.randint(0, 5))
        rng.shuffle(l)
        rdom.append("".join(l))
    for s in rdom:
        if tier == "quick" and len(s) > 330:
            continue
        yield Case(["q pi " + s, "q pisound " + s, "q phq %s ncpr 14/1" % s], {"kind": "arginine-dominated-or-nearly"})
    # ONE object, pI asked before / between the pH queries, at the pH values the bisection itself visits (7, 3.5, 10.5, ...):
    # every answer must be the one a fresh object gives (the model is a pure function of the sequence)
    path = ["7/1", "7/2", "21/2", "7/4", "21/4", "35/4", "49/4", "0/1", "14/1"]
    for kind, s in gen.rand_seqs(rng, 25 if tier == "quick" else 250, 60):
        if not any(c in "KRHDECY" for c in s):
            continue
        lines = ["new 0 " + s]
        order = rng.choice(["pi-first", "pi-between", "pi-last"])
        qs = ["o 0 phq %s %s" % (g_, t) for t in rng.sample(path, 4) for g_ in ("ncpr", "mnc", "fcr", "fer")]
        if order == "pi-first":
            lines += ["o 0 pi"] + qs
        elif order == "pi-between":
            lines += qs[:8] + ["o 0 pi"] + qs + ["o 0 pi"]
        else:
            lines += qs + ["o 0 pi"]
        yield Case(lines, {"kind": "same-object-" + order})
    # out-of-range pH values on their own (small blocks: positional and keyword, int and float)
    for sq in ("KDG", "GSEDEEGSDKGSEEDYGS"):
        for bad in ("-1/100", "-1", "1401/100", "15", "141/10", "-5/1", "20/1", "1000/1", "-1/10000000000000000", "-1/" + "1" + "0" * 300,
                    "14000000001/1000000000"):
            yield Case(["q phq %s %s %s" % (sq, g_, bad) for g_ in ("ncpr", "fcr", "fer", "mnc")], {"kind": "pH-out-of-range", "meta": [("bad", None)] * 4, "seq": sq})
    # chains of more than 10000 residues whose titratable residues are a minority
    for unit, reps in (("G" * 59 + "K", 171), ("GSGSQNGSPAGS" * 5 + "D", 165), ("SG" * 30 + "H", 165))[:1 if tier == "quick" else 3]:
        s = unit * reps
        yield Case(["q pi " + s, "q pisound " + s, "q phq %s ncpr 7/1" % s, "q phq %s fcr 3/1" % s], {"kind": "very-long"})
    for kind, s in gen.rand_seqs(rng, 100 if tier == "quick" else 1000, 300):
        lines, meta = block(s, rng)
        yield Case(lines, {"kind": kind, "meta": meta, "seq": s}, nontrivial=any(c in "KRHDECY" for c in s))


def judge(case, reals, gens, specs):
    if case.block and case.block[0].startswith("childq "):
        if reals[0][0] != "childq":
            return [("violation", 0, "%s -> %s" % (case.block[0], str(reals[0])[:300]))]
        ok_c, why = core.judge_childq(reals[0])
        return [] if ok_c else [("violation", 0, why)]
    out = []
    for i, (r, g, s) in enumerate(zip(reals, gens, specs)):
        if not core.match(r, s)[0]:
            out.append(("violation", i, "%s: real=%s spec=%s" % (case.block[i], str(r)[:120], s[:120])))
        elif not core.match(r, g)[0]:
            out.append(("tie", i, "real=%s model@gen=%s" % (str(r)[:120], g[:120])))
    meta = case.tags.get("meta")
    seq = case.tags.get("seq")
    if meta and seq:
        N = len(seq)
        ntit = sum(c in "KRHDECY" for c in seq)
        fP = seq.count("P") / N
        vals = {}
        for i, (gname, pH) in enumerate(meta):
            if gname == "bad":
                if reals[i][0] != "exc":
                    out.append(("violation", i, "pH outside [0,14] accepted: %s -> %r" % (case.block[i], reals[i])))
            elif gname == "pi":
                pass
            elif reals[i][0] == "num":
                vals[(gname, pH)] = reals[i][1]
        phs = sorted({p for (g_, p) in vals})
        prev = None
        for p in phs:
            ncpr, fcr, fer, mnc = (vals.get((g_, p)) for g_ in ("ncpr", "fcr", "fer", "mnc"))
            if None in (ncpr, fcr, fer, mnc):
                continue
            if prev is not None and ncpr > prev + 1e-12:
                out.append(("violation", 0, "NCPR(pH) increased: %r -> %r at pH %s for %s" % (prev, ncpr, p, seq)))
            prev = ncpr
            if not (abs(ncpr) <= fcr + 1e-12 and -1e-12 <= fcr <= ntit / N + 1e-12):
                out.append(("violation", 0, "bounds |NCPR|<=FCR<=titratable/N broken at pH %s: %r %r (%s)" % (p, ncpr, fcr, seq)))
            if abs(fer - (fcr + fP)) > 1e-12 or abs(mnc - abs(ncpr)) > 1e-12:
                out.append(("violation", 0, "FER = FCR + fP or mean net charge = |NCPR| broken at pH %s (%s)" % (p, seq)))
    return out
