"""C17 — shuffles and moves only rearrange, keep frozen sites, stay self-consistent"""
from ..runner import Case
from .. import gen, core

ID = "C17"
OPT_MODE = False     # (moves / WL runs / plots are not re-run under python -O)
LEAN_TARGETS = ["Cider.Props.C17", "Cider.Props.C02Tie"]
P = "Cider.C17."
THEOREMS = ["Cider.C02.gen_charge_eq_published"] + [P + t for t in (
    "swapBlocks_perm", "swapRes_perm", "blockSwap_perm", "pick_partition", "fullShuffle_perm", "fullShuffle_frozen",
    "clusterSwap_perm", "swapRandCharge_perm", "swapRes_outside", "swapRandCharge_frozen", "chain_perm", "child_dmax_consistent",
    "frozen_ignored_by_block_swap_witness")]
RULE = ("each case = one parent object (delta-max cached or not), a frozen set, a seed for a RECORDING random generator installed in "
        "localcider.backend.sequence, and a chain of 1..6 moves (pair swap, charge-type swap, full shuffle, block swap, charge "
        "clustering) or get_shuffled_sequence / SequencePermutants.get_permutant; oracle 1 (no model) on every child object: its "
        "sequence is a rearrangement of the parent's, every frozen in-range position keeps its residue, len / chargePattern / a "
        "carried-over dmax equal those of a fresh object, the parent is unchanged, and shuffles / swaps do not raise; oracle 2: the "
        "recorded tape of random outcomes is replayed through the Lean model and must give the same child sequence; sequences of "
        "length 1..40 of all classes; non-trivial = distinct (sequence, frozen, seed, chain)")
KINDS = ["swap", "swapcharge", "shuffle", "block", "cluster"]


def ftok(fr):
    return ",".join(map(str, sorted(fr))) if fr else "-"


def cases(rng, tier):
    for c in structured_cases(rng, tier):
        yield c
    n = 400 if tier == "quick" else 4000
    for i in range(n):
        L = rng.randint(1, 8) if rng.random() < 0.3 else rng.randint(9, 40)
        s = gen.rand_seq(rng, rng.choice(gen.KINDS), L)
        fr = set()
        r = rng.random()
        if r < 0.45:
            fr = set(rng.sample(range(L), rng.randint(1, max(1, L // 2))))
        elif r < 0.5:
            fr = set(range(L))
        elif r < 0.55:
            fr = {L, L + 3}
        seed = rng.randint(0, 10 ** 6)
        cached = rng.random() < 0.5
        r = rng.random()
        if r < 0.15:
            yield Case(["move api_shuffle %s %s %d %d" % (s, ftok(fr), seed, cached)], {"kind": "get_shuffled_sequence"})
        elif r < 0.22:
            yield Case(["move permutant %s - %d 0" % (s, seed)], {"kind": "get_permutant"})
        elif r < 0.45:
            k = rng.choice(KINDS)
            extra = ""
            if k == "swap":
                extra = " %d %d" % (rng.randrange(L), rng.randrange(L))
            yield Case(["move %s %s %s %d %d%s" % (k, s, ftok(fr), seed, cached, extra)], {"kind": "single-" + k})
        else:
            ks = [rng.choice(["swapcharge", "shuffle", "block", "cluster"]) for _ in range(rng.randint(2, 6))]
            yield Case(["move %s %s %s %d %d" % (",".join(ks), s, ftok(fr), seed, cached)], {"kind": "chain"})


def structured_cases(rng, tier):
    """frozen sets tied to the charge classes (all neutral / all positive / ... positions frozen) for every move, and parents whose
    cache was warmed through kappa() on sequences in kappa's 1.0-1.1 reporting band"""
    seqs = ["KGEGKGEG", "KEA", "KKEEGG", "KGE", "GGKGG", "EEKK", "KGGE", "AKAEAG"] + [gen.rand_seq(rng, rng.choice(gen.KINDS), rng.randint(3, 14)) for _ in range(6 if tier == "quick" else 60)]
    for s in seqs:
        for fr in gen.structured_frozen(s):
            for k in ("swapcharge", "shuffle", "block", "cluster"):
                for rep in range(3 if k == "swapcharge" else 1):
                    yield Case(["move %s %s %s %d %d" % (k, s, ftok(fr), rng.randint(0, 10 ** 6), rng.randint(0, 1))], {"kind": "structured-frozen-" + k})
            yield Case(["move api_shuffle %s %s %d 1" % (s, ftok(fr), rng.randint(0, 10 ** 6))], {"kind": "structured-frozen-api"})
    for s in gen.CLAMP_BAND + gen.ABOVE_MAX + gen.ABOVE_MAX:
        L = len(s)
        for k in ("swapcharge", "shuffle", "swap", "block", "cluster"):
            extra = " %d %d" % (rng.randrange(L), rng.randrange(L)) if k == "swap" else ""
            yield Case(["move %s %s - %d 2%s" % (k, s, rng.randint(0, 10 ** 6), extra)], {"kind": "kappa-warmed-" + k})
        yield Case(["move shuffle,swapcharge,shuffle %s - %d 2" % (s, rng.randint(0, 10 ** 6))], {"kind": "kappa-warmed-chain"})
        for _r in range(3):
            yield Case(["move block,block,block %s - %d 1" % (s, rng.randint(0, 10 ** 6))], {"kind": "cached-parent-block-swaps"})
    for _ in range(30 if tier == "quick" else 300):
        s = gen.rand_seq(rng, rng.choice(["polyampholyte", "idp", "blocky"]), rng.randint(8, 30))
        yield Case(["move %s %s - %d 3" % (rng.choice(["shuffle", "shuffle,shuffle", "swapcharge,shuffle", "shuffle,swapcharge"]), s, rng.randint(0, 10 ** 6))],
                   {"kind": "parent-holds-permutant"})
        yield Case(["move api_shuffle %s - %d 1" % (s, rng.randint(0, 10 ** 6))], {"kind": "kappa-warmed-api"})
        yield Case(["move api_shuffle %s 0,%d %d 1" % (s, L - 1, rng.randint(0, 10 ** 6))], {"kind": "kappa-warmed-api"})


def replay_line(kind, parent, frozen_tok, tape, extra):
    """driver op that replays the recorded outcomes of one move"""
    if kind == "swap":
        return "move swap %s %s %s" % (parent, extra[0], extra[1])
    if kind == "shuffle":
        sh = [t for t in tape if t[0] == "shuffle"]
        if len(sh) != 1:
            return None
        return "move shuffle %s %s %s" % (parent, frozen_tok, ",".join(map(str, sh[0][1])) or "-")
    if kind == "swapcharge":
        sm = [t[1] for t in tape if t[0] == "sample"]
        if len(sm) == 0:
            return "move swapcharge %s %s" % (parent, frozen_tok)
        if len(sm) == 2:
            return "move swapcharge %s %s 0 0 %d %d" % (parent, frozen_tok, sm[0][0], sm[1][0])
        if len(sm) == 3:
            return "move swapcharge %s %s %d %d %d %d" % (parent, frozen_tok, sm[0][0], sm[0][1], sm[1][0], sm[2][0])
        return None
    if kind == "block":
        ri = [t[1] for t in tape if t[0] == "randint"]
        sm = [t[1] for t in tape if t[0] == "sample"]
        if not ri or not sm:
            return None
        return "move block %s %d %d %d" % (parent, ri[-1], sm[-1][0], sm[-1][1])
    if kind == "cluster":
        ri = [t[1] for t in tape if t[0] == "randint"]
        sm = [t[1] for t in tape if t[0] == "sample"]
        if len(ri) < 2 or not sm:
            return None
        return "move cluster %s %d %d %s" % (parent, ri[-2], ri[-1], ",".join(map(str, sm[-1])))
    return None


def judge(case, reals, gens, specs):
    out = []
    r = reals[0]
    toks = case.block[0].split(" ")
    frozen_tok = toks[3]
    extra = toks[6:]
    if r[0] != "moves":
        out.append(("violation", 0, "%s -> %r" % (case.block[0], r)))
        return out
    lines, idx = [], []
    for k, (kind, parent, child, tape, bad) in enumerate(r[1]):
        frozen_bad = [b for b in bad if b.startswith("frozen-")]
        other_bad = [b for b in bad if not b.startswith("frozen-")]
        if other_bad:
            out.append(("violation", 0, "step %d (%s) of %s: child %s of parent %s fails: %s" % (k, kind, case.block[0], child, parent, ",".join(other_bad))))
        if frozen_bad:
            case.tags["frozen_moved_by"] = kind
            out.append(("violation", 0, "FROZEN step %d (%s) of %s: child %s of parent %s moved a frozen residue (%s)" % (
                k, kind, case.block[0], child, parent, ",".join(frozen_bad))))
        if child.startswith("exc:"):
            if kind in ("swap", "swapcharge", "shuffle") or child == "exc:TapeCap":
                # shuffles and swaps must succeed for every sequence
                if child != "exc:TapeCap":
                    out.append(("violation", 0, "step %d: %s raised %s on %s" % (k, kind, child, parent)))
            continue
        rl = replay_line(kind, parent, frozen_tok, tape, extra)
        if rl is None:
            out.append(("tie", 0, "could not derive a replay op from the tape of %s: %r" % (kind, tape[:6])))
            continue
        lines.append(rl)
        idx.append((k, kind, parent, child))
    if lines:
        for mode in ("spec", "gen"):
            res = core.run_driver(lines, mode)
            for (k, kind, parent, child), line, o in zip(idx, lines, res):
                want = "self" if child == "self" else "str " + child
                if o != want:
                    out.append(("violation" if mode == "spec" else "tie", 0,
                                "step %d: real %s(%s) -> %s but the model replaying the tape (%s) -> %s" % (k, kind, parent, child, line, o)))
    return out


def known_match(case, idx, reals, specs, listed, detail=""):
    """F-C17-1: permute_block_swap / permute_cluster_charges accept `frozen` and ignore it.
    Matches ONLY a frozen-residue-moved failure of one of those two moves; the same step must not fail any
    other clause (rearrangement, bookkeeping, model replay), which would be reported separately anyway."""
    f = next((x for x in listed if x["id"] == "F-C17-1"), None)
    if f is None:
        return None
    import re
    m = re.match(r"FROZEN step \d+ \((block|cluster)\) ", detail)
    return f if m else None
