"""C16 — phosphosites are exactly the requested in-range S/T/Y; derived values follow"""
from ..runner import Case
from .. import gen, core

ID = "C16"
STATEFUL = True
LEAN_TARGETS = ["Cider.Props.C16", "Cider.Props.C02Tie", "Cider.Props.C16Tie"]
OPTIONAL_TARGETS = ["Cider.Props.C16Src"]
OPTIONAL_THEOREMS = {"Cider.Props.C16Src": ['Cider.C16Src.letters_eq', 'Cider.C16Src.setSite_eq', 'Cider.C16Src.setPhos_eq', 'Cider.C16Src.appended_ok']}
P = "Cider.C16."
THEOREMS = ["Cider.C02.gen_charge_eq_published"] + [P + t for t in (
    "gen_sty_eq_published", "setSite_spec", "setPhos_phos", "phos_history", "phos_seq_frame", "phos_nodup_valid", "phosphoSeq_spec",
    "kappaAfter_eq_kappa_phosphoSeq", "onOff_length", "onOff_binary_counting", "distribution_entries", "distribution_all_on",
    "allSTY_spec")]
RULE = ("each case = one object and a history of 1..8 set_phosphosites (single int / list / tuple; positions in -N-2..N+2 incl. 0, "
        "negatives, beyond the end, duplicates, non-S/T/Y residues) and clear_phosphosites calls, each followed by get_phosphosites, "
        "get_phosphosequence, get_kappa_after_phosphorylation, get_sequence and (k <= 5) get_full_phosphostatus_kappa_distribution; "
        "oracle 1 (no model): the listed sites are exactly the first-occurrence-ordered in-range S/T/Y requests since the last clear, the "
        "phosphosequence has E exactly there, the distribution has 2^k entries in binary counting order whose values equal the getters "
        "of the substituted sequence on a fresh object; oracle 2: equality with the model; sequences rich in S/T/Y, length 1..40; "
        "non-trivial = distinct (sequence, history) with at least one accepted site")


def cases(rng, tier):
    for c in band_cases(rng, tier):
        yield c
    # duplicates of objects with built-up state: every way of copying x every kind of state
    for l in core.copy_cases(rng, 2 if tier == "quick" else 12, ['getphos', 'phosseq', 'kappaphos']):
        yield Case([l], {"kind": "duplicate-of-object"})
    # objects handed back by moves / shuffles, and copy / deepcopy / pickle duplicates of objects with built-up state
    for l in core.childq_cases(rng, 60 if tier == "quick" else 400, ['getphos', 'phosseq', 'kappaphos']):
        yield Case([l], {"kind": "object-from-move-or-copy"})
    for c in shared_child_cases(rng, tier):
        yield c
    n = 120 if tier == "quick" else 1200
    for i in range(n):
        L = rng.randint(1, 12) if rng.random() < 0.4 else rng.randint(13, 40)
        s = "".join(rng.choice("STYSTYKEDRGAP") for _ in range(L))
        lines = ["new 1 " + s]
        hist = []
        for _ in range(rng.randint(1, 8)):
            if rng.random() < 0.15:
                lines.append("clearphos 1")
                hist.append(("clear", None))
            else:
                k = rng.choice([1, 1, 2, 3, 5])
                sites = []
                for _ in range(k):
                    r = rng.random()
                    if r < 0.55:
                        cand = [j + 1 for j, c in enumerate(s) if c in "STY"]
                        sites.append(rng.choice(cand) if cand else rng.randint(1, L))
                    elif r < 0.75:
                        sites.append(rng.randint(1, L))
                    else:
                        sites.append(rng.choice([0, -1, -2, -L, -L - 1, L + 1, L + 2, 2 * L + 5]))
                lines.append("setphos 1 " + " ".join(map(str, sites)))
                hist.append(("set", sites))
            lines += ["o 1 getphos", "o 1 phosseq", "o 1 kappaphos", "o 1 seq"]
        lines.append("o 1 sty")
        if len(expected_sites(s, hist)) <= (4 if tier == "quick" else 6):
            lines.append("o 1 phosdist")
        yield Case(lines, {"kind": "history-%d" % len(hist), "seq": s, "hist": hist}, nontrivial=True)


def shared_child_cases(rng, tier):
    """parent with sites; child = shuffle with every position frozen (same sequence, must be an independent object); sites set / cleared
    on one of them must not show on the other"""
    for _ in range(20 if tier == "quick" else 200):
        L = rng.randint(1, 20)
        s = "".join(rng.choice("STYSTYKEDRGAP") for _ in range(L))
        sty = [j + 1 for j, c in enumerate(s) if c in "STY"] or [1]
        lines = ["new 1 " + s, "setphos 1 " + " ".join(map(str, rng.sample(sty, min(len(sty), 2)))), "shufall 2 1", "o 2 getphos", "o 2 seq",
                 "setphos 2 " + " ".join(map(str, rng.sample(sty, min(len(sty), 3)) + [0, L + 1])), "o 2 getphos", "o 1 getphos", "o 2 phosseq", "o 1 phosseq",
                 "o 2 kappaphos", "o 1 kappaphos", "clearphos 2", "o 1 getphos", "o 2 getphos", "o 1 phosseq"]
        yield Case(lines, {"kind": "shuffled-child-is-independent"})


def band_cases(rng, tier):
    """parents whose fully phosphorylated state is one of the sequences in kappa's 1.0-1.1 reporting band; a lone site at residue 1"""
    for band in gen.CLAMP_BAND:
        idx = [i for i, c in enumerate(band) if c == "E"]
        if not idx or len(idx) > 4:
            continue
        parent = list(band)
        for i in idx:
            parent[i] = rng.choice("STY")
        parent = "".join(parent)
        sites = [i + 1 for i in idx]
        rng.shuffle(sites)
        yield Case(["new 1 " + parent, "setphos 1 " + " ".join(map(str, sites)), "o 1 getphos", "o 1 phosseq", "o 1 kappaphos", "o 1 phosdist"], {"kind": "reporting-band-state"})
    for s in ("SGKKGEGKKTGGEEDG", "TKEKEKGG", "YGGGKEKE", "SAAAAKKEE"):
        for setl in ("setphos 1 1", "setphos 1 0 1 2 1 99 -3"):
            yield Case(["new 1 " + s, setl, "o 1 getphos", "o 1 phosseq", "o 1 kappaphos", "o 1 phosdist", "clearphos 1", "o 1 kappaphos", setl, "o 1 kappaphos"],
                       {"kind": "only-site-is-residue-1"})


def expected_sites(seq, hist_prefix):
    cur = []
    for kind, sites in hist_prefix:
        if kind == "clear":
            cur = []
        else:
            for x in sites:
                if 1 <= x <= len(seq) and seq[x - 1] in "STY" and x not in cur:
                    cur.append(x)
    return cur


def judge(case, reals, gens, specs):
    if case.block and case.block[0].startswith("childq "):
        if reals[0][0] != "childq":
            return [("violation", 0, "%s -> %s" % (case.block[0], str(reals[0])[:300]))]
        ok_c, why = core.judge_childq(reals[0])
        return [] if ok_c else [("violation", 0, why)]
    out = []
    for i, (r, g, s) in enumerate(zip(reals, gens, specs)):
        if r[0] == "skip":
            continue
        if not core.match(r, s)[0]:
            out.append(("violation", i, "%s: real=%s spec=%s" % (case.block[i], str(r)[:160], s[:160])))
        elif not core.match(r, g)[0]:
            out.append(("tie", i, "real=%s model@gen=%s" % (str(r)[:160], g[:160])))
    seq = case.tags.get("seq")
    hist = case.tags.get("hist")
    if seq and hist:
        k = 0
        cur = []
        for i, line in enumerate(case.block):
            if line.startswith("setphos") or line.startswith("clearphos"):
                k += 1
                cur = expected_sites(seq, hist[:k])
                if reals[i][0] == "exc":
                    out.append(("violation", i, "%s raised %r" % (line, reals[i])))
            elif line == "o 1 getphos":
                if reals[i] != ("ints", cur):
                    out.append(("violation", i, "get_phosphosites=%r, expected %r after %r" % (reals[i], cur, hist[:k])))
            elif line == "o 1 phosseq":
                exp = "".join("E" if (j + 1) in cur else c for j, c in enumerate(seq))
                if reals[i] != ("str", exp):
                    out.append(("violation", i, "get_phosphosequence=%r, expected %r" % (reals[i], exp)))
            elif line == "o 1 seq":
                if reals[i] != ("str", seq):
                    out.append(("violation", i, "stored sequence changed: %r" % (reals[i],)))
            elif line == "o 1 phosdist":
                r = reals[i]
                if r[0] != "dist" or len(r[1]) != 2 ** len(cur) or any(b != format(j, "0%db" % len(cur)) if cur else b != "" for j, (v, b) in enumerate(r[1])):
                    out.append(("violation", i, "distribution length/order: %s for sites %r" % (str(r)[:120], cur)))
    return out
