"""C11 — complexity profiles: window count, positions, range, locality, WF = entropy"""
from ..runner import Case
from .. import gen, core
from ..real import hex6

ID = "C11"
STATEFUL = True     # some blocks keep a live object across lines
LEAN_TARGETS = ["Cider.Props.C11", "Cider.Props.C11Real"]
P = "Cider.C11."
THEOREMS = [P + t for t in (
    "window_count", "windows_are_slices", "positions_length", "positions_strictMono", "positions_in_range",
    "value_local", "lc_range", "lzw_range", "complexity_rejects_type_and_window",
    "wf_eq_entropy", "wf_nonneg", "wf_le_one", "wf_homopolymer", "wf_perm_invariant")]
RULE = ("each case = get_linear_complexity(type, alphabetSize | userAlphabet, blobLen=w, stepSize=s, wordSize) on a fresh object: the "
        "2 x K array vs the model (positions exactly; LC and LZW exactly as rationals; WF as the entropy, base alphabet size, of the "
        "window letter counts the model outputs, evaluated in the harness, tol 1e-9); oracle 1 (no model): K = floor((N-w)/s)+1, "
        "positions strictly increasing within 1..N, values in [-1e-9, 1+1e-9]; all 3 types x the 12 sizes x random user alphabets "
        "(>= 2 letters) x w in 1..N (+ N+1, N+2 must raise) x s in 1..N x wordSize 1..6, on every 3-letter-alphabet sequence of length "
        "<= 5 (quick) / 7 (thorough) with sampled parameters and random sequences to 80; unknown types must raise; non-trivial = distinct "
        "call with w <= N")
EXHAUSTIVE = {"quick": "all sequences over {K,E,G} of length 1..5 (parameters sampled)", "thorough": "all sequences over {K,E,G} of length 1..7 (parameters sampled)"}
SIZES = [2, 3, 4, 5, 6, 8, 10, 11, 12, 15, 18, 20]
TRUSTED = ["math.log / math.fsum in the harness for the entropy of the model's window letter counts"]


def utok(d):
    return ",".join("%s=%s" % (hex6(k), hex6(v)) for k, v in d.items()) or "-"


def call(s, rng, force_bad=False):
    N = len(s)
    typ = rng.choice(["WF", "LC", "LZW"])
    size = rng.choice(SIZES)
    ua = "-"
    if rng.random() < 0.2:
        img = rng.sample(gen.AAS, rng.randint(2, 6))
        d = {a: rng.choice(img) for a in gen.AAS}
        # make sure at least two letters are really used
        d["A"], d["C"] = img[0], img[1]
        if rng.random() < 0.35:
            # entries for symbols that are not amino acids (ignored: no residue maps through them), bound to letters nothing else maps to
            spare = [a for a in gen.AAS if a not in img]
            for sym in rng.sample(["X", "B", "Z", "U", "O", "-", "*", "x"], rng.randint(1, 5)):
                d[sym] = rng.choice(spare)
        ua = utok(d)
    r = rng.random()
    if r < 0.1:
        w = N + rng.randint(1, 2)
    elif r < 0.3:
        w = N
    else:
        w = rng.randint(1, N)
    st = rng.randint(1, N) if rng.random() < 0.6 else 1
    ws = rng.randint(1, 6) if typ == "LC" else 3
    if force_bad:
        typ = rng.choice(["XX", "RHP", "wfx", "LCC"])
    return "q cplx %s %s %s %s %d %d %d" % (s, typ, size, ua, w, st, ws)


def cases(rng, tier):
    aas = "ACDEFGHIKLMNPQRSTVWY"
    reps = {20: aas, 18: "LVCAGSTPFYWEDNQKRH", 15: "LCAGSTPFWEQDNKH", 12: "LCAGSPFWEDKH", 11: "LCAGSPFEKHQ", 10: "LCAGSPFEKH", 8: "LASPFEKH", 6: "LAPFEK",
            5: "LAFEK", 4: "LAFE", 3: "LFE", 2: "LE"}
    for size, rp in reps.items():
        for mult in (1, 2):
            win = list(rp * mult)
            rng.shuffle(win)
            sq = "".join(win) + "".join(rng.choice(aas) for _ in range(rng.randint(0, 9)))
            for st in (1, 3):
                yield Case(["q cplx %s WF %d - %d %d 3" % (sq, size, len(win), st)], {"kind": "uniform-window"})
    # the same query several times in a row on one object
    for c in gen.repeated_call_cases(rng, 8 if tier == "quick" else 60, ['cplx WF 20 - 4 1 3'], gen.CLAMP_BAND[:8] if False else ()):
        yield c
    # the property's own queries AFTER other public calls on the same object (same answers as on a fresh one)
    for c in gen.after_calls_cases(rng, 16 if tier == "quick" else 120, ['cplx WF 20 - 4 1 3', 'cplx LC 5 - 4 2 2', 'cplx LZW 8 - 5 1 3']):
        yield c
    import itertools
    n = 5 if tier == "quick" else 7
    for L in range(1, n + 1):
        for t in itertools.product("KEG", repeat=L):
            s = "".join(t)
            for _ in range(2):
                line = call(s, rng)
                yield Case([line], {"kind": "exhaustive-3-letter"}, nontrivial=int(line.split(" ")[6]) <= len(s))
    for kind, s in gen.rand_seqs(rng, 250 if tier == "quick" else 2500, 80):
        for _ in range(3):
            line = call(s, rng)
            yield Case([line], {"kind": kind}, nontrivial=int(line.split(" ")[6]) <= len(s))
        if rng.random() < 0.1:
            yield Case([call(s, rng, force_bad=True)], {"kind": "bad-type"})
    # every short fragment of the valid names / of ways to write the list of valid names is NOT a valid type
    bad = set()
    for base in ["WF, LC, LZW", "WF,LC,LZW", "WFLCLZW", "('WF', 'LC', 'LZW')", "WF LC LZW", "WF|LC|LZW", "wf, lc, lzw"]:
        for i in range(len(base) + 1):
            for j in range(i, min(len(base), i + 4) + 1):
                t = base[i:j]
                if t.upper() not in ("WF", "LC", "LZW"):
                    bad.add(t)
    bad |= {"LC, LZW", "WF, LC", "WF, LC, LZW", "None", "0"}
    for t in sorted(bad):
        yield Case(["q cplx KEGGKEAAAASTKEGG h:%s 20 - 5 1 3" % hex6(t)], {"kind": "bad-type-fragment"})
    # lower-case type names are accepted (upper-cased by the API)
    yield Case(["q cplx KEGGKEAAAA WF 20 - 5 1 3"], {"kind": "basic"})


def judge(case, reals, gens, specs):
    if case.tags.get("kind") in ("after-other-calls", "after-calls-on-another-object", "repeated-calls"):
        from ..runner import default_judge
        return default_judge(None, case, reals, gens, specs)
    out = []
    r, g, s = reals[0], gens[0], specs[0]
    line = case.block[0].split(" ")
    seq, typ, w, st = line[2], line[3], int(line[6]), int(line[7])
    if typ.startswith("h:"):
        typ = "<" + typ + ">"
    N = len(seq)
    if not core.match(r, s)[0]:
        out.append(("violation", 0, "%s: real=%s spec=%s" % (case.block[0], str(r)[:200], s[:200])))
    elif not core.match(r, g)[0]:
        out.append(("tie", 0, "real=%s model@gen=%s" % (str(r)[:160], g[:160])))
    if typ not in ("WF", "LC", "LZW") or w > N:
        if r[0] != "exc":
            out.append(("violation", 0, "%s should have been rejected, got %s" % (case.block[0], str(r)[:100])))
    elif r[0] == "mat":
        pos, vals = r[1]
        K = (N - w) // st + 1
        if len(pos) != K or any(b <= a for a, b in zip(pos, pos[1:])) or (pos and (pos[0] < 1 or pos[-1] > N)):
            out.append(("violation", 0, "positions %r for N=%d w=%d s=%d (K should be %d)" % (pos[:10], N, w, st, K)))
        if any(not (-1e-9 <= v <= 1 + 1e-9) for v in vals):
            out.append(("violation", 0, "value outside [0,1]: %r" % (vals[:10],)))
    return out
