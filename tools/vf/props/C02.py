"""C02 — delta equals the Das-Pappu blob-averaged charge-asymmetry variance"""
from ..runner import Case
from .. import gen, core

ID = "C02"
STATEFUL = True     # some blocks keep a live object across lines
LEAN_TARGETS = ["Cider.Props.C02", "Cider.Props.C02Tie"]
# source-text tie (translated on every run by tools/pyexpr2lean.py); skipped when a function no longer fits the translator
OPTIONAL_TARGETS = ["Cider.Props.C02Src"]
OPTIONAL_THEOREMS = {"Cider.Props.C02Src": ['Cider.C02Src.deltaTerm_eq', 'Cider.C02Src.delta_eq']}
P = "Cider.C02."
THEOREMS = [P + t for t in (
    "blobs_eq_windows", "blob_count", "blobs_last", "sigma_eq_def", "blob_sigma_eq_def", "deltaForm_eq_spec", "deltaForm_short",
    "delta_eq_spec", "deltaW_nonneg", "delta_nonneg", "delta_depends_on_charge_classes_only", "published_charge_classes", "gen_charge_eq_published")]
OPS = ["delta", "specdelta", "dform 5", "dform 6", "sigma", "specsigma"]
RULE = ("each case = one sequence; get_delta / deltaForm(5|6) / sigma of a fresh object vs the exact rational value of "
        "(a) the loop-mirroring model and (b) the declarative Das-Pappu definition, both evaluated by the Lean driver; "
        "sequences: every charge pattern over {+,-,0} of length 1..n (quick n=7, thorough n=10) spelled K/E/G and once with random "
        "same-class residues, plus structured-random sequences up to 400; non-trivial = distinct pattern with at least one "
        "charged residue and length >= 5")
EXHAUSTIVE = {"quick": "all 3 279 charge patterns of length 1..7", "thorough": "all 88 572 charge patterns of length 1..10"}
ASSUMPTIONS = ["floats correspond to exact rationals within 1e-9 relative"]


def block(seq):
    out = []
    for o in OPS:
        parts = o.split(" ")
        out.append("q %s %s%s" % (parts[0], seq, "".join(" " + a for a in parts[1:])))
    return out


def cases(rng, tier):
    for sq in gen.sparse_charge_seqs(rng, 40 if tier == "quick" else 400):
        yield Case(block(sq), {"kind": "sparse-charges"})
    # long, sparsely charged chains whose few charges sit together (three or more inside one blob)
    for sq in gen.sparse_clustered_seqs(rng, 30 if tier == "quick" else 300):
        yield Case(block(sq), {"kind": "sparse-clustered-charges"})
    # lengths at / next to powers of two and round thousands, and lengths whose BLOB COUNT (N-4, N-5) is such a number
    for sq in gen.boundary_seqs(rng, tier != "quick"):
        yield Case(["q delta " + sq, "q dform %s 5" % sq, "q dform %s 6" % sq], {"kind": "boundary-length"})
    # delta asked after kappa / delta-max on one object, for sequences whose own delta lies ABOVE the heuristic delta-max (reporting band
    # and beyond) - and on objects that inherited a delta-max from their parent
    for sq in gen.CLAMP_BAND + gen.ABOVE_MAX + ["DSGSAGEE", "KRGSQGAK", "SDEDEEGA", "ESKRKGAD", "GSGEKGSGEEEEEDDDDDEEEEE"] + gen.block_arrangements(rng, 10 if tier == "quick" else 60):
        pre = rng.sample(["kappa", "dmax", "dmaxperm", "kappa"], 2)
        yield Case(["new 0 " + sq] + ["o 0 " + q for q in pre] + ["o 0 delta", "o 0 sigma", "o 0 dform 5"], {"kind": "delta-after-delta-max", "judge_from": 3})
    # the same query several times in a row on one object
    for c in gen.repeated_call_cases(rng, 8 if tier == "quick" else 60, ['delta'], gen.CLAMP_BAND[:8] if False else ()):
        yield c
    # very long chains (> 1000 residues, lengths that are not round numbers)
    for sq in gen.very_long(rng, tier != "quick"):
        yield Case(["q %s %s%s" % (q.split(" ")[0], sq, "".join(" " + a for a in q.split(" ")[1:])) for q in ['delta', 'sigma']], {"kind": "very-long"})
    # objects built from sequence files (two per block)
    for c in gen.file_cases(rng, 12 if tier == "quick" else 100, ['delta', 'sigma']):
        yield c
    # the property's own queries AFTER other public calls on the same object (same answers as on a fresh one)
    for c in gen.after_calls_cases(rng, 16 if tier == "quick" else 120, ['delta', 'sigma']):
        yield c
    n = 7 if tier == "quick" else 10
    for pat in gen.patterns_upto(n):
        nt = len(pat) >= 5 and pat.count('0') < len(pat)
        yield Case(block(gen.spell(pat, rng, plain=True)), {"kind": "exhaustive"}, nontrivial=nt)
        if tier == "quick" or rng.random() < 0.1:
            yield Case(block(gen.spell(pat, rng)), {"kind": "exhaustive-respelled"}, nontrivial=False)
    for kind, s in gen.rand_seqs(rng, 200 if tier == "quick" else 2500, 400):
        yield Case(block(s), {"kind": kind}, nontrivial=len(s) >= 5 and any(c in "KRDE" for c in s))
    # raw constructor arguments with white space (blocks of ten, line breaks, tabs): same answers as the normalised word
    for kind, s in gen.rand_seqs(rng, 30 if tier == "quick" else 300, 80):
        yield Case(gen.ws_lines(block(s), rng), {"kind": "whitespace-input"})
    # long sequences with > 127 / > 255 charged or neutral residues, net charge beyond +-127, length > 256
    for s in gen.large_regime():
        yield Case(block(s), {"kind": "large-regime"})
    # objects that were handed back by the library's own moves / shuffles (not built from a string) answer for the sequence they hold
    for l in core.childq_cases(rng, 90 if tier == "quick" else 600, ["delta", "sigma", "kappa"]):
        yield Case([l], {"kind": "object-from-move"})
