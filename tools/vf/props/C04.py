"""C04 — composition parameters equal their published per-residue definitions"""
from ..runner import Case
from .. import gen, core

ID = "C04"
STATEFUL = True     # some blocks keep a live object across lines
LEAN_TARGETS = ["Cider.Props.C04", "Cider.Props.C04Tie"]
# source-text tie (translated on every run by tools/pyexpr2lean.py); skipped when a function no longer fits the translator
OPTIONAL_TARGETS = ["Cider.Props.C04Src"]
OPTIONAL_THEOREMS = {"Cider.Props.C04Src": ['Cider.C04Src.fractions_eq', 'Cider.C04Src.source_identities', 'Cider.C04Src.source_bounds']}
P = "Cider.C04."
THEOREMS = [P + t for t in (
    "gen_charge_eq_published", "gen_kd_eq_published", "gen_kdUversky_eq_published", "gen_ww_eq_published",
    "gen_ppiiHilser_eq_published", "gen_ppiiCreamer_eq_published", "gen_ppiiKallenbach_eq_published",
    "gen_mw_eq_published", "gen_disorder_eq_published", "gen_expanding_eq_published", "gen_omegaX_eq_published",
    "gen_tables_eq_published", "published_classes",
    "meanOf_eq_spec", "ppii_eq_spec", "molWeight_eq_spec", "nPos_eq_spec", "nNeg_eq_spec", "nNeut_eq_spec",
    "counts_sum", "fcr_eq_fplus_add_fminus", "ncpr_eq_fplus_sub_fminus", "meanNetCharge_eq_abs",
    "abs_ncpr_le_fcr_le_one", "fer_eq_fcr_add_fP", "aaFractions_sum_one", "uversky_eq_kd_div_9", "perm_invariant")]
OPS = ["countPos", "countNeg", "countNeut", "fplus", "fminus", "fcr", "ncpr", "mnc", "fer", "disorder", "aafrac",
       "kd", "uversky", "ww", "ppii hilser", "ppii creamer", "ppii kallenbach", "mw"]
RULE = ("each case = one sequence queried through all 18 composition getters on a fresh SequenceParameters object "
        "(real float vs exact rational from the Lean model, once with the regenerated tables = tie, once with the frozen "
        "published tables = property oracle); sequences: the 20 single residues, all 400 pairs, structured-random "
        "sequences (7 composition classes, length 1..400) each followed by a random permutation of itself; "
        "non-trivial = distinct sequence of length >= 2 containing at least 2 different residues")
EXHAUSTIVE = {"quick": "all 20 single residues and all 400 ordered residue pairs", "thorough": "all 20 single residues, all 400 ordered pairs, all 8000 triples"}
TRUSTED = ["Spec/Published.lean: frozen per-residue tables (reviewed against the cited scales)"]
ASSUMPTIONS = ["floats correspond to exact rationals within 1e-9 relative"]


def block(seq):
    out = []
    for o in OPS:
        parts = o.split(" ")
        out.append("q %s %s%s" % (parts[0], seq, "".join(" " + a for a in parts[1:])))
    return out


PRE = ["linFCR 3", "linNCPR 2", "linSigma 5", "linHydro 4", "linComp 3 -", "kappa", "dmaxperm", "omega", "html", "scd", "region", "reduce 5 -",
       "cplx WF 20 - 3 1 3", "phosseq", "pi", "phq fcr 7/1"]


def cases(rng, tier):
    from ..real import hex6 as _hex6w
    # words that can also be read as float literals / three-letter codes; a long chain pasted in blocks of ten (> 40 white-space runs)
    for wd in gen.AMBIGUOUS_WORDS + [" nan ", "NaN\n"]:
        yield Case(["mkq %s %s" % (_hex6w(wd), o) for o in ("seq", "countPos", "fcr", "kd", "mw")], {"kind": "ambiguous-word"})
    for L in (420, 777):
        sq = gen.rand_seq(rng, "idp", L)
        raw = " ".join(sq[i:i + 10] for i in range(0, L, 10)) + "\n"
        yield Case(["mkq %s %s" % (_hex6w(raw), o) for o in ("len", "countPos", "countNeg", "fcr", "ncpr", "kd")], {"kind": "many-white-space-runs"})
    from ..real import hex6 as _hex6
    # backend objects built directly from lower / mixed case text
    for kind_, sq in gen.rand_seqs(rng, 12 if tier == "quick" else 120, 60):
        raw = "".join(c.lower() if rng.random() < 0.6 else c for c in sq)
        yield Case(["backendq %s %s" % (_hex6(raw), " ".join(o.split(" "))) for o in OPS], {"kind": "backend-object-from-mixed-case"})
    # the same query several times in a row on one object
    for c in gen.repeated_call_cases(rng, 8 if tier == "quick" else 60, ['fcr', 'ncpr', 'kd', 'aafrac'], gen.CLAMP_BAND[:8] if False else ()):
        yield c
    # very long chains (> 1000 residues, lengths that are not round numbers)
    for sq in gen.very_long(rng, tier != "quick"):
        yield Case(["q %s %s%s" % (q.split(" ")[0], sq, "".join(" " + a for a in q.split(" ")[1:])) for q in ['countPos', 'fcr', 'ncpr', 'kd', 'ww', 'uversky', 'ppii hilser', 'mw', 'disorder', 'fer']], {"kind": "very-long"})
    # titin-sized chains (> 20 000 residues) and lengths at / next to powers of two and round thousands
    for n_ in ((20001, 4096) if tier == "quick" else (20001, 20480, 33000, 4096, 8192, 16384)):
        sq = "".join(rng.choice("KRDEGSQNAPLVHYT") for _ in range(n_))
        yield Case(["q %s %s" % (q, sq) for q in ['len', 'countPos', 'countNeg', 'countNeut', 'fcr', 'ncpr', 'fer', 'kd']], {"kind": "titin-sized"})
    for sq in gen.boundary_seqs(rng, tier != "quick"):
        yield Case(["q %s %s" % (q, sq) for q in ['len', 'countPos', 'countNeg', 'countNeut', 'fcr', 'ncpr', 'aafrac']], {"kind": "boundary-length"})
    # FCR / NCPR / mean net charge / fraction expanding with their optional pH argument (0 as int and as float, pKa values, 14)
    for kind_, sq in gen.rand_seqs(rng, 40 if tier == "quick" else 400, 80):
        lines = []
        for ph in ("0", "0/1", "39/10", "7/1", "10", "25/2", "14", "14/1"):
            for g_ in ("ncpr", "fcr", "fer", "mnc"):
                lines.append("q phq %s %s %s%s" % (sq, g_, ph, " @totnorm" if g_ == "fcr" and rng.random() < 0.3 else ""))
        yield Case(lines, {"kind": "getters-with-pH"})
    # every composition getter after phosphosites were set and the phosphorylation queries were made on the same object
    for _ in range(12 if tier == "quick" else 120):
        sq = gen.rand_seq(rng, rng.choice(["idp", "polyampholyte"]), rng.randint(10, 40)) + rng.choice(["S", "T", "Y", "SGT"])
        sty = [i + 1 for i, c in enumerate(sq) if c in "STY"]
        scene = ["setphos 0 " + " ".join(map(str, rng.sample(sty, min(len(sty), rng.randint(1, 3))))), "o 0 " + rng.choice(["kappaphos", "phosdist", "phosseq"]), "o 0 kappaphos"]
        if rng.random() < 0.5:
            scene.append("clearphos 0")
        yield Case(["new 0 " + sq] + scene + ["o 0 " + q for q in OPS], {"kind": "after-phosphorylation-queries", "judge_from": 1 + len(scene)})
    # objects built from sequence files (two per block)
    for c in gen.file_cases(rng, 12 if tier == "quick" else 100, ['countPos', 'countNeg', 'fcr', 'ncpr', 'kd', 'mw', 'len']):
        yield c
    # objects handed back by the library's own moves / shuffles (also with frozen sets, also from a parent whose cache is warm)
    for l in core.childq_cases(rng, 90 if tier == "quick" else 600, ['countPos', 'countNeg', 'fcr', 'ncpr', 'kd', 'mw', 'aafrac', 'fer']):
        yield Case([l], {"kind": "object-from-move"})
    # the documented scale names are case-insensitive
    for m in ("Hilser", "HILSER", "Creamer", "CREAMER", "cReAmEr", "Kallenbach", "KALLENBACH", "default"):
        for sq in ("P", "APGQ", gen.rand_seq(rng, "idp", 30)):
            yield Case(["q ppii %s %s" % (sq, m)], {"kind": "ppii-mode-case"})
    # every composition getter AFTER other public calls on the same object (profiles, patterning, rendering, ...)
    for c in gen.after_calls_cases(rng, 16 if tier == "quick" else 120, OPS):
        yield c
    for a in gen.AAS:
        yield Case(block(a), {"kind": "single"}, nontrivial=False)
    for a in gen.AAS:
        for b in gen.AAS:
            yield Case(block(a + b), {"kind": "pair"}, nontrivial=(a != b))
    if tier == "thorough":
        for a in gen.AAS:
            for b in gen.AAS:
                for c in gen.AAS:
                    yield Case(block(a + b + c), {"kind": "triple"}, nontrivial=not (a == b == c))
    n = 150 if tier == "quick" else 1500
    for kind, s in gen.rand_seqs(rng, n, 400):
        nt = len(set(s)) >= 2
        yield Case(block(s), {"kind": kind}, nontrivial=nt)
        yield Case(block(gen.permute(s, rng)), {"kind": kind + "-perm"}, nontrivial=nt)
    # raw constructor arguments with white space (blocks of ten, line breaks, tabs): same answers as the normalised word
    for kind, s in gen.rand_seqs(rng, 30 if tier == "quick" else 300, 80):
        yield Case(gen.ws_lines(block(s), rng), {"kind": "whitespace-input"})
    # long sequences with > 127 / > 255 charged or neutral residues, net charge beyond +-127, length > 256
    for s in gen.large_regime():
        yield Case(block(s), {"kind": "large-regime"})
