"""C13 — sequence strings are normalised or rejected, never silently altered"""
from ..runner import Case
from .. import gen, core
from ..real import hex6

ID = "C13"
LEAN_TARGETS = ["Cider.Props.C13", "Cider.Props.C13Tie"]
# source-text tie (translated on every run by tools/pyexpr2lean.py); skipped when the function no longer fits the translator
OPTIONAL_TARGETS = ["Cider.Props.C13Src", "Cider.Props.C13Val"]
OPTIONAL_THEOREMS = {"Cider.Props.C13Src": ['Cider.C13Src.checkWindow_eq', 'Cider.C13Src.checkWindow_profile'],
                     "Cider.Props.C13Val": ['Cider.C13Val.validateChar_eq', 'Cider.C13Val.decision_table', 'Cider.C13Val.frame_eq']}
P = "Cider.C13."
THEOREMS = [P + t for t in (
    "validateChars_ok_iff", "letters_eq_parse_of_nonspace", "construct_ok_iff", "construct_never_empty",
    "construct_rejects_nonstring", "construct_rejects_empty", "construct_idempotent",
    "pyOps_letters_not_space", "pyOps_upper_letters", "construct_py_ok_iff", "construct_py_idempotent")]
RULE = ("each case = one raw Python value handed to SequenceParameters(...): the outcome (exception, or get_sequence with "
        "get_length == len() == len(sequence)) vs the model, then five analyses (kappa, FCR, KD hydropathy, SCD, region) of the "
        "constructed object vs the model's analyses of the normalised word; inputs: valid sequences with random case and ASCII / "
        "Unicode white space injected; every code point U+0000..U+21FF (quick) / the whole BMP + astral samples (thorough) as a "
        "1-character string and inserted at every position of a short valid word for ASCII, Latin-1, all white-space and special "
        "upper-casing characters; '', blank strings, and non-strings (None, int, bytes, list, tuple, float, a str subclass); "
        "non-trivial = distinct input that is not already a normalised word")
EXHAUSTIVE = {"quick": "every code point U+0000..U+21FF as a one-character string", "thorough": "every BMP code point (minus surrogates) as a one-character string"}
TRUSTED = ["CPython's str.upper / str.isspace tables (tabulated into Gen/Unicode.lean on every run; modelled, not verified)"]
SPACES = [9, 10, 11, 12, 13, 28, 29, 30, 31, 32, 133, 160, 5760] + list(range(8192, 8203)) + [8232, 8233, 8239, 8287, 12288]
SPECIAL = [0xdf, 0x131, 0x17f, 0xfb00, 0xfb01, 0xfb02, 0xfb03, 0xfb04, 0xfb05, 0xfb06, 0x212a, 0x1e9e, 0xb5, 0x149, 0x1f0, 0x3a3, 0x41a]
QS = ["kappa", "fcr", "kd", "scd", "region"]


def mk(text, tags, nontrivial=True, analyses=False):
    lines = ["mk " + hex6(text) if text else "mk"]
    if analyses and text:
        lines += ["mkq %s %s" % (hex6(text), q) for q in QS]
    return Case(lines, tags, nontrivial=nontrivial)


def cases(rng, tier):
    yield mk("", {"kind": "empty"})
    for k in ("none", "int", "bytes", "list", "strsub", "float", "tuple", "false", "true", "nan", "inf", "strlike", "seqobj", "dict", "set",
              "complex", "zero"):
        yield Case(["mkother " + k], {"kind": "nonstring"})
    # valid (and invalid) strings that are also the names of files in the current working directory
    for raw in ("README", "LICENSE", "DATA", "tests", "misc", "KKKKKKKKKK", "ACDEFGHIKLMNPQRSTVWY", "setup", "Makefile", "data.txt", "mk ed"):
        yield Case(["mkcwd %s seq" % hex6(raw), "mkcwd %s fcr" % hex6(raw)], {"kind": "namesake-file-in-cwd"})
    # lengths at / next to powers of two and round thousands, given in mixed case with line breaks every 60 residues
    for sq in gen.boundary_seqs(rng, tier != "quick"):
        raw = "\n".join(sq[i:i + 60] for i in range(0, len(sq), 60))
        raw = "".join(c.lower() if rng.random() < 0.3 else c for c in raw)
        yield Case(["mkq %s %s" % (hex6(raw), q) for q in ("len", "seq", "countPos", "fcr")], {"kind": "boundary-length"})
    # the string handed over TOGETHER with the other constructor arguments: a sequenceFile (of another sequence), an empty / false SeqObj -
    # the string is what counts: normalised or rejected as if it stood alone
    for raw in [" m k v\n", "MKVEEK", "mkx", "MK1V", "M-KV", "12345", " \t\n", "acdefghiklmnpqrstvwy", "MKV*", ">hdr\nMKV", "K"] + \
            [gen.rand_seq(rng, "idp", rng.randint(1, 30)).lower() for _ in range(6 if tier == "quick" else 40)]:
        for fl in ("@withfile", "@seqobj:empty", "@seqobj:false", "@seqobj:zero", "@seqobj:tuple", "@seqobj:list", "@seqobj:none", "@withfile @seqobj:empty"):
            yield Case(["mk %s %s" % (hex6(raw), fl)] + ["mkq %s %s %s" % (hex6(raw), q, fl) for q in ("len", "fcr")], {"kind": "string-with-other-constructor-arguments"})
    for wd in gen.AMBIGUOUS_WORDS:
        yield mk(wd, {"kind": "ambiguous-word"}, analyses=True)
    # the SAME invalid character at two or three places (and two different ones)
    base = "MKVLLADEKR"
    for ch in "-X*1.bZ_\x00" + chr(0xe9):
        for i, j in ((3, 5), (0, 10), (2, 2), (4, 9)):
            t = base[:i] + ch + base[i:j] + ch + base[j:]
            yield mk(t, {"kind": "invalid-character-twice"})
        yield mk(ch + base[:5] + ch + base[5:] + ch, {"kind": "invalid-character-thrice"})
        yield mk(base[:4] + ch + base[4:7] + "?" + base[7:], {"kind": "two-invalid-characters"})
    sq = gen.rand_seq(rng, "idp", 500)
    yield mk(" ".join(sq[i:i + 10] for i in range(0, 500, 10)), {"kind": "many-white-space-runs"}, analyses=True)
    for n in (1, 2, 5):
        for c in (" ", "\t", "\n", " ", " \t\r\n"):
            yield mk(c * n, {"kind": "blank"})
    hi = 0x2200 if tier == "quick" else 0x10000
    for cp in range(0, hi):
        if 0xD800 <= cp <= 0xDFFF:
            continue
        yield mk(chr(cp), {"kind": "single-codepoint"}, nontrivial=not chr(cp) in gen.AAS)
    if tier == "thorough":
        for _ in range(3000):
            yield mk(chr(rng.randint(0x10000, 0x10FFFF)), {"kind": "astral"})
    base = "ACDK"
    ins = list(range(0, 256)) + SPACES + SPECIAL + [rng.randint(256, 0xFFFF) for _ in range(150 if tier == "quick" else 1500)]
    for cp in ins:
        if 0xD800 <= cp <= 0xDFFF:
            continue
        for pos in range(len(base) + 1):
            yield mk(base[:pos] + chr(cp) + base[pos:], {"kind": "inserted-char"}, analyses=(pos == 2))
    for kind, s in gen.rand_seqs(rng, 150 if tier == "quick" else 1500, 200):
        out = []
        for ch in s:
            r = rng.random()
            if r < 0.08:
                out.append(chr(rng.choice(SPACES)) * rng.randint(1, 3))
            out.append(ch.lower() if rng.random() < 0.4 else ch)
        if rng.random() < 0.3:
            out.append(rng.choice([" ", "\n", "\r\n", "\t"]))
        yield mk("".join(out), {"kind": "valid-decorated-" + kind}, analyses=True)
        if rng.random() < 0.3:
            bad = list(out)
            bad.insert(rng.randint(0, len(bad)), rng.choice("BJOUXZ0123456789*-_.>,;!?bjouxz@#"))
            yield mk("".join(bad), {"kind": "one-bad-char"})
