"""C20 — HTML rendering shows each residue once, in order, in its palette colour"""
import re
from ..runner import Case
from .. import gen, core
from ..real import hex6

ID = "C20"
STATEFUL = True
LEAN_TARGETS = ["Cider.Props.C20", "Cider.Props.C20Tie"]
P = "Cider.C20."
THEOREMS = [P + t for t in (
    "render_structure", "sep_blocks", "strip_in_tag", "strip_span", "strip_sep", "strip_render",
    "checkPalette_ok_iff", "checkPalette_value", "setPalette_frame", "palette_history", "htmlColours_facts",
    "gen_defaultPalette_eq_published", "gen_colour_check_eq_documented", "default_palette_valid")]
RULE = ("each case = one object and a history of 0..6 palette updates (valid / a missing key / an invalid colour / an extra key / "
        "wrong-case keys or colours / a non-string value) each followed by get_HTMLColorString(); oracle 1 (no model): the real HTML "
        "parsed with a regex has exactly len(seq) spans, letters in order, a space exactly before residues 0,10,20.. and <br> exactly "
        "before 0,50,100.., stripping tags and blanks gives the sequence, every colour is the last accepted palette's; oracle 2: the "
        "string equals the model's rendering and accept/reject equals the model's; sequences of lengths around 9-11, 49-51, 99-101 "
        "and random; non-trivial = distinct (sequence, history) with at least one update")
COLOURS = ['aqua', 'black', 'blue', 'fuchsia', 'gray', 'green', 'lime', 'maroon', 'navy', 'olive', 'orange', 'purple', 'red',
           'silver', 'teal', 'white', 'yellow']
BADCOL = ['grey', 'cyan', 'Red', 'BLUE', '', ' red', '#ff0000', 'pink', 'darkgreen']
SPAN = re.compile(r'( ?)((?:<br>)?)<span style="color:([^"]*)">(.)</span>')


def dtok(d):
    return ",".join("%s=%s" % (hex6(k), "n" if v is None else hex6(v)) for k, v in d.items()) or "-"


def rand_update(rng):
    d = {a: rng.choice(COLOURS) for a in gen.AAS}
    r = rng.random()
    kind = "valid"
    if r < 0.15:
        del d[rng.choice(gen.AAS)]
        kind = "missing"
    elif r < 0.3:
        d[rng.choice(gen.AAS)] = rng.choice(BADCOL)
        kind = "badcolour"
    elif r < 0.4:
        d[rng.choice(["B", "X", "a", "AA", "*"])] = rng.choice(COLOURS + BADCOL)
        kind = "extrakey"
    elif r < 0.45:
        d = {k.lower(): v for k, v in d.items()}
        kind = "lowerkeys"
    elif r < 0.5:
        d[rng.choice(gen.AAS)] = None
        kind = "nonstring"
    if rng.random() < 0.25 and kind in ("missing", "badcolour"):
        # a second, different defect in the same dictionary
        if kind == "missing":
            d[rng.choice([a for a in gen.AAS if a in d])] = rng.choice(BADCOL)
        else:
            del d[rng.choice([a for a in gen.AAS if a in d and d[a] in COLOURS])]
        kind = "missing+badcolour"
    items = list(d.items())
    if rng.random() < 0.7:
        rng.shuffle(items)          # the caller's insertion order is arbitrary (grouped by chemistry, reversed, ...)
    return dict(items), kind


def cases(rng, tier):
    # duplicates of objects with built-up state: every way of copying x every kind of state
    for l in core.copy_cases(rng, 2 if tier == "quick" else 12, ['html']):
        yield Case([l], {"kind": "duplicate-of-object"})
    # a shallow copy of the backend object: an accepted update on either one does not change how the other is rendered
    for _ in range(15 if tier == "quick" else 150):
        s = gen.rand_seq(rng, rng.choice(gen.KINDS), rng.randint(5, 30))
        d1, _k = rand_update(rng)
        d2, _k = rand_update(rng)
        first = ["setpal 1 " + dtok(d1)] if rng.random() < 0.5 else []
        yield Case(["new 1 " + s] + first + ["copyobj 2 1", "o 2 html", "setpal %d %s" % (rng.choice([1, 2]), dtok(d2)), "o 1 html", "o 2 html"], {"kind": "shallow-copy"})
    # a shuffle with EVERY position frozen hands back a new object holding the same sequence: it starts with the default palette, and
    # updates of either object leave the other's rendering alone (also for one-residue chains)
    for _ in range(15 if tier == "quick" else 150):
        s = gen.rand_seq(rng, rng.choice(gen.KINDS), rng.choice([1, 2, rng.randint(3, 30)]))
        d1, _k = rand_update(rng)
        d2, _k = rand_update(rng)
        first = ["setpal 1 " + dtok(d1)] if rng.random() < 0.7 else []
        yield Case(["new 1 " + s] + first + ["o 1 html", "shufall 2 1", "o 2 html", "setpal %d %s" % (rng.choice([1, 2]), dtok(d2)), "o 1 html", "o 2 html"], {"kind": "all-frozen-shuffle"})
    for c in interleaved_cases(rng, tier):
        yield c
    # objects handed back by the library's own moves / shuffles (also with frozen sets, also from a parent whose cache is warm)
    for l in core.childq_cases(rng, 90 if tier == "quick" else 600, ['html']):
        yield Case([l], {"kind": "object-from-move"})
    # chains beyond 1000 / 4096 / 8192 residues (lengths at and next to powers of two and round thousands)
    for L in ((1000, 1024, 1025, 2049, 4096, 4097, 4146, 5003) if tier == "quick" else (1000, 1001, 1024, 1025, 2048, 2049, 4096, 4097, 4100, 4146, 5003, 8192, 8193, 8250, 10001)):
        s = gen.rand_seq(rng, "idp", L)
        d, kind = rand_update(rng)
        yield Case(["new 1 " + s, "o 1 html", "setpal 1 " + dtok(d), "o 1 html"], {"kind": "very-long", "seq": s, "hist": [(d, kind)]})
    lens = [1, 2, 9, 10, 11, 12, 49, 50, 51, 52, 99, 100, 101, 149, 150, 151, 250]
    n = 150 if tier == "quick" else 1500
    for i in range(n):
        L = rng.choice(lens) if rng.random() < 0.6 else rng.randint(1, 320)
        s = gen.rand_seq(rng, rng.choice(gen.KINDS), L)
        lines = ["new 1 " + s, "o 1 html"]
        hist = []
        for _ in range(rng.randint(0, 6)):
            d, kind = rand_update(rng)
            hist.append((d, kind))
            lines.append("setpal 1 " + dtok(d) + (" @backend" if rng.random() < 0.3 else ""))
            lines.append("o 1 html")
        yield Case(lines, {"kind": "history-%d" % len(hist), "seq": s, "hist": hist}, nontrivial=len(hist) > 0)


def interleaved_cases(rng, tier):
    """two live objects; palette updates, read-only analyses and renderings interleaved on both - every rendering must use the
    palette of ITS object as it is then (compared with the model, which keeps one palette per object)"""
    for _ in range(60 if tier == "quick" else 500):
        s = gen.rand_seq(rng, rng.choice(gen.KINDS), rng.randint(5, 40))
        t = gen.rand_seq(rng, rng.choice(gen.KINDS), rng.randint(5, 40))
        lines = ["new 1 " + s, "new 2 " + t]
        for _k in range(rng.randint(2, 7)):
            o = rng.choice([1, 2])
            r = rng.random()
            if r < 0.45:
                d, _kind = rand_update(rng)
                lines.append("setpal %d %s" % (o, dtok(d)))
            elif r < 0.8:
                lines.append("o %d %s" % (o, rng.choice(["kappa", "omega", "dmax", "kappaX s000045,s000044 s00004b,s000052", "fcr", "scd", "delta", "region"])))
            lines.append("o %d html" % rng.choice([1, 2]))
        yield Case(lines, {"kind": "two-objects-interleaved"})


def check_html(seq, html, palette):
    if not (html.startswith('<p style="font-family:Courier;">') and html.endswith("</p>")):
        return "prefix/suffix"
    body = html[len('<p style="font-family:Courier;">'):-len("</p>")]
    pos = 0
    i = 0
    for m in SPAN.finditer(body):
        if m.start() != pos:
            return "unparsed text at %d" % pos
        pos = m.end()
        if i >= len(seq) or m.group(4) != seq[i]:
            return "residue %d" % i
        if (m.group(1) == " ") != (i % 10 == 0):
            return "space at residue %d" % i
        if (m.group(2) == "<br>") != (i % 50 == 0):
            return "<br> at residue %d" % i
        if m.group(3) != palette[seq[i]]:
            return "colour of residue %d: %s, palette says %s" % (i, m.group(3), palette[seq[i]])
        i += 1
    if pos != len(body) or i != len(seq):
        return "span count %d for %d residues" % (i, len(seq))
    if re.sub(r"<[^>]*>| ", "", html) != seq:
        return "stripping the markup does not recover the sequence"
    return None


DEFAULT = {'A': 'black', 'C': 'black', 'D': 'red', 'E': 'red', 'F': 'orange', 'G': 'green', 'H': 'green', 'I': 'black', 'K': 'blue',
           'L': 'black', 'M': 'black', 'N': 'green', 'P': 'fuchsia', 'Q': 'green', 'R': 'blue', 'S': 'green', 'T': 'green', 'V': 'black',
           'W': 'orange', 'Y': 'orange'}


def judge(case, reals, gens, specs):
    if case.block and case.block[0].startswith("childq "):
        if reals[0][0] != "childq":
            return [("violation", 0, "%s -> %s" % (case.block[0], str(reals[0])[:300]))]
        ok_c, why = core.judge_childq(reals[0])
        return [] if ok_c else [("violation", 0, why)]
    out = []
    for i, (r, g, s) in enumerate(zip(reals, gens, specs)):
        if not core.match(r, s)[0]:
            out.append(("violation", i, "real=%s spec=%s" % (str(r)[:200], s[:200])))
        elif not core.match(r, g)[0]:
            out.append(("tie", i, "real=%s model@gen=%s" % (str(r)[:200], g[:200])))
    seq = case.tags.get("seq")
    if seq:
        pal = dict(DEFAULT)
        k = -1
        for i, line in enumerate(case.block):
            if line.startswith("setpal"):
                k += 1
                d, kind = case.tags["hist"][k]
                valid = all(a in d and d[a] in COLOURS for a in gen.AAS)
                if valid != (reals[i][0] != "exc"):
                    out.append(("violation", i, "palette update (%s) %s" % (kind, "rejected although valid" if valid else "accepted although invalid")))
                if valid:
                    pal = {a: d[a] for a in gen.AAS}
            elif line.endswith("html"):
                if reals[i][0] != "str":
                    out.append(("violation", i, "get_HTMLColorString -> %r" % (reals[i],)))
                else:
                    err = check_html(seq, reals[i][1], pal)
                    if err:
                        out.append(("violation", i, "HTML structure: " + err))
    return out
