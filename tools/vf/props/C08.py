"""C08 — diagram-of-states region is total and follows the FCR/NCPR thresholds"""
from ..runner import Case
from .. import gen, core

ID = "C08"
STATEFUL = True     # some blocks keep a live object across lines
LEAN_TARGETS = ["Cider.Props.C08"]
# source-text tie (translated on every run by tools/pyexpr2lean.py); skipped when the function no longer fits the translator
OPTIONAL_TARGETS = ["Cider.Props.C08Src"]
OPTIONAL_THEOREMS = {"Cider.Props.C08Src": ['Cider.C08Src.phasePlotRegion_eq']}
P = "Cider.C08."
THEOREMS = [P + t for t in ("regionCode_xy", "regionDef_xy", "region_total_and_spec", "region_in_1_5", "region_spec_cases", "region_4_5",
                            "region_factors_through_counts")]
RULE = ("each case = one triple (n+, n-, N) realised as an actual sequence (random same-class spellings, random arrangement); "
        "get_phasePlotRegion of a fresh object vs the cascade model and vs the exact-threshold spec (both in the Lean driver); "
        "exceptions are outcomes; every triple with N <= 40 (quick) / 120 (thorough); non-trivial = distinct triple with at least "
        "one charged residue")
EXHAUSTIVE = {"quick": "every (n+, n-, N) with n+ + n- <= N <= 40", "thorough": "every (n+, n-, N) with n+ + n- <= N <= 120"}


def cases(rng, tier):
    # duplicates of objects with built-up state: every way of copying x every kind of state
    for l in core.copy_cases(rng, 2 if tier == "quick" else 12, ['region']):
        yield Case([l], {"kind": "duplicate-of-object"})
    # the same query several times in a row on one object
    for c in gen.repeated_call_cases(rng, 8 if tier == "quick" else 60, ['region'], gen.CLAMP_BAND[:8] if False else ()):
        yield c
    from ..real import hex6 as _hex6
    for raw in ("KKKKKKKKKK", "DATA", "README", "LICENSE", "KKEGGGGGGG", "EEEEEEEEGG"):
        yield Case(["mkcwd %s region" % _hex6(raw), "mkcwd %s specregion" % _hex6(raw)], {"kind": "namesake-file-in-cwd"})
    # chains beyond 1000 residues: lengths at / next to powers of two and round thousands with compositions spread over the diagram, and
    # arbitrary lengths (primes included) with the charged count / the net charge on either side of N/4 and 7N/20
    for N4 in gen.boundary_lengths(True) + [8192, 12288]:
        for _k in range(2 if tier == "quick" else 8):
            fcr = rng.choice([0.1, 0.15, 0.2, 0.29, 0.3, 0.4, 0.6, 0.9])
            c = int(N4 * fcr)
            a = rng.choice([c // 2, c // 2 + int(0.1 * N4), c, 0, int(c * 0.52)])
            a = max(0, min(c, a))
            sq = gen.spell(gen.arrange((a, c - a, N4 - c), rng), rng)
            yield Case(["q region " + sq, "q specregion " + sq], {"kind": "boundary-length"})
    for _k in range(60 if tier == "quick" else 600):
        N5 = rng.choice([1009, 1013, 1983, 1997, 2017, 2999, 3001, 4999]) if rng.random() < 0.5 else rng.randint(1001, 5000)
        if _k % 6 == 0:
            N5 = rng.choice([14257, 20017, 30011, 50021])       # one residue is a relative step of 2-7e-5 here
        num, den = rng.choice([(1, 4), (7, 20)])
        c = N5 * num // den + rng.choice([0, 1])
        if rng.random() < 0.5:
            a = rng.choice([0, c, c // 2, c // 3])                       # charged count next to the threshold
            comp = (a, c - a, N5 - c)
        else:
            b = rng.randint(0, (N5 - c) // 2)                           # net charge next to 7N/20 (or N/4), in both signs
            comp = (b + c, b, N5 - c - 2 * b) if rng.random() < 0.5 else (b, b + c, N5 - c - 2 * b)
        sq = gen.spell(gen.arrange(comp, rng), rng)
        yield Case(["q region " + sq, "q specregion " + sq], {"kind": "long-chain-next-to-threshold"})
    # backend objects built directly from lower / mixed case text (the backend upper-cases on its own)
    for comp in [(5, 0, 15), (8, 1, 11), (1, 8, 11), (6, 6, 8), (3, 2, 15), (0, 0, 9), (10, 0, 0), (0, 10, 0), (5, 5, 0)] + [(rng.randint(0, 9), rng.randint(0, 9), rng.randint(1, 20)) for _ in range(10 if tier == "quick" else 100)]:
        sq = gen.spell(gen.arrange(comp, rng), rng)
        raw = "".join(c.lower() if rng.random() < 0.7 else c for c in sq)
        yield Case(["backendq %s region" % _hex6(raw), "backendq %s specregion" % _hex6(raw)], {"kind": "backend-object-from-mixed-case"})
    # very long chains (> 1000 residues, lengths that are not round numbers)
    for sq in gen.very_long(rng, tier != "quick"):
        yield Case(["q %s %s%s" % (q.split(" ")[0], sq, "".join(" " + a for a in q.split(" ")[1:])) for q in ['region']], {"kind": "very-long"})
    # objects handed back by moves / shuffles, and copy / deepcopy / pickle duplicates of objects with built-up state
    for l in core.childq_cases(rng, 60 if tier == "quick" else 400, ['region']):
        yield Case([l], {"kind": "object-from-move-or-copy"})
    # objects built from sequence files (two per block)
    for c in gen.file_cases(rng, 12 if tier == "quick" else 100, ['region']):
        yield c
    # the property's own queries AFTER other public calls on the same object (same answers as on a fresh one)
    for c in gen.after_calls_cases(rng, 16 if tier == "quick" else 120, ['region']):
        yield c
    N = 40 if tier == "quick" else 120
    for comp in gen.compositions(N):
        pat = gen.arrange(comp, rng)
        s = gen.spell(pat, rng)
        yield Case(["q region " + s, "q specregion " + s], {"kind": "exhaustive-composition"}, nontrivial=(comp[0] + comp[1] > 0))
    # raw constructor arguments with white space (blocks of ten, line breaks, tabs): same answers as the normalised word
    for kind, s in gen.rand_seqs(rng, 40 if tier == "quick" else 400, 60):
        yield Case(gen.ws_lines(["q region " + s, "q specregion " + s], rng), {"kind": "whitespace-input"})
    for comp in [(5, 0, 15), (8, 1, 11), (1, 8, 11), (15, 0, 25), (0, 15, 25), (7, 0, 13), (3, 2, 15)]:
        s = gen.spell(gen.arrange(comp, rng), rng)
        for k in range(6):
            for raw in [gen.ws_layouts(s, rng)[k]]:
                from ..real import hex6
                yield Case(["mkq %s region" % hex6(raw), "mkq %s specregion" % hex6(raw)], {"kind": "whitespace-input-boundary"})
    # long sequences with > 127 / > 255 charged or neutral residues, net charge beyond +-127, length > 256
    for s in gen.large_regime():
        yield Case(["q region " + s, "q specregion " + s], {"kind": "large-regime"})
    # medium lengths where 7N/20 and N/4 are integers: EVERY split on the FCR boundaries and on the |NCPR| = 7/20 boundary
    for N3 in ((120, 140, 180) if tier == "quick" else (100, 120, 140, 160, 180, 240, 280, 340, 360)):
        for c in (N3 // 4, 7 * N3 // 20):
            for a in range(0, c + 1, 1 if tier != "quick" else 3):
                sq = gen.spell(gen.arrange((a, c - a, N3 - c), rng), rng)
                yield Case(["q region " + sq, "q specregion " + sq], {"kind": "boundary-every-split"})
        d = 7 * N3 // 20
        for b in range(0, (N3 - d) // 2 + 1, 1 if tier != "quick" else 2):
            for comp in ((b + d, b, N3 - d - 2 * b), (b, b + d, N3 - d - 2 * b)):
                sq = gen.spell(gen.arrange(comp, rng), rng)
                yield Case(["q region " + sq, "q specregion " + sq], {"kind": "boundary-every-split"})
    # boundary-targeted: FCR / NCPR exactly on 1/4, 7/20 for larger N
    for N2 in (60, 100, 200, 400, 1000):
        for k in (N2 // 4, N2 * 7 // 20):
            for dk in (-1, 0, 1):
                c = k + dk
                if 0 <= c <= N2:
                    for a in {0, c, c // 2, (c + 1) // 2 + 1 if c > 2 else 0}:
                        if 0 <= a <= c:
                            pat = gen.arrange((a, c - a, N2 - c), rng)
                            s = gen.spell(pat, rng)
                            yield Case(["q region " + s, "q specregion " + s], {"kind": "boundary"})
