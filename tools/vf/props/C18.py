"""C18 — Wang-Landau run obeys the WL update rule and its outputs are self-consistent"""
import math, struct
from fractions import Fraction
from ..runner import Case
from .. import gen, core

ID = "C18"
OPT_MODE = False     # (moves / WL runs / plots are not re-run under python -O)
LEAN_TARGETS = ["Cider.Props.C18", "Cider.Props.C18Bin"]
# source-text tie (translated on every run by tools/pyexpr2lean.py); skipped when the function no longer fits the translator
OPTIONAL_TARGETS = ["Cider.Props.C18Src"]
OPTIONAL_THEOREMS = {"Cider.Props.C18Src": ['Cider.C18Src.insideRelevant_eq']}
P = "Cider.C18."
THEOREMS = [P + t for t in (
    "never_moves_outside", "stays_inside", "accept_rule", "counted_step_update", "H_sum", "flat_rule", "flat_only_at_schedule",
    "isFlat_iff", "stop_rule", "g_bookkeeping", "g_bookkeeping_flat", "bin_centres",
    # argmin |bincts - kappa| is the bin that contains kappa; an aligned request is tiled exactly (Props/C18Bin.lean)
    "argmin_fold", "binOf_nearest", "binOf_contains", "binCandidates_centre", "wlConfig_aligned", "moved_implies_kappa_in_range")]
RULE = ("each case = one short seeded Wang-Landau run (sequence 8..14 residues, 3..6 bins, range inside [0,1], flat-check period "
        "40..200, flatness criterion 1/8..1/2, convergence e^(1/8..1/2), capped at 1500 steps through the guarded hook; plus runs with the flat check 6000 steps away, capped at 2600 steps, whose g passes 710 where exp(g) overflows) with a recording "
        "RNG; the per-step trace written by the hook is checked (oracle 1, no model): every proposal is a rearrangement of the input whose "
        "recorded kappa is its true kappa (exact model value) and whose bin is argmin|centre-kappa|; the state never moves to an "
        "out-of-range bin; an in-range proposal is accepted iff r < min(1, exp(g_old-g_new)) with r read from the RNG tape; g / H of the "
        "occupied bin grow by ln f / 1 on counted steps only; f -> sqrt(f) and H -> 0 exactly when all range bins reach the criterion at "
        "a scheduled check; the loop stops when f <= convergence; returned array, DOS.txt, DOS_local.txt, hlog, glog, seqlog, "
        "histogram_bins agree with the trace. oracle 2: the trace's proposals are replayed through the Lean state machine and must give "
        "the same (accepted, bin, g, H, f exponent, nstep, niter) at every step; non-trivial = distinct run with >= 1 flat check")
TRUSTED = ["the guarded trace hook in run_normal_WL (add-only)", "recording RNG: acceptance draws are read from the tape of the WL-level generator",
           "Float exp in the driver for the acceptance threshold; ln f modelled as exactly 2^-k"]


def cases(rng, tier):
    n = 24 if tier == "quick" else 160
    for i in range(n):
        L = rng.randint(8, 14)
        kind = rng.choice(["polyampholyte", "idp", "polyampholyte", "blocky"])
        s = gen.rand_seq(rng, kind, L)
        if sum(c in "KR" for c in s) < 2 or sum(c in "DE" for c in s) < 2:
            s = s[:L - 4] + "KEKE"
        nb = rng.randint(3, 6)
        lo = rng.choice([Fraction(0), Fraction(1, 10), Fraction(1, 5)])
        hi = rng.choice([Fraction(1), Fraction(4, 5), Fraction(3, 5)])
        fc = rng.choice([40, 60, 100, 200])
        crit = rng.choice([Fraction(1, 8), Fraction(1, 4), Fraction(1, 2)])
        conv = rng.choice([Fraction(1, 8), Fraction(1, 4), Fraction(1, 2)]) + Fraction(1, 1000)
        fr = "-" if rng.random() < 0.7 else ",".join(map(str, sorted(rng.sample(range(L), rng.randint(1, 3)))))
        yield Case(["wlrun %s %d %s %s %d %s %s %d %d %s" % (s, nb, lo, hi, fc, crit, conv, rng.randint(0, 10 ** 6), 1500, fr)],
                   {"kind": "run"})
    # tiny flat-check periods and few bins: histograms sit EXACTLY on the flatness criterion at many scheduled checks
    for i in range(16 if tier == "quick" else 100):
        s = gen.rand_seq(rng, "polyampholyte", rng.randint(8, 12))
        if sum(c in "KR" for c in s) < 2 or sum(c in "DE" for c in s) < 2:
            s = s[:-4] + "KEKE"
        nb = rng.choice([2, 4])
        fc = rng.choice([4, 8])
        crit = rng.choice([Fraction(1, 2), Fraction(3, 4)])
        yield Case(["wlrun %s %d 0 1 %d %s 1/100 %d 1500 -" % (s, nb, fc, crit, rng.randint(0, 10 ** 6))], {"kind": "tiny-flatcheck"})
    # a long first iteration at f = e (flat check far away, 2-3 bins): g grows past 710, where exp(g) itself overflows a double -
    # the acceptance rule must still be min(1, exp(g_old - g_new))
    for i in range(2 if tier == "quick" else 8):
        s = rng.choice(["EKEKGGEKRDGG", "GEKGDKGEKG", "KEKEGGDRKE"])
        nb = rng.choice([2, 3])
        yield Case(["wlrun %s %d 0 1 6000 1/4 501/1000 %d 2600 -" % (s, nb, rng.randint(0, 10 ** 6))], {"kind": "long-first-iteration"})
    # ... and with more bins, where some in-range bin is proposed for the first time after the occupied bin's g has passed 710
    for i in range(3 if tier == "quick" else 10):
        s = rng.choice(["EKEKAGSGDRDR", "EKEKGGEKRDGG", "KEKEGGDRKEAG"])
        yield Case(["wlrun %s %d 0 1 9000 1/4 501/1000 %d 2600 -" % (s, rng.choice([5, 6, 8]), rng.randint(0, 10 ** 6))], {"kind": "long-first-iteration-many-bins"})
    # scripted proposals: the occupied bin is proposed 720-900 times (g passes 710 there), then an in-range bin that was never visited
    # (g_old - g_new > 709.78: exp() of it overflows a double; the acceptance probability is 1), then back and forth
    for low, mid in (("EKEKAGSGDRDR", "EEDDAGSGKKRR"), ("EKEKAGSGDRDR", "DDEEAGSGRRKK"), ("KEKEGGDRKEAG", "KKKGGEEEDRAG")):
        n1 = rng.randint(720, 900)
        for nb in ((4, 5) if tier == "quick" else (3, 4, 5, 8)):
            yield Case(["wlrun %s %d 0 1 9000 1/4 501/1000 %d %d - script:%s*%d,%s*2,%s*3,%s*1" % (low, nb, rng.randint(0, 10 ** 6), n1 + 40, low, n1, mid, low, mid)],
                       {"kind": "scripted-proposals-large-g-difference"})
    # a flat check after EVERY step with a strict criterion: dozens of unsuccessful scheduled checks before the first iteration ends
    for i in range(3 if tier == "quick" else 12):
        s = rng.choice(["EKEKEKRDQGSA", "EKEKGGEKRDGG", "KEKEGGDRKEAG"])
        yield Case(["wlrun %s 4 0 1 %d 4/5 301/1000 %d 600 -" % (s, rng.choice([1, 2]), rng.randint(0, 10 ** 6))], {"kind": "flat-check-every-step"})
    # two bins, criterion 4/5, a check every 5 / 7 steps: histograms such as 14/21, 28/42 sit EXACTLY on the criterion (binary mean)
    for i in range(6 if tier == "quick" else 30):
        s = rng.choice(["EKEKEKRDQGSA", "EKEKGGEKRDGG", "KEKEGGDRKEAG", "EKEKAGSGDRDR"])
        yield Case(["wlrun %s 2 0 1 %d 4/5 251/1000 %d 900 -" % (s, rng.choice([5, 7, 35]), rng.randint(0, 10 ** 6))], {"kind": "exact-flatness-ties"})
    # ... many very short ones (the first checks at 35 / 70 steps are where 14/21, 28/42 happen)
    for i in range(60 if tier == "quick" else 400):
        s = rng.choice(["EKEKEKRDQGSA", "EKEKGGEKRDGG", "KEKEGGDRKEAG", "EKEKAGSGDRDR"])
        yield Case(["wlrun %s 2 0 1 %d 4/5 251/1000 %d 75 -" % (s, rng.choice([35, 35, 5, 7]), rng.randint(0, 10 ** 6))], {"kind": "exact-flatness-ties-short"})
    # a convergence threshold the initial f = e already meets (no step may be counted), and thresholds just below e (one iteration)
    for i in range(6 if tier == "quick" else 30):
        s = rng.choice(["EKEKEKRDQGSA", "EKEKGGEKRDGG", "KEKEGGDRKE"])
        conv = [Fraction(1001, 1000), Fraction(2), Fraction(3), Fraction(11, 10), Fraction(999, 1000), Fraction(3, 4)][i % 6]
        yield Case(["wlrun %s %d 0 1 %d 1/4 %s %d 400 -" % (s, rng.choice([2, 3, 4]), rng.choice([5, 30]), conv, rng.randint(0, 10 ** 6))], {"kind": "threshold-at-or-above-initial-f"})
    # flatness criterion 0 (fixed-length stages) with more bins than steps between checks: some bin is still empty at a scheduled check
    for i in range(6 if tier == "quick" else 30):
        s = rng.choice(["EKEKEKRDQGSA", "EKEKGGEKRDGG", "KEKEGGDRKEAG", "EKEKAGSGDRDR"])
        nb = rng.choice([3, 5, 6])
        yield Case(["wlrun %s %d 0 1 %d 0 %s %d 300 -%s" % (s, nb, rng.randint(1, nb - 1), rng.choice(["126/1000", "251/1000"]), rng.randint(0, 10 ** 6), " @wrapper" if i % 2 else "")], {"kind": "criterion-zero-empty-bins"})
    # the machine built by the public route SequencePermutants(...).initializeWangLandauParameters(...): same rules, every argument forwarded
    for i in range(8 if tier == "quick" else 40):
        s = rng.choice(["EKEKEKRDQGSA", "EKEKGGEKRDGG", "KEKEGGDRKEAG", "EKEKAGSGDRDR"])
        nb = rng.choice([2, 3, 4, 5])
        lo, hi = rng.choice([("0", "1"), ("0", "1"), ("1/5", "4/5"), ("2/5", "1")])
        fr = "-" if rng.random() < 0.6 else ",".join(map(str, sorted(rng.sample(range(len(s)), 2))))
        yield Case(["wlrun %s %d %s %s %d %s %s %d 400 %s @wrapper" % (s, nb, lo, hi, rng.choice([5, 20, 40]), rng.choice(["0", "1/4", "1/2", "3/4"]),
                                                                    rng.choice(["501/1000", "251/1000", "1001/1000"]), rng.randint(0, 10 ** 6), fr)], {"kind": "wrapper-route"})
    # convergence thresholds that f reaches EXACTLY (e^(1/2), e^(1/4), e^(1/8)): the run stops when f is AT MOST the threshold
    for i in range(6 if tier == "quick" else 30):
        s = rng.choice(["EKEKEKRDQGSA", "EKEKGGEKRDGG", "KEKEGGDRKE"])
        yield Case(["wlrun %s %d 0 1 %d 1/4 %s %d 900 -" % (s, rng.choice([2, 3]), rng.choice([10, 30]), ["1/2", "1/4", "1/8"][i % 3], rng.randint(0, 10 ** 6))], {"kind": "threshold-equal-to-a-value-of-f"})
    # the SECOND run() on one machine obeys the same rules from the same initial state
    for i in range(3 if tier == "quick" else 12):
        s = rng.choice(["EKEKEKRDQGSA", "EKEKGGEKRDGG", "KEKEGGDRKE"])
        nb = rng.choice([2, 3, 4])
        yield Case(["wlrun %s %d 0 1 %d 1/4 501/1000 %d 400 - second" % (s, nb, rng.choice([30, 50]), rng.randint(0, 10 ** 6))], {"kind": "second-run-same-machine"})
    # sub-range requests whose bin width is a decimal fraction (1/width is not exactly representable)
    for lo, hi, nb in ((Fraction(1, 2), Fraction(4, 5), 3), (Fraction(1, 10), Fraction(2, 5), 3), (Fraction(3, 5), Fraction(9, 10), 3),
                       (Fraction(7, 10), Fraction(1), 3), (Fraction(1, 5), Fraction(4, 5), 6), (Fraction(3, 10), Fraction(9, 10), 6),
                       (Fraction(0), Fraction(3, 10), 3), (Fraction(2, 5), Fraction(7, 10), 3), (Fraction(1, 10), Fraction(1), 4),
                       (Fraction(0), Fraction(1), 7), (Fraction(1, 4), Fraction(3, 4), 5)):
        s = gen.rand_seq(rng, "polyampholyte", 10)[:6] + "KEKE"
        yield Case(["wlrun %s %d %s %s 50 1/4 501/1000 %d 300 -" % (s, nb, lo, hi, rng.randint(0, 10 ** 6))], {"kind": "sub-range"})


def fbits(x):
    return struct.unpack("<Q", struct.pack("<d", x))[0]


def judge(case, reals, gens, specs):
    out = []
    r = reals[0]
    if r[0] != "wl":
        out.append(("violation", 0, "%s -> %r" % (case.block[0], str(r)[:300])))
        return out
    d = r[1]
    cfg, trace, tape = d["cfg"], d["trace"], d["tape"]
    n = cfg["nbins_actual"]
    bincts = cfg["bincts"]

    def bad(msg):
        out.append(("violation", 0, msg + "  [" + case.block[0] + "]"))
    # the constructor's grid and relevant range vs the exact model of the same arithmetic
    tk = case.block[0].split(" ")
    mc = core.run_driver(["wlcfg %s %s %s" % (tk[3], tk[4], tk[2])], "spec")[0].split(" ")
    inv_width = Fraction(int(tk[2])) / (Fraction(tk[4]) - Fraction(tk[3]))
    if inv_width.denominator == 2:
        case.tags["near_threshold"] = True      # 1/width is exactly k + 1/2: the float quotient may fall on either side
    elif int(mc[1]) != n or cfg["rmin"] not in [int(x) for x in mc[2:]] or cfg["rmax"] != cfg["rmin"] + cfg["ntarget"] - 1:
        bad("grid: the machine uses %d bins with relevant range %d..%d; round(1/width) and argmin give %s" % (n, cfg["rmin"], cfg["rmax"], " ".join(mc[1:])))
    # bin centres
    for i, c in enumerate(bincts):
        if abs(c - (2 * i + 1) / (2.0 * n)) > 1e-12:
            bad("bin centre %d is %r, not the midpoint %r" % (i, c, (2 * i + 1) / (2.0 * n)))
    # acceptance draws from the tape: WL-level random() calls are the ('random', x) entries NOT issued by the moves;
    # the moves only log 'random' from permute_cluster_charges; identify by order: first WL draw = r_move of step 0
    wl_draws = []
    ti = 0
    for st in trace:
        # find r_move
        while ti < len(tape) and not (tape[ti][0] == "random" and tape[ti][1] == st["r_move"]):
            ti += 1
        ti += 1
        # next 'random' entries belong to the move (cluster) until the acceptance draw: the acceptance draw is the LAST
        # random before the next step's r_move; collect lazily below
        wl_draws.append(ti)
    racc = []
    for k, st in enumerate(trace):
        end = (wl_draws[k + 1] - 1) if k + 1 < len(trace) else len(tape)
        seg = [t for t in tape[wl_draws[k]:end] if t[0] == "random"]
        racc.append(seg[-1][1] if seg else None)
    seqs = sorted(set(st["nseq"] for st in trace) | {d["start"][0]})
    kap = dict(zip(seqs, core.run_driver_parallel(["q kappa " + s for s in seqs], "spec")))
    lnf_exp = 0
    cur = d["start"][2]
    g = [0.0] * n
    H = [0] * n
    niter = 0
    nstep = 0
    srt = sorted(d["seq"])
    lines = ["wlinit %d %d %d %d %d %s %s %d" % (n, cfg["rmin"], cfg["rmax"], cfg["ntarget"], cfg["nflatchk"],
                                                   Fraction(tk[6]), Fraction(math.log(cfg["convergence"])).limit_denominator(10 ** 9), cur)]
    for k, st in enumerate(trace):
        lnf = 2.0 ** (-lnf_exp)
        if abs(st["f"] - math.exp(lnf)) > 1e-9:
            bad("step %d: f=%r but sqrt schedule gives %r" % (k, st["f"], math.exp(lnf)))
        if st["f"] <= cfg["convergence"]:          # (both are the machine's own doubles: the loop condition is f > convergence)
            bad("step %d was taken although f=%r is already at most the convergence threshold %r" % (k, st["f"], cfg["convergence"]))
        if sorted(st["nseq"]) != srt:
            bad("step %d: proposal %s is not a rearrangement of the input" % (k, st["nseq"]))
        kq = core.parse_rat(kap[st["nseq"]].split(" ")[1])
        if not core.close(st["knew"], kq):
            bad("step %d: recorded kappa %r of %s is not its true kappa %s" % (k, st["knew"], st["nseq"], kq))
        exp_bin = min(range(n), key=lambda i: (abs(bincts[i] - st["knew"]), i))
        if st["idx_new"] != exp_bin:
            bad("step %d: bin %d for kappa %r, argmin gives %d" % (k, st["idx_new"], st["knew"], exp_bin))
        if st["idx_old"] != cur:
            bad("step %d: occupied bin %d, expected %d" % (k, st["idx_old"], cur))
        inside = cfg["rmin"] <= st["idx_new"] <= cfg["rmax"]
        if st["skip"] != (not inside):
            bad("step %d: skip flag %r for bin %d with range %d..%d" % (k, st["skip"], st["idx_new"], cfg["rmin"], cfg["rmax"]))
        ra = racc[k]
        if inside:
            ap = 1.0 if g[cur] - g[st["idx_new"]] >= 0 else math.exp(g[cur] - g[st["idx_new"]])
            if abs(st["acceptProb"] - ap) > 1e-9:
                bad("step %d: acceptProb %r, min(1,exp(g_old-g_new)) = %r" % (k, st["acceptProb"], ap))
            if ra is not None and abs(ra - ap) > 1e-12 and st["accepted"] != (ra < ap):
                bad("step %d: accepted=%r with r=%r and acceptance probability %r" % (k, st["accepted"], ra, ap))
        else:
            if st["accepted"]:
                bad("step %d: moved to bin %d outside the range" % (k, st["idx_new"]))
        if st["accepted"]:
            cur = st["idx_new"]
            if st["cur_seq"] != st["nseq"]:
                bad("step %d: accepted but the current sequence is %s, not the proposal" % (k, st["cur_seq"]))
        if st["cur_idx"] != cur:
            bad("step %d: occupied bin after the step is %d, expected %d" % (k, st["cur_idx"], cur))
        if inside:
            g[cur] += lnf
            H[cur] += 1
        if any(abs(a - b) > 1e-9 for a, b in zip(st["g_after"], g)) or st["H_after"] != H:
            bad("step %d: g/H after the step %r %r, expected %r %r" % (k, st["g_after"], st["H_after"], g, H))
            g = list(st["g_after"])
            H = list(st["H_after"])
        nstep += 1
        sched = (nstep % cfg["nflatchk"] == 0)
        if bool(st.get("flatcheck")) != sched:
            bad("step %d: flat check %s at nstep %d with period %d" % (k, "ran" if st.get("flatcheck") else "missing", nstep, cfg["nflatchk"]))
        if st.get("flatcheck"):
            hl = H[cfg["rmin"]:cfg["rmax"] + 1]
            tot = sum(hl)
            # the criterion as the caller gave it (exact), not the binary fraction the float happens to be
            crit = Fraction(tk[6])
            flat = tot > 0 and len(hl) == cfg["ntarget"] and all(Fraction(h) * len(hl) >= crit * tot for h in hl)
            did = st["niter_after"] == niter + 1
            tie = tot > 0 and any(h > 0 and Fraction(h) * len(hl) == crit * tot for h in hl)      # (0 / mean is exactly 0.0: no rounding there)
            mean_q = Fraction(tot, len(hl)) if hl else Fraction(0)
            if tie and (mean_q.denominator & (mean_q.denominator - 1)) != 0:
                # a bin sits EXACTLY on the criterion and the mean is not a binary fraction: the float quotient H/mean may fall on either side
                case.tags["near_threshold"] = True
                flat = did
            if did != flat:
                bad("step %d: histogram %r (criterion %r) -> iteration %s" % (k, hl, cfg["flatcrit"], "advanced" if did else "not advanced"))
            if did:
                niter += 1
                lnf_exp += 1
                H = [0] * n
                if st["H_reset"] != H:
                    bad("step %d: histogram not reset: %r" % (k, st["H_reset"]))
                if abs(st["f_after"] - math.exp(2.0 ** (-lnf_exp))) > 1e-9:
                    bad("step %d: f after flat check %r, expected sqrt" % (k, st["f_after"]))
            nstep = 0
        # model replay
        lines.append("wlstep %d %d" % (st["idx_new"], fbits(ra if ra is not None else 2.0)))
    # every proposal the run asked a move for is one judged step (none dropped before the bookkeeping)
    if not d.get("scripted") and "proposals" in d:
        props_ = d["proposals"]
        got = [st["nseq"] for st in trace]
        if props_[:len(got)] != got or len(props_) > len(got) + 1:
            k_ = next((i for i, (a_, b_) in enumerate(zip(props_, got)) if a_ != b_), min(len(props_), len(got)))
            bad("proposal %d (%s) has no step in the run's bookkeeping: %d proposals made, %d steps recorded" % (k_, props_[k_] if k_ < len(props_) else "?", len(props_), len(got)))
    # stop rule
    capped = len(trace) >= int(tk[9])
    f_last = math.exp(1.0)
    for st in trace:
        f_last = st["f_after"] if (st.get("flatcheck") and "f_after" in st and st.get("niter_after", st.get("niter")) != st.get("niter")) else st["f"]
    still = f_last > cfg["convergence"]
    if not capped and still:
        bad("the loop stopped although f=%r > convergence=%r" % (f_last, cfg["convergence"]))
    # outputs
    ret = d["ret"]
    if any(abs(a - b) > 1e-12 for a, b in zip(ret[0], bincts)) or any(abs(a - b) > 1e-9 for a, b in zip(ret[1], g)):
        bad("returned array %r does not match bin centres / final g %r" % (ret, g))
    dos = [l.split("\t") for l in d["files"].get("DOS.txt", "").strip().split("\n")[1:]]
    if len(dos) != n or any(abs(float(a) - bincts[i]) > 6e-4 or abs(float(b) - g[i]) > 6e-7 for i, (a, b) in enumerate(dos)):
        bad("DOS.txt %r does not match final g %r" % (dos, g))
    dl = [l.split("\t") for l in d["files"].get("DOS_local.txt", "").strip().split("\n")[1:]]
    rng_ = list(range(cfg["rmin"], cfg["rmax"] + 1))
    if len(dl) != len(rng_) or any(abs(float(b) - g[i]) > 6e-7 for i, (a, b) in zip(rng_, dl)):
        bad("DOS_local.txt %r does not match final g over the range" % (dl,))
    try:
        for line in d["files"].get("seqlog.txt", "").strip().split("\n")[1:]:
            kx, sx = line.split("\t")
            o = core.run_driver(["q kappa " + sx], "spec")[0]
            if abs(float(kx) - float(core.parse_rat(o.split(" ")[1]))) > 6e-4 or sorted(sx) != srt:
                bad("seqlog line %r: kappa of that sequence is %s" % (line, o))
        # the iteration logs describe THIS run only: per-iteration g increments = ln f x the final histogram of that iteration
        grows = [[float(x) for x in l.split("\t")[1:] if x.strip()] for l in d["files"].get("glog.txt", "").strip().split("\n")[1:] if l.strip()]
        hfinal, cur_h = [], None
        for l in d["files"].get("hlog.txt", "").strip().split("\n")[1:]:
            if l.startswith("iter"):
                if cur_h is not None:
                    hfinal.append(cur_h)
                cur_h = None
            elif l.strip():
                cur_h = [float(x) for x in l.split("\t")[1:] if x.strip()]
        if cur_h is not None:
            hfinal.append(cur_h)
        if len(grows) != niter or len(hfinal) < niter:
            bad("glog.txt has %d iterations, hlog.txt %d; the run completed %d" % (len(grows), len(hfinal), niter))
        prev = [0.0] * n
        for k_, (gr, hf) in enumerate(zip(grows, hfinal)):
            lnf_k = 2.0 ** (-k_)
            inc = [a - b for a, b in zip(gr, prev)]
            if len(gr) != n or len(hf) != len(rng_) or any(abs(inc[i] - lnf_k * h) > 1e-3 for i, h in zip(rng_, hf)) or \
                    any(abs(inc[i]) > 1e-3 for i in range(n) if i not in rng_):
                bad("iteration %d: g increment %r is not ln f (=%g) x final histogram %r" % (k_ + 1, [round(a - b, 4) for a, b in zip(gr, prev)], lnf_k, hf))
                break
            prev = gr
        hb = [float(x) for x in d["files"].get("histogram_bins.txt", "").split()]
        exp_hb = list(bincts) + [bincts[i] for i in rng_]
        if len(hb) != len(exp_hb) or any(abs(a - b) > 6e-5 for a, b in zip(hb, exp_hb)):
            bad("histogram_bins.txt lists %r, the run's centres are %r" % (hb[:12], [round(x, 4) for x in exp_hb]))
    except (ValueError, IndexError) as e:
        bad("output logs cannot be read as the logs of one run: %r" % (e,))
    # oracle 2: the Lean state machine
    for mode in ("spec",):
        res = core.run_driver(lines, mode)
        for k, (st, o) in enumerate(zip(trace, res[1:])):
            t = o.split(" ")
            exp_g = core.parse_rat(t[4])
            ok = (int(t[2]) == int(st["accepted"]) and int(t[3]) == st["cur_idx"] and core.close(st["g_after"][st["cur_idx"]], exp_g)
                  and int(t[5]) == (st["H_reset"][st["cur_idx"]] if st.get("flatcheck") else st["H_after"][st["cur_idx"]])
                  and int(t[8]) == (st["niter_after"] if st.get("flatcheck") else st["niter"]))
            if not ok:
                if racc[k] is not None and abs(racc[k] - st["acceptProb"]) < 1e-12:
                    break
                if case.tags.get("near_threshold"):
                    break       # (a flat check sat exactly on the criterion with a non-binary mean: the exact model and the float code may part there)
                bad("step %d: Lean state machine gives %s but the trace has accepted=%r bin=%d g=%r H=%r" % (
                    k, o, st["accepted"], st["cur_idx"], st["g_after"][st["cur_idx"]], st["H_after"][st["cur_idx"]]))
                break
    case.tags["steps"] = len(trace)
    case.tags["flatchecks"] = sum(1 for st in trace if st.get("flatcheck"))
    case.tags["iterations"] = niter
    return out


def known_match(case, idx, reals, specs, listed, detail=""):
    return None
