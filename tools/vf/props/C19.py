"""C19 — plots place sequences at true coordinates in the regions that classify them"""
import json
from ..runner import Case
from .. import gen, core
from ..real import hex6

ID = "C19"
OPT_MODE = False     # (moves / WL runs / plots are not re-run under python -O)
LEAN_TARGETS = ["Cider.Props.C19", "Cider.Props.C19Tie"]
P = "Cider.C19."
THEOREMS = [P + t for t in (
    "region_in_polygon", "interior_polygon_region", "polygons_cover_simplex", "regionDef_eq_regionXY", "uversky_polygons_cover",
    "gen_polygons_eq_published")]
RULE = ("each case = one call of a plotting entry point (SequenceParameters.show/save_phaseDiagramPlot, show/save_uverskyPlot, "
        "show/save_linearNCPR/FCR/Sigma/Hydropathy, show/save_linearComplexity; plots.show/save_single/multiple_phasePlot(2) and "
        "_uverskyPlot(2)) under the Agg backend with random label/title/limits/legend/format arguments; the figure that results is "
        "read back through matplotlib's artist API: oracle 1: getFig returns the figure module, title / axis labels / axis limits are the "
        "requested ones, the markers are at (f+, f-) resp. (|NCPR|, Uversky hydropathy) taken from the real getters AND from the exact "
        "model, one marker per sequence, the five coloured patches are the published polygons and the marker lies in the polygon of the "
        "region get_phasePlotRegion assigns; linear plots have one bar per residue centred at 1..N with the heights of the profile "
        "(model values); saved files exist in the requested format; every composition (n+, n-, N) with N <= 14 (quick) / 24 (thorough) "
        "for the region agreement; non-trivial = distinct call")
EXHAUSTIVE = {"quick": "every composition (n+, n-, N <= 14) through show_phaseDiagramPlot", "thorough": "every composition with N <= 24"}
TRUSTED = ["matplotlib artists are inspected, not pixels; fonts / legend appearance are out of reach"]
TITLES = ["Diagram of states", "My title", "T", "x y z", "100%"]


def ptok(entry, args):
    return "plot %s %s" % (entry, hex6(json.dumps(args)))


def kwargs(rng):
    kw = {}
    if rng.random() < 0.7:
        kw["title"] = rng.choice(TITLES)
    if rng.random() < 0.5:
        kw["label"] = rng.choice(["", "seq1", "A long label"])
    if rng.random() < 0.5:
        kw["xLim"] = rng.choice([1, 0.5, 0.8, 0.45, 0.675, 0.75, 1.25])
        kw["yLim"] = rng.choice([1, 0.5, 0.9, 0.45, 0.675, 0.85, 1.05])
    if rng.random() < 0.3:
        kw["legendOn"] = False
    if rng.random() < 0.3:
        kw["fontSize"] = rng.choice([8, 12])
    return kw


def phase_case(s, rng, entry="sp_show_phase", kind="phase", kw=None):
    kw = kwargs(rng) if kw is None else kw
    a = dict(kw)
    a["seq"] = s
    if "save" in entry:
        a["fmt"] = rng.choice(["png", "pdf", "png", "svg"])
        if rng.random() < 0.5:
            a["fname_ext"] = rng.choice(["png", "pdf", "svg", "v2", "", "PNG", "eps"])
    lines = [ptok(entry, a), "q fplus " + s, "q fminus " + s, "q region " + s, "q mnc " + s, "q uversky " + s]
    return Case(lines, {"kind": kind, "entry": entry, "args": a}, nontrivial=True)


def cases(rng, tier):
    N = 14 if tier == "quick" else 24
    for comp in gen.compositions(N):
        s = gen.spell(gen.arrange(comp, rng), rng)
        yield phase_case(s, rng, kw={}, kind="region-exhaustive")
    for entry, cs in multicall_cases(rng):
        lines, metas = [], []
        for ls, a in cs:
            metas.append((len(lines), a))
            lines += ls
        yield Case(lines, {"kind": "multi-call", "entry": entry, "args": cs[0][1], "multicall": metas})
    # a save_* call followed by another plot in the same process: the later figure must contain only its own artists
    for c in after_save_cases(rng, tier):
        yield c
    n = 40 if tier == "quick" else 400
    for kind, s in gen.rand_seqs(rng, n, 120):
        yield phase_case(s, rng, rng.choice(["sp_show_phase", "sp_save_phase", "sp_show_uversky", "sp_save_uversky"]))
        w = rng.randint(1, max(1, min(len(s), 12)))
        k = rng.choice(["NCPR", "FCR", "Sigma", "Hydropathy"])
        entry = rng.choice(["sp_show_linear", "sp_show_linear", "sp_save_linear"])
        a = {"seq": s, "kind": k, "w": w, "fmt": rng.choice(["png", "pdf"])}
        yield Case([ptok(entry, a), "q lin%s %s %d" % ({"Hydropathy": "Hydro"}.get(k, k), s, w)], {"kind": "linear", "entry": entry, "args": a})
        if len(s) >= 10 and rng.random() < 0.5:
            ct = rng.choice(["WF", "LC", "LZW"])
            a = {"seq": s, "ctype": ct, "w": rng.randint(2, 10), "fmt": "png"}
            entry = rng.choice(["sp_show_complexity", "sp_save_complexity"])
            yield Case([ptok(entry, a), "q cplx %s %s 20 - %d 1 3" % (s, ct, a["w"])], {"kind": "complexity", "entry": entry, "args": a})
        # the plots module
        kw = kwargs(rng)
        x, y = round(rng.random() * 0.6, 3), round(rng.random() * 0.4, 3)
        entry = rng.choice(["pl_show_single_phase", "pl_save_single_phase", "pl_show_single_uversky", "pl_save_single_uversky"])
        a = dict(kw, x=x, y=y, fmt=rng.choice(["png", "pdf"]))
        if rng.random() < 0.3:
            a["coords_as_str"] = True
        yield Case([ptok(entry, a)], {"kind": "plots-single", "entry": entry, "args": a})
        m = rng.randint(1, 4)
        seqs = [gen.rand_seq(rng, rng.choice(gen.KINDS), rng.randint(5, 40)) for _ in range(m)]
        if m >= 2 and rng.random() < 0.4:
            seqs[-1] = gen.permute(seqs[0], rng)          # same composition: identical coordinates, its own marker and label
        labels = ["s%d" % i for i in range(m)] if rng.random() < 0.7 else []
        if labels and m >= 2 and rng.random() < 0.35:
            # some sequences deliberately left unlabelled (an empty string), also BEFORE labelled ones
            for i_ in rng.sample(range(m), rng.randint(1, m - 1)):
                labels[i_] = ""
        entry = rng.choice(["pl_show_multi_phase2", "pl_save_multi_phase2", "pl_show_multi_uversky2", "pl_save_multi_uversky2"])
        a = dict(kw, seqs=seqs, labels=labels, fmt=rng.choice(["png", "pdf"]))
        a.pop("label", None)
        if labels and rng.random() < 0.5:
            a["labels_as"] = rng.choice(["tuple", "ndarray"])      # the labels in another sequence type
        if rng.random() < 0.4:
            a["seqs_one_shot"] = rng.choice(["iter", "gen", "tuple"])      # the objects handed over as a one-shot iterator / a tuple
        lines = [ptok(entry, a)]
        for sq in seqs:
            lines += ["q fplus " + sq, "q fminus " + sq, "q mnc " + sq, "q uversky " + sq]
        yield Case(lines, {"kind": "plots-multi2", "entry": entry, "args": a})
        xs = [round(rng.random() * 0.5, 3) for _ in range(m)]
        ys = [round(rng.random() * 0.5, 3) for _ in range(m)]
        if m >= 2 and rng.random() < 0.4:
            xs[-1], ys[-1] = xs[0], ys[0]                   # two sequences at identical coordinates
        entry = rng.choice(["pl_show_multi_phase", "pl_save_multi_phase", "pl_show_multi_uversky", "pl_save_multi_uversky"])
        a = dict(kw, xs=xs, ys=ys, labels=labels, fmt=rng.choice(["png", "pdf"]))
        a.pop("label", None)
        if rng.random() < 0.5:
            a["as_array"] = True        # coordinates passed as float64 NumPy arrays
        if labels and rng.random() < 0.5:
            a["labels_as"] = rng.choice(["tuple", "ndarray"])
        yield Case([ptok(entry, a)], {"kind": "plots-multi", "entry": entry, "args": a})


SAVE_ENTRIES = ["sp_save_phase", "sp_save_uversky", "sp_save_linear", "sp_save_complexity", "pl_save_single_phase", "pl_save_single_uversky",
                "pl_save_multi_phase", "pl_save_multi_uversky", "pl_save_multi_phase2", "pl_save_multi_uversky2"]


def save_call(entry, rng):
    m = rng.randint(1, 3)
    seqs = [gen.rand_seq(rng, rng.choice(gen.KINDS), rng.randint(8, 30)) for _ in range(m)]
    fmt = rng.choice(["png", "pdf", "svg"])
    if entry in ("sp_save_phase", "sp_save_uversky"):
        a = {"seq": seqs[0], "fmt": fmt}
    elif entry == "sp_save_linear":
        a = {"seq": seqs[0], "kind": rng.choice(["NCPR", "FCR", "Sigma", "Hydropathy"]), "w": rng.randint(1, 5), "fmt": fmt}
    elif entry == "sp_save_complexity":
        a = {"seq": seqs[0] + "ACDEFGHIKL", "ctype": rng.choice(["WF", "LC", "LZW"]), "w": rng.randint(2, 8), "fmt": "png"}
    elif "single" in entry:
        a = {"x": round(rng.random() * 0.5, 3), "y": round(rng.random() * 0.4, 3), "fmt": fmt}
    elif entry.endswith("2"):
        a = {"seqs": seqs, "labels": ["s%d" % i for i in range(m)], "fmt": fmt}
    else:
        a = {"xs": [round(rng.random() * 0.5, 3) for _ in range(m)], "ys": [round(rng.random() * 0.5, 3) for _ in range(m)],
             "labels": ["s%d" % i for i in range(m)], "fmt": fmt}
    if rng.random() < 0.5:
        a["fname_ext"] = rng.choice(["png", "pdf", "svg", "v2", "", "PNG", "eps"])
    return a


def after_save_cases(rng, tier):
    reps = 1 if tier == "quick" else 4
    for _ in range(reps):
        for entry in SAVE_ENTRIES:
            a0 = save_call(entry, rng)
            s = gen.rand_seq(rng, rng.choice(gen.KINDS), rng.randint(8, 40))
            c = phase_case(s, rng, rng.choice(["sp_show_phase", "sp_show_uversky"]), kind="after-save")
            tags = dict(c.tags, off=1, prefix=[(entry, a0)])
            yield Case([ptok(entry, a0)] + c.block, tags)
            # and a second save after the first one (what the second file contains)
            e2 = rng.choice(["sp_save_phase", "sp_save_uversky", "pl_save_multi_phase2", "pl_save_multi_uversky2"])
            if e2.startswith("sp_"):
                c2 = phase_case(s, rng, e2, kind="save-after-save")
            else:
                a2 = save_call(e2, rng)
                ls = [ptok(e2, a2)]
                for sq in a2["seqs"]:
                    ls += ["q fplus " + sq, "q fminus " + sq, "q mnc " + sq, "q uversky " + sq]
                c2 = Case(ls, {"kind": "save-after-save", "entry": e2, "args": a2})
            yield Case([ptok(entry, a0)] + c2.block, dict(c2.tags, off=1, prefix=[(entry, a0)]))


def multicall_cases(rng):
    """several label-less calls of the same multi-sequence entry point in ONE process with different numbers of sequences
    (shared mutable default arguments would leak from one call into the next)"""
    for entry in ("pl_show_multi_phase2", "pl_show_multi_uversky2", "pl_show_multi_uversky", "pl_show_multi_phase"):
        for counts in ((3, 2, 5, 1), (1, 4, 2)):
            cs = []
            for m in counts:
                seqs = [gen.rand_seq(rng, rng.choice(gen.KINDS), rng.randint(5, 30)) for _ in range(m)]
                if entry.endswith("2"):
                    a = {"seqs": seqs, "labels": []}
                    lines = [ptok(entry, a)]
                    for sq in seqs:
                        lines += ["q fplus " + sq, "q fminus " + sq, "q mnc " + sq, "q uversky " + sq]
                else:
                    a = {"xs": [round(rng.random() * 0.5, 3) for _ in range(m)], "ys": [round(rng.random() * 0.5, 3) for _ in range(m)], "labels": []}
                    lines = [ptok(entry, a)]
                cs.append((lines, a))
            yield entry, cs


PHASE_POLYS = [[[0, 0], [0, 0.25], [0.25, 0]], [[0, 0.25], [0, 0.35], [0.35, 0], [0.25, 0]],
               [[0, 0.35], [0.325, 0.675], [0.675, 0.325], [0.35, 0]], [[0, 0.35], [0, 1], [0.325, 0.675]],
               [[0.35, 0], [0.675, 0.325], [1, 0]]]
UV_POLYS = [[[0, 1], [0, 0.413], [0.772, 1]], [[0, 0], [0, 0.413], [0.772, 1], [1, 1], [1, 0]]]


def in_poly(P, x, y, eps=1e-9):
    s = []
    for i in range(len(P)):
        a, b = P[i], P[(i + 1) % len(P)]
        s.append((b[0] - a[0]) * (y - a[1]) - (b[1] - a[1]) * (x - a[0]))
    return all(v <= eps for v in s) or all(v >= -eps for v in s)


def near(a, b, tol=1e-9):
    return abs(a - b) <= tol * max(1.0, abs(b))


def judge(case, reals, gens, specs):
    off = case.tags.get("off", 0)
    if off:
        # the first `off` lines are earlier plot calls of the same process (e.g. a save_* call); they are judged on their own,
        # then the call under test is judged exactly like a stand-alone one - it must not show anything of the earlier ones
        out = []
        for j, (e0, a0) in enumerate(case.tags["prefix"]):
            sub = Case([case.block[j]], {"kind": "prefix", "entry": e0, "args": a0})
            out += [(k, j, "earlier call: " + m) for k, _, m in judge(sub, reals[j:j + 1], gens[j:j + 1], specs[j:j + 1])]
        sub = Case(case.block[off:], {k: v for k, v in case.tags.items() if k not in ("off", "prefix")})
        out += [(k, i + off, "after %s in the same process: %s" % (", ".join(e for e, _ in case.tags["prefix"]), m))
                for k, i, m in judge(sub, reals[off:], gens[off:], specs[off:])]
        return out
    out = []
    entry, a = case.tags.get("entry"), case.tags.get("args")
    if entry is None:
        from ..real import unhex6
        tk = case.block[0].split(" ")
        entry, a = tk[1], json.loads(unhex6(tk[2]))
    if case.tags.get("multicall"):
        for pos, aa in case.tags["multicall"]:
            r = reals[pos]
            m = len(aa.get("seqs", aa.get("xs", [])))
            if r[0] != "fig" or len(r[1].get("markers", [])) != m or not r[1].get("returned"):
                out.append(("violation", pos, "%s: label-less call number %d of the same entry point in one process (%d sequences) -> %s" % (
                    entry, case.tags["multicall"].index((pos, aa)) + 1, m, str(r)[:200])))
        return out
    fd = reals[0]
    for i in range(1, len(reals)):
        if case.block[i].startswith("plot "):
            continue
        if not core.match(reals[i], specs[i])[0]:
            out.append(("violation", i, "%s: real=%s spec=%s" % (case.block[i], str(reals[i])[:120], specs[i][:120])))
        elif not core.match(reals[i], gens[i])[0]:
            out.append(("tie", i, "real=%s model@gen=%s" % (str(reals[i])[:120], gens[i][:120])))
    if fd[0] != "fig":
        out.append(("violation", 0, "%s %r raised %r" % (entry, a, fd)))
        return out
    d = fd[1]

    def bad(msg):
        out.append(("violation", 0, "%s: %s (args %s)" % (entry, msg, json.dumps(a)[:200])))
    if a.get("as_array") and d.get("caller_arrays_unchanged") is False:
        bad("the coordinate arrays passed by the caller were modified")
    show = "_show_" in entry
    if show and not (d.get("returned") and d.get("returned_is_plt")):
        bad("getFig=True did not return the figure")
    if not show:
        if not d.get("saved"):
            bad("no file written")
        elif a.get("fmt") in ("png", "pdf", "svg") and d.get("magic") != a["fmt"]:
            bad("file format %r, requested %r (file name extension %r)" % (d.get("magic"), a.get("fmt"), a.get("fname_ext", a.get("fmt"))))
        # the figure as it was when savefig was called is inspected exactly like a shown one
        if d.get("n_savefig_calls") != 1 or not d.get("at_save"):
            bad("savefig called %r times" % d.get("n_savefig_calls"))
            return out
        d = d["at_save"]
        if case.tags.get("kind") == "prefix":
            return out      # an earlier call of a block: only that it saved what it was asked to
    if d.get("nofig"):
        bad("no figure")
        return out
    phase = "phase" in entry
    uv = "uversky" in entry
    if phase or uv:
        title = a.get("title", "Diagram of states" if phase else "Uversky plot")
        if d["title"] != title:
            bad("title %r, requested %r" % (d["title"], title))
        xl, yl = a.get("xLim", 1), a.get("yLim", 1)
        if not (near(d["xlim"][0], 0) and near(d["xlim"][1], xl) and near(d["ylim"][0], 0) and near(d["ylim"][1], yl)):
            bad("axis limits %r %r, requested [0,%r] [0,%r]" % (d["xlim"], d["ylim"], xl, yl))
        exp_lab = ("Fraction of positively charged residues", "Fraction of negatively charged residues") if phase else ("Mean net charge", "Mean hydropathy <H>")
        if (d["xlabel"], d["ylabel"]) != exp_lab:
            bad("axis labels %r" % ((d["xlabel"], d["ylabel"]),))
        polys = PHASE_POLYS if phase else UV_POLYS
        if len(d["polygons"]) != len(polys) or any(len(p) != len(q) or any(not (near(u[0], v[0]) and near(u[1], v[1])) for u, v in zip(p, q)) for p, q in zip(d["polygons"], polys)):
            bad("coloured regions %r are not the published polygons" % (d["polygons"],))
        if d.get("marker_order") and d.get("polygon_order") and min(map(tuple, d["marker_order"])) < max(map(tuple, d["polygon_order"])):
            bad("a coloured region is drawn over a marker: marker (zorder, order) %r, regions %r" % (d["marker_order"], d["polygon_order"]))
        if d["legend"] != a.get("legendOn", True):
            bad("legend %r" % d["legend"])
        # expected marker coordinates
        if "seq" in a:
            vals = {case.block[i].split(" ")[1]: reals[i] for i in range(1, len(reals))}
            svals = {case.block[i].split(" ")[1]: specs[i] for i in range(1, len(reals))}
            if phase:
                exp = [(vals["fplus"][1], vals["fminus"][1])]
                mexp = [(float(core.parse_rat(svals["fplus"].split(" ")[1])), float(core.parse_rat(svals["fminus"].split(" ")[1])))]
            else:
                exp = [(vals["mnc"][1], vals["uversky"][1])]
                mexp = [(float(core.parse_rat(svals["mnc"].split(" ")[1])), float(core.parse_rat(svals["uversky"].split(" ")[1])))]
        elif "seqs" in a and len(reals) < 1 + 4 * len(a["seqs"]):
            return out      # (a corpus block without the getter lines: nothing to compare the markers with)
        elif "seqs" in a:
            exp, mexp = [], []
            for k in range(len(a["seqs"])):
                r4 = reals[1 + 4 * k: 5 + 4 * k]
                s4 = [float(core.parse_rat(x.split(" ")[1])) for x in specs[1 + 4 * k: 5 + 4 * k]]
                exp.append((r4[0][1], r4[1][1]) if phase else (r4[2][1], r4[3][1]))
                mexp.append((s4[0], s4[1]) if phase else (s4[2], s4[3]))
        elif "xs" in a:
            exp = mexp = list(zip(a["xs"], a["ys"]))
        else:
            exp = mexp = [(a["x"], a["y"])]
        got = [tuple(m) for m in d["markers"]]
        if len(got) != len(exp) or any(not (near(g_[0], e[0]) and near(g_[1], e[1])) for g_, e in zip(got, exp)):
            bad("markers %r, expected (real getters) %r" % (got, exp))
        elif any(not (near(g_[0], e[0]) and near(g_[1], e[1])) for g_, e in zip(got, mexp)):
            bad("markers %r, expected (model) %r" % (got, mexp))
        if phase and "seq" in a and len(got) == 1 and reals[3][0] == "int":
            k = reals[3][1]
            if not (1 <= k <= 5 and len(d["polygons"]) == 5 and in_poly(d["polygons"][k - 1], got[0][0], got[0][1])):
                bad("marker %r is not inside the drawn polygon of region %r" % (got[0], k))
        if ("seqs" in a or "xs" in a) and a.get("labels"):
            texts = [t[0] for t in d["texts"]]
            if texts != list(a["labels"]):
                bad("label texts %r, requested %r (given as %s)" % (texts, a["labels"], a.get("labels_as", "list")))
            elif len(texts) == len(got) and any(t[1] is not None and not (near(t[1], g_[0]) and near(t[2], g_[1] + 0.01)) for t, g_ in zip(d["texts"], got)):
                bad("labels %r sit at %r, the markers of their sequences at %r" % (texts, [(t[1], t[2]) for t in d["texts"]], got))
        lab = a.get("label", "")
        if "seq" in a or "x" in a:
            texts = [t[0] for t in d["texts"]]
            if (lab != "" and texts != [lab]) or (lab == "" and texts != []):
                bad("label texts %r, requested %r" % (texts, lab))
    elif "linear" in entry:
        toks = specs[1].split(" ")
        if toks[0] == "mat":
            N = int(toks[2])
            hs = [float(core.parse_rat(t)) for t in toks[3 + N:3 + 2 * N]]
            bars = d["bars"]
            if len(bars) != N or any(not near(b[0], i + 1) or not near(b[2], 1.0) for i, b in enumerate(bars)):
                bad("bars are not one per residue centred at 1..N: %r" % (bars[:5],))
            elif any(not near(b[1], h) for b, h in zip(bars, hs)):
                bad("bar heights differ from the profile: %r vs %r" % ([b[1] for b in bars][:8], hs[:8]))
            if ("blob %d" % a["w"]) not in d["title"]:
                bad("title %r" % d["title"])
    elif "complexity" in entry:
        if reals[1][0] == "mat":
            pos, vals = reals[1][1]
            bars = d["bars"]
            if len(bars) != len(pos) or any(not near(b[0], p) or not near(b[1], v) for b, p, v in zip(bars, pos, vals)):
                bad("complexity bars do not match get_linear_complexity")
    return out
