"""C12 — reduced alphabets implement the documented residue partitions"""
from ..runner import Case
from .. import gen, core
from ..real import hex6

ID = "C12"
STATEFUL = True     # some blocks keep a live object across lines
LEAN_TARGETS = ["Cider.Props.C12"]
P = "Cider.C12."
THEOREMS = [P + t for t in (
    "sizes_implement_documented_partitions", "sizes_accepted_iff", "probed_sizes", "reduce_ok", "reduce_length", "reduce_append",
    "reduce_idempotent", "reduce_entrywise", "reduce_rejects_size", "imageOf_some_iff", "user_accepted_iff",
    "user_applied_residuewise", "user_rejected")]
RULE = ("each case = get_reduced_alphabet_sequence(size[, userAlphabet]) on a fresh object: (reduced sequence, alphabet) vs the model; "
        "the 20 single residues x every integer size 0..25 (exhaustive) and sizes as '5', 'x', -1; random sequences s, t with the two "
        "laws checked on the REAL outputs (reduce(s+t) == reduce(s)+reduce(t), len preserved) where a "
        "context-dependent mutation would show; random total / partial / lower-case / multi-letter / non-amino-acid user alphabets; "
        "non-trivial = distinct (sequence, size/alphabet) with an accepted size < 20 or a user alphabet")
EXHAUSTIVE = {"quick": "20 residues x sizes 0..25", "thorough": "20 residues x sizes 0..25"}
SIZES = [2, 3, 4, 5, 6, 8, 10, 11, 12, 15, 18, 20]


def utok(d):
    return ",".join("%s=%s" % (hex6(k), "n" if v is None else hex6(v)) for k, v in d.items()) or "-"


def rand_user(rng):
    img = rng.sample(gen.AAS, rng.randint(2, 8))
    d = {a: rng.choice(img) for a in gen.AAS}
    r = rng.random()
    if r < 0.15:
        del d[rng.choice(gen.AAS)]
    elif r < 0.3:
        d[rng.choice(gen.AAS)] = rng.choice(["a", "AB", "", "B", "X", "1", None])
    elif r < 0.35:
        d[rng.choice(["B", "x"])] = "A"
    return d


def cases(rng, tier):
    for a in gen.AAS:
        for k in range(0, 26):
            yield Case(["q reduce %s %d -" % (a, k)], {"kind": "residue-x-size"}, nontrivial=(k in SIZES and k < 20))
    n = 120 if tier == "quick" else 1200
    for kind, s in gen.rand_seqs(rng, n, 150):
        t = gen.rand_seq(rng, rng.choice(gen.KINDS), rng.randint(1, 60))
        k = rng.choice(SIZES + [0, 1, 7, 9, 19, 21])
        lines = ["q reduce %s %d -" % (s, k), "q reduce %s %d -" % (t, k), "q reduce %s %d -" % (s + t, k)]
        yield Case(lines, {"kind": "laws-" + kind, "law": (s, t, k)}, nontrivial=(k in SIZES and k < 20))
        d = rand_user(rng)
        yield Case(["q reduce %s %d %s" % (s, rng.choice(SIZES + [7]), utok(d))], {"kind": "user-alphabet"})
    # every kind of invalid target for every residue position class: '', lower case, multi-letter runs (also runs that are
    # substrings of the 20-letter string 'RHKDESTNQCGPAILMFWYV'), non-letters, non-strings
    base = {a: a for a in gen.AAS}
    for badv in ["", "a", "k", "DE", "ST", "RHK", "RH", "VY", "AB", "AA", "B", "J", "O", "U", "X", "Z", "1", "*", " ", "A ", None]:
        for key in ("A", "D", "R", "Y", rng.choice(gen.AAS)):
            d = dict(base)
            d[key] = badv
            yield Case(["q reduce %s 20 %s" % ("MDEDSTRHKDDAGSY", utok(d))], {"kind": "user-alphabet-invalid-target"})
    for key in gen.AAS:
        d = dict(base)
        del d[key]
        yield Case(["q reduce %s 20 %s" % ("MDEDSTRHKDDAGSY", utok(d))], {"kind": "user-alphabet-missing-key"})
    # user alphabets with 20 DISTINCT values (a permutation of the residues: nothing merged, everything renamed)
    for _ in range(6 if tier == "quick" else 40):
        perm = list(gen.AAS)
        k = rng.random()
        if k < 0.3:
            i, j = rng.sample(range(20), 2)
            perm[i], perm[j] = perm[j], perm[i]
        elif k < 0.6:
            sh = rng.randint(1, 19)
            perm = perm[sh:] + perm[:sh]
        else:
            rng.shuffle(perm)
        d = dict(zip(gen.AAS, perm))
        yield Case(["q reduce %s %d %s" % ("MKRDESTAYKKRRDDEEGWPCFHILNQV", rng.choice([20, 5]), utok(d))], {"kind": "user-alphabet-permutation"})
    # user alphabets by IMAGE SIZE: all twenty residues projected onto ONE letter, onto two, and onto nineteen (a single merge)
    for img_n in (1, 1, 1, 1, 2, 2, 19, 19) * (1 if tier == "quick" else 5):
        img = rng.sample(gen.AAS, img_n)
        if img_n == 19:
            d = {a: a for a in gen.AAS}
            miss = [a for a in gen.AAS if a not in img][0]
            d[miss] = rng.choice(img)
        else:
            d = {a: rng.choice(img) for a in gen.AAS}
            for t_ in img:
                d[rng.choice(gen.AAS)] = t_
        for sq in ("MKRDESTAYKKRRDDEEGWPCFHILNQV", gen.rand_seq(rng, "idp", rng.randint(1, 30))):
            yield Case(["q reduce %s %d %s" % (sq, rng.choice([20, 5, 2]), utok(d))], {"kind": "user-alphabet-image-size-%d" % img_n})
    # partial user alphabets by number of entries (1, 2, 3, 19 of the 20 residues bound): all must be refused
    for n_ in (1, 1, 1, 2, 3, 10, 19, 19) * (1 if tier == "quick" else 4):
        keys = rng.sample(gen.AAS, n_)
        d = {k: rng.choice(["A", "G", k]) for k in keys}
        for size in (20, 5):
            yield Case(["q reduce %s %d %s" % ("MKDEGGSAWYRRLLPQACDEFGHIKLMNPQRSTVWY", size, utok(d))], {"kind": "user-alphabet-%d-entries" % n_})
    # dictionaries with MORE than the 20 keys: an extra key that is itself used as a target / is a valid or invalid symbol
    for sym in ["X", "B", "k", "-", "Z", "1", "AA"]:
        for key in ("G", "S", "K", "W", "A"):
            for extra_val in ("A", sym):
                d = dict(base)
                d[key] = sym
                d[sym] = extra_val
                yield Case(["q reduce %s 20 %s" % ("MKGSTAGGWYHHEDNQRKLIVFPC", utok(d))], {"kind": "user-alphabet-extra-key"})
        d = dict(base)
        d[sym] = "A"
        yield Case(["q reduce %s 20 %s" % ("MKGSTAGGWYHHEDNQRKLIVFPC", utok(d))], {"kind": "user-alphabet-extra-key"})
    # several reductions on ONE object: the answer to each call is that of a fresh object (size / user alphabet of an
    # earlier call must not matter)
    hp = {a: ("E" if a in "EDNQKRH" else "L") for a in gen.AAS}
    kr = dict(base, R="K")
    part = {a: a for a in "ACDEF"}
    bogus = dict(base, G="X")
    pool = [("20", "-"), ("20", utok(hp)), ("20", utok(kr)), ("5", "-"), ("5", utok(kr)), ("2", "-"), ("20", utok(part)), ("20", utok(bogus)),
            ("12", "-"), ("7", "-"), ("8", utok(hp))]
    for _ in range(40 if tier == "quick" else 400):
        sq = gen.rand_seq(rng, rng.choice(gen.KINDS), rng.randint(5, 40))
        calls = [rng.choice(pool) for _ in range(rng.randint(2, 5))]
        yield Case(["new 0 " + sq] + ["o 0 reduce %s %s" % c for c in calls], {"kind": "same-object-history"})


def judge(case, reals, gens, specs):
    out = []
    for i, (r, g, s) in enumerate(zip(reals, gens, specs)):
        if not core.match(r, s)[0]:
            out.append(("violation", i, "%s: real=%s spec=%s" % (case.block[i], str(r)[:160], s[:160])))
        elif not core.match(r, g)[0]:
            out.append(("tie", i, "real=%s model@gen=%s" % (str(r)[:160], g[:160])))
    law = case.tags.get("law")
    if law and all(r[0] == "red" for r in reals):
        s, t, k = law
        rs, rt, rst = reals[0][1], reals[1][1], reals[2][1]
        if len(rs) != len(s) or rs + rt != rst:
            out.append(("violation", 2, "LAW reduce(s+t) != reduce(s)+reduce(t) (or length changed): %r %r %r" % (rs, rt, rst)))
    return out
