"""C01 — kappa is delta/delta-max, lies in [0,1], and is -1 only when undefined"""
from fractions import Fraction
from ..runner import Case
from .. import gen, core

ID = "C01"
STATEFUL = True     # some blocks keep a live object across lines
LEAN_TARGETS = ["Cider.Props.C01", "Cider.Props.C02Tie", "Cider.Props.C01Short"]
OPTIONAL_TARGETS = ["Cider.Props.C01Gen", "Cider.Props.C01Src"]
OPTIONAL_THEOREMS = {"Cider.Props.C01Src": ['Cider.C01Src.kappaDecision_eq', 'Cider.C01Src.sigmaDecision_eq']}
P = "Cider.C01."
THEOREMS = ["Cider.C02.gen_charge_eq_published"] + [P + t for t in (
    "kappa_neg_one_iff", "kappa_eq_ratio", "kappa_nonneg", "kappa_le_one_iff", "kappa_range_iff",
    "kappa_of_family_member", "kappa_of_dmax_permutant", "kappa_gt_one_witness", "kappa_range_partial",
    # every sequence of at most five residues: delta = 0, delta-max = 0, kappa = -1 (Props/C01Short.lean)
    "pattern_counts_sum", "deltaForm_whole", "delta_short", "dmax_short", "kappa_short", "kappa_short_seq")]
RULE = ("each case = one sequence: get_kappa / get_delta / get_deltaMax on fresh objects vs the exact model; the value must be the "
        "clamped ratio (or -1 iff delta-max is 0) AND lie in {-1} U [0,1]; sequences: every charge pattern of length <= 7 (quick) / 9 "
        "(thorough); for every composition up to 9 (quick) / 12 (thorough) residues the TRUE delta-maximising arrangement found by "
        "exhaustive search in the Lean driver, fed to the real get_kappa; structured-random sequences to 300; boundary: n0 = 17..19; "
        "non-trivial = distinct sequence with delta-max > 0")
EXHAUSTIVE = {"quick": "all charge patterns of length <= 7; true arg-max arrangement of every composition with <= 9 residues",
              "thorough": "all charge patterns of length <= 9; true arg-max arrangement of every composition with <= 12 residues"}
TRUSTED = ["known_findings.json F-C01-1 root-cause predicate (delta, delta-max, clamp all as specified; excess only from the family)"]


def block(s):
    return ["q kappa " + s, "q delta " + s, "q dmax " + s]


def cases(rng, tier):
    # few charges among 18-25 neutral residues (both flank loops of that regime), and lopsided compositions with 7-16 neutrals
    for n0 in ((18, 21) if tier == "quick" else (18, 19, 21, 25)):
        for a, b in ((1, 1), (2, 2), (1, 2), (1, 25), (2, 30), (30, 1), (3, 45), (24, 2)):
            if tier != "quick" or (a + b + n0) < 60:
                sq = gen.spell(gen.arrange((a, b, n0), rng), rng)
                yield Case(["q kappa " + sq, "q dmax " + sq, "q delta " + sq], {"kind": "few-charges-many-neutrals"})
    # duplicates of objects with built-up state: every way of copying x every kind of state
    for l in core.copy_cases(rng, 2 if tier == "quick" else 12, ['kappa', 'dmax']):
        yield Case([l], {"kind": "duplicate-of-object"})
    # the same query several times in a row on one object
    for c in gen.repeated_call_cases(rng, 8 if tier == "quick" else 60, ['kappa', 'dmax', 'delta'], gen.CLAMP_BAND[:8] if True else ()):
        yield c
    # block-ordered chains with >= 18 neutral residues (a short neutral gap between the charged blocks, neutrals piled up at one end)
    for sq in gen.block_arrangements(rng, 20 if tier == "quick" else 200):
        yield Case(["q kappa " + sq, "q dmax " + sq, "q delta " + sq], {"kind": "block-ordered-many-neutrals"})
    # very long chains (> 1000 residues, lengths that are not round numbers)
    for sq in gen.very_long(rng, tier != "quick"):
        yield Case(["q %s %s%s" % (q.split(" ")[0], sq, "".join(" " + a for a in q.split(" ")[1:])) for q in ['kappa', 'delta']], {"kind": "very-long"})
    # objects built from sequence files (two per block)
    for c in gen.file_cases(rng, 12 if tier == "quick" else 100, ['kappa', 'dmax', 'delta']):
        yield c
    # objects handed back by the library's own moves / shuffles (also with frozen sets, also from a parent whose cache is warm)
    for l in core.childq_cases(rng, 90 if tier == "quick" else 600, ['kappa', 'dmax', 'delta']):
        yield Case([l], {"kind": "object-from-move"})
    # the property's own queries AFTER other public calls on the same object (same answers as on a fresh one)
    for c in gen.after_calls_cases(rng, 16 if tier == "quick" else 120, ['kappa', 'dmax', 'delta']):
        yield c
    n = 7 if tier == "quick" else 9
    for pat in gen.patterns_upto(n):
        yield Case(block(gen.spell(pat, rng, plain=(rng.random() < 0.5))), {"kind": "exhaustive"}, nontrivial=len(pat) >= 6 and pat.count('0') < len(pat))
    # the true maximiser of every small composition, by exhaustive search in the driver
    N = 9 if tier == "quick" else 12
    comps = [c for c in gen.compositions(N, lo=6) if c[0] + c[1] > 0]
    outs = core.run_driver_parallel(["argmax %d %d %d" % c for c in comps], "spec")
    for c, o in zip(comps, outs):
        pat = o.split(" ")[2]
        yield Case(block(gen.spell(pat, rng)), {"kind": "true-argmax"})
    for n0 in (17, 18, 19):
        for a, b in ((1, 1), (2, 1), (1, 3), (3, 3), (5, 2), (18, 1), (1, 18)):
            for rep in range(3):
                yield Case(block(gen.spell(gen.arrange((a, b, n0), rng), rng)), {"kind": "boundary"})
    # every composition up to 16 residues once (kappa depends on delta-max of EVERY composition) ...
    for comp in gen.compositions(16 if tier == "quick" else 26, lo=6):
        if comp[0] + comp[1] > 0:
            yield Case(block(gen.spell(gen.arrange(comp, rng), rng)), {"kind": "composition"})
    # ... and lopsided compositions around the regime boundaries of the delta-max search (no neutrals; 17..19 and many neutrals)
    for k in (8, 13, 14, 15, 19, 24, 30):
        for m in (1, 2, 3):
            for comp in ((k, m, 0), (m, k, 0), (k, m, 18), (m, k, 18), (k, m, 19), (m, k, 25)):
                # the minority residues in the interior of the chain
                pat = gen.arrange(comp, rng)
                yield Case(block(gen.spell(pat, rng)), {"kind": "lopsided"})
    # E18 + K + G arrangements called out in the property
    for rep in range(10):
        yield Case(block(gen.spell(gen.arrange((1, 18, 1), rng), rng, plain=True)), {"kind": "E18KG"})
    for kind, s in gen.rand_seqs(rng, 150 if tier == "quick" else 2000, 300):
        yield Case(block(s), {"kind": kind}, nontrivial=len(s) >= 6 and any(c in "KRDE" for c in s))


def _ratio(specs):
    d = core.parse_rat(specs[1].split(" ")[1])
    dm = core.parse_rat(specs[2].split(" ")[1])
    return d, dm


def judge(case, reals, gens, specs):
    if case.block and case.block[0].startswith("childq "):
        if reals[0][0] != "childq":
            return [("violation", 0, "%s -> %s" % (case.block[0], str(reals[0])[:300]))]
        ok_c, why = core.judge_childq(reals[0])
        return [] if ok_c else [("violation", 0, why)]
    if case.tags.get("kind") in ("after-other-calls", "after-calls-on-another-object", "object-from-file", "object-from-big-file", "very-long", "repeated-calls"):
        from ..runner import default_judge
        return default_judge(None, case, reals, gens, specs)
    out = []
    r, g, s = reals[0], gens[0], specs[0]
    for i in (1, 2):
        if not core.match(reals[i], specs[i])[0]:
            out.append(("violation", i, "real=%r spec=%s" % (reals[i], specs[i])))
        elif not core.match(reals[i], gens[i])[0]:
            out.append(("tie", i, "real=%r model@gen=%s" % (reals[i], gens[i])))
    if r[0] != "num":
        out.append(("violation", 0, "get_kappa -> %r" % (r,)))
        return out
    k = r[1]
    d, dm = _ratio(specs)
    ok = core.match(r, s)[0]
    if not ok and dm != 0:
        # near a clamp threshold the float ratio may fall on the other side: accept either reading
        ratio = d / dm
        for thr in (Fraction(1), Fraction(11, 10)):
            if abs(float(ratio - thr)) < 1e-9 and (core.close(k, 1) or core.close(k, ratio)):
                ok = True
                case.tags["near_threshold"] = True
    if not ok:
        out.append(("violation", 0, "get_kappa=%r but the clamped ratio of spec delta / spec delta-max is %s" % (k, s)))
    elif not core.match(r, g)[0] and not case.tags.get("near_threshold"):
        out.append(("tie", 0, "real=%r model@gen=%s" % (r, g)))
    if not (k == -1 or (-1e-12 <= k <= 1 + 1e-12)):
        out.append(("violation", 0, "RANGE get_kappa=%r is neither -1 nor in [0,1]" % k))
    return out


def known_match(case, idx, reals, specs, listed, detail=""):
    """F-C01-1: kappa > 1 solely because the documented family lacks the true maximiser"""
    f = next((x for x in listed if x["id"] == "F-C01-1"), None)
    if f is None or idx != 0:
        return None
    r = reals[0]
    if r[0] != "num" or not (r[1] > 1):
        return None
    # every mechanism behaves as specified on this input: delta, delta-max (= documented family maximum), clamped ratio
    if not (core.match(reals[1], specs[1])[0] and core.match(reals[2], specs[2])[0] and core.match(r, specs[0])[0]):
        return None
    d, dm = _ratio(specs)
    if dm == 0 or d / dm < Fraction(11, 10) - Fraction(1, 10 ** 9):
        return None
    return f
