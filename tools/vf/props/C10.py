"""C10 — sliding-window profiles report each window's statistic at its centre position"""
from ..runner import Case
from .. import gen, core
from ..real import hex6

ID = "C10"
STATEFUL = True     # some blocks keep a live object across lines
LEAN_TARGETS = ["Cider.Props.C10", "Cider.Props.C10Tie"]
# source-text tie (translated on every run by tools/pyexpr2lean.py); skipped when a function no longer fits the translator
OPTIONAL_TARGETS = ["Cider.Props.C10Src"]
OPTIONAL_THEOREMS = {"Cider.Props.C10Src": ['Cider.C10Src.shape_eq', 'Cider.C10Src.flanksNCPR_eq', 'Cider.C10Src.flanksFCR_eq', 'Cider.C10Src.flanksSigma_eq', 'Cider.C10Src.flanksHydro_eq', 'Cider.C10Src.flanksHydro2_eq', 'Cider.C10Src.flanksDensity_eq', 'Cider.C10Src.source_flanks']}
P = "Cider.C10."
THEOREMS = [P + t for t in (
    "flanks_eq", "profile_ok_iff", "profile_length", "profile_entry", "profile_flanks_zero", "window_guard",
    "full_window_ncpr", "full_window_fcr", "full_window_sigma", "full_window_hydropathy", "full_window_density",
    "delta_from_sigma_windows", "composition_rows", "gen_kdUversky_eq_published")]
RULE = ("each case = one sequence and one window size w in 1..N+3: get_linear_NCPR/FCR/sigma/hydropathy(w) and "
        "get_linear_sequence_composition(w, groups) (default groups, random user groups incl. mixed case, an invalid group) on fresh "
        "objects; the 2 x N (resp. (1+g) x N) arrays are compared entry by entry with the exact model (positions row 1..N, zeros on the "
        "flanks, window statistic at i + floor((w-1)/2)); w > N must raise; every charge pattern of length <= 6 (quick) / 8 (thorough) "
        "with every w in 1..N+3, random sequences to 120 with boundary and random w; non-trivial = distinct (sequence, w) with 1<=w<=N")
EXHAUSTIVE = {"quick": "every charge pattern of length 1..6 x every window 1..N+3", "thorough": "every charge pattern of length 1..8 x every window 1..N+3"}


def gtok(groups):
    if groups is None:
        return "-"
    return ";".join(",".join("n" if m is None else "s" + hex6(m) for m in g) if g else "[]" for g in groups)


def block(s, w, rng, comp=True):
    lines = ["q linNCPR %s %d" % (s, w), "q linFCR %s %d" % (s, w), "q linSigma %s %d" % (s, w), "q linHydro %s %d" % (s, w)]
    if comp:
        lines.append("q linComp %s %d -" % (s, w))
        k = rng.randint(1, 4)
        groups = []
        for _ in range(k):
            g = rng.sample(gen.AAS, rng.randint(1, 6))
            groups.append([m.lower() if rng.random() < 0.3 else m for m in g])
        if rng.random() < 0.15:
            groups[rng.randrange(len(groups))].append(rng.choice(["B", "AB", "1", None]))
        lines.append("q linComp %s %d %s" % (s, w, gtok(groups)))
    return lines


def cases(rng, tier):
    # long, weakly charged windows (0 < FCR < 0.01) and repeated / equal groups in the composition call
    for sq in ("G" * 60 + "K" + "G" * 131, "GS" * 40 + "E" + "GS" * 60, "K" + "G" * 256):
        for w in (101, 150, len(sq)):
            yield Case(["q linSigma %s %d" % (sq, w), "q linFCR %s %d" % (sq, w), "q linNCPR %s %d" % (sq, w)], {"kind": "weakly-charged-window"})
    for sq in gen.sparse_charge_seqs(rng, 6 if tier == "quick" else 60):
        yield Case(block(sq, rng.choice([5, 6, len(sq)]), rng, comp=False), {"kind": "sparse-charges"})
    for gl in ([["E", "D"], ["K", "R"], ["D", "E"]], [["K"], ["k"]], [["A", "G"], ["A", "G"], ["S"]], [["E", "D"], ["E", "D"]]):
        for w in (1, 3):
            yield Case(["q linComp %s %d %s" % ("MKDEEDRSAGSTQKLLWYEK", w, gtok(gl))], {"kind": "repeated-groups"})
    # LARGE groups (12-19 of the 20 letters, and all 20) on short and medium sequences that repeat residues outside the group
    for _ in range(40 if tier == "quick" else 400):
        L = rng.choice([3, 4, 5, 6, 8, 12, 16, 25, 40, 60, 83, 84, 120])
        letters = rng.sample(gen.AAS, rng.randint(2, 6))
        sq = "".join(rng.choice(letters) for _ in range(L))
        out_ = rng.sample(letters, rng.randint(1, min(3, len(letters))))        # residue types of the sequence left OUT of the group
        big = [a for a in gen.AAS if a not in out_]
        rng.shuffle(big)
        big = big[:max(12, len(big) - rng.randint(0, 5))]
        groups = [big] + ([rng.sample(gen.AAS, rng.randint(13, 20))] if rng.random() < 0.5 else [])
        yield Case(["q linComp %s %d %s" % (sq, rng.randint(1, L), gtok(groups))], {"kind": "large-groups"})
    # the same query several times in a row on one object
    for c in gen.repeated_call_cases(rng, 8 if tier == "quick" else 60, ['linNCPR 3', 'linComp 3 -'], gen.CLAMP_BAND[:8] if False else ()):
        yield c
    # very long chains
    for sq in gen.very_long(rng, tier != "quick")[:2 if tier == "quick" else 7]:
        for w in (5, 1001, len(sq)):
            yield Case(block(sq, w, rng, comp=False), {"kind": "very-long"})
    # objects handed back by moves / shuffles, and copy / deepcopy / pickle duplicates of objects with built-up state
    for l in core.childq_cases(rng, 60 if tier == "quick" else 400, ['linNCPR 3', 'linFCR 2']):
        yield Case([l], {"kind": "object-from-move-or-copy"})
    # the property's own queries AFTER other public calls on the same object (same answers as on a fresh one)
    for c in gen.after_calls_cases(rng, 16 if tier == "quick" else 120, ['linNCPR 3', 'linFCR 3', 'linSigma 4', 'linHydro 2', 'linComp 3 -']):
        yield c
    n = 6 if tier == "quick" else 8
    for pat in gen.patterns_upto(n):
        s = gen.spell(pat, rng)
        for w in range(1, len(s) + 4):
            yield Case(block(s, w, rng, comp=(rng.random() < 0.3)), {"kind": "exhaustive"}, nontrivial=(w <= len(s)))
    for kind, s in gen.rand_seqs(rng, 80 if tier == "quick" else 800, 120):
        N = len(s)
        ws = {1, 2, 5, 6, N - 1, N, N + 1, N + 2, N + 3, rng.randint(1, N + 3), rng.randint(1, N + 3)}
        for w in sorted(x for x in ws if x >= 1):
            yield Case(block(s, w, rng), {"kind": kind}, nontrivial=(w <= N))
    # raw constructor arguments with white space (blocks of ten, line breaks, tabs): same answers as the normalised word
    for kind, s in gen.rand_seqs(rng, 20 if tier == "quick" else 200, 50):
        yield Case(gen.ws_lines(block(s, rng.randint(1, len(s)), rng), rng), {"kind": "whitespace-input"})
    # long sequences with > 127 / > 255 charged or neutral residues, net charge beyond +-127, length > 256
    for s in gen.large_regime()[:8 if tier == "quick" else 16]:
        for w in (127, 128, 129, 200, len(s)):
            if w <= len(s):
                yield Case(block(s, w, rng), {"kind": "large-regime"})
