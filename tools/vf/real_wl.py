"""C18: run WangLandauMachine.run_normal_WL on the real code under the recording RNG, with the guarded trace hook"""
import os, io, contextlib, tempfile, shutil, types
from fractions import Fraction


def run_wl(toks):
    """wlrun SEQ nbins binmin binmax flatchk flatcrit convLn seed maxsteps frozen"""
    import numpy as np
    from . import real_moves
    from localcider.backend import wang_landau as wl
    seq, nbins = toks[1], int(toks[2])
    binmin, binmax = float(Fraction(toks[3])), float(Fraction(toks[4]))
    flatchk, flatcrit, convln = int(toks[5]), float(Fraction(toks[6])), float(Fraction(toks[7]))
    seed, maxsteps = int(toks[8]), int(toks[9])
    frozen = real_moves.frozen_of(toks[10])
    os.environ["LOCALCIDER_VERIF"] = "1"
    os.environ["LOCALCIDER_VERIF_WL_MAXSTEPS"] = str(maxsteps)
    real_moves.install(seed)
    real_moves.RecordingRandom.CAP = 10 ** 9
    wl.rng = types.SimpleNamespace(Random=real_moves.RecordingRandom)
    d = tempfile.mkdtemp(prefix="ciderverif_wl_")
    # optional scripted proposals ("script:SEQ*count,SEQ*count,..."): the four proposal moves hand back the scripted sequences (all
    # rearrangements of the input) until the script is used up - the property quantifies over every sequence of proposals, and some
    # (e.g. an in-range bin first proposed after the occupied bin was visited > 710 times) practically never arise from random moves
    script = []
    if len(toks) > 11 and toks[11].startswith("script:"):
        for part in toks[11][7:].split(","):
            sq, cnt = part.split("*")
            script += [sq] * int(cnt)
    from localcider.backend.sequence import Sequence as _Seq
    _orig = {m: getattr(_Seq, m) for m in ("full_shuffle", "swapRandChargeRes", "permute_block_swap", "permute_cluster_charges")}
    proposals = []
    if not script:
        # pass-through wrappers that only COUNT the proposals the run asks for: every proposal must show up as one judged step
        def _mkc(name):
            def _move(self, *a, **k):
                r = _orig[name](self, *a, **k)
                proposals.append(r.seq)
                return r
            return _move
        for m in _orig:
            setattr(_Seq, m, _mkc(m))
    if script:
        _it = iter(script)

        def _mk(name):
            def _move(self, *a, **k):
                nxt = next(_it, None)
                return _Seq(nxt) if nxt is not None else _orig[name](self, *a, **k)
            return _move
        for m in _orig:
            setattr(_Seq, m, _mk(m))
    try:
        with contextlib.redirect_stdout(io.StringIO()):
            from . import real as _real
            if "@wrapper" in _real.FLAGS:
                # the public route: SequencePermutants(seq).initializeWangLandauParameters(...) builds the machine
                from localcider.sequencePermutants import SequencePermutants
                spm = SequencePermutants(seq)
                spm.initializeWangLandauParameters(d, frozen, nbins=nbins, binmin=binmin, binmax=binmax, flatchck=flatchk,
                                                   flatcrit=flatcrit, convergence=float(np.exp(convln)))
                m = spm.WLM
            else:
                m = wl.WangLandauMachine(seq, d, frozen, nbins=nbins, binmin=binmin, binmax=binmax, flatchk=flatchk,
                                         flatcrit=flatcrit, convergence=float(np.exp(convln)))
            if len(toks) > 11 and toks[11] == "second":
                # the run under test is the SECOND run() of the same machine: it must start from g = 0, H = 0, f = e again
                m.run()       # (its output files stay in the directory: the second run's files must describe the second run only)
                del proposals[:]
            real_moves.RecordingRandom.TAPE = []
            ret = m.run()
        files = {}
        for f in os.listdir(d):
            files[f] = open(os.path.join(d, f)).read()
        # the acceptance draws: the WL-level generator is the first instance; its random() calls alternate move-choice / acceptance
        trace = m._verif_trace
        return ("wl", {
            "cfg": {"nbins_actual": int(m.nbins_actual), "rmin": int(m.relevant_min), "rmax": int(m.relevant_max),
                    "ntarget": int(m.nbins_target), "nflatchk": int(m.nflatchk), "flatcrit": float(m.flatcrit),
                    "convergence": float(m.convergence), "bincts": [float(x) for x in m.getBinCenters()]},
            "start": m._verif_start, "trace": trace, "ret": [[float(x) for x in row] for row in ret], "files": files,
            "tape": list(real_moves.RecordingRandom.TAPE), "seq": m.seq.seq, "proposals": list(proposals), "scripted": bool(script)})
    finally:
        for m, f in _orig.items():
            setattr(_Seq, m, f)
        shutil.rmtree(d, ignore_errors=True)
        real_moves.RecordingRandom.CAP = 4000
