"""C18: run WangLandauMachine.run_normal_WL on the real code under the recording RNG, with the guarded trace hook"""
import os, io, contextlib, tempfile, shutil, types
from fractions import Fraction


def run_wl(toks):
    """wlrun SEQ nbins binmin binmax flatchk flatcrit convLn seed maxsteps frozen"""
    import numpy as np
    from . import real_moves
    from localcider.backend import wang_landau as wl
    seq, nbins = toks[1], int(toks[2])
    binmin, binmax = float(Fraction(toks[3])), float(Fraction(toks[4]))
    flatchk, flatcrit, convln = int(toks[5]), float(Fraction(toks[6])), float(Fraction(toks[7]))
    seed, maxsteps = int(toks[8]), int(toks[9])
    frozen = real_moves.frozen_of(toks[10])
    os.environ["LOCALCIDER_VERIF"] = "1"
    os.environ["LOCALCIDER_VERIF_WL_MAXSTEPS"] = str(maxsteps)
    real_moves.install(seed)
    real_moves.RecordingRandom.CAP = 10 ** 9
    wl.rng = types.SimpleNamespace(Random=real_moves.RecordingRandom)
    d = tempfile.mkdtemp(prefix="ciderverif_wl_")
    try:
        with contextlib.redirect_stdout(io.StringIO()):
            m = wl.WangLandauMachine(seq, d, frozen, nbins=nbins, binmin=binmin, binmax=binmax, flatchk=flatchk,
                                     flatcrit=flatcrit, convergence=float(np.exp(convln)))
            if len(toks) > 11 and toks[11] == "second":
                # the run under test is the SECOND run() of the same machine: it must start from g = 0, H = 0, f = e again
                m.run()
                for f in os.listdir(d):
                    os.remove(os.path.join(d, f))
            real_moves.RecordingRandom.TAPE = []
            ret = m.run()
        files = {}
        for f in os.listdir(d):
            files[f] = open(os.path.join(d, f)).read()
        # the acceptance draws: the WL-level generator is the first instance; its random() calls alternate move-choice / acceptance
        trace = m._verif_trace
        return ("wl", {
            "cfg": {"nbins_actual": int(m.nbins_actual), "rmin": int(m.relevant_min), "rmax": int(m.relevant_max),
                    "ntarget": int(m.nbins_target), "nflatchk": int(m.nflatchk), "flatcrit": float(m.flatcrit),
                    "convergence": float(m.convergence), "bincts": [float(x) for x in m.getBinCenters()]},
            "start": m._verif_start, "trace": trace, "ret": [[float(x) for x in row] for row in ret], "files": files,
            "tape": list(real_moves.RecordingRandom.TAPE), "seq": m.seq.seq})
    finally:
        shutil.rmtree(d, ignore_errors=True)
        real_moves.RecordingRandom.CAP = 4000
