"""
vf.runner — runs one property's check end to end (see DESIGN.md §3.3)
"""
import os, sys, json, time, random, importlib, argparse, traceback, re, collections
from . import core
from .core import log, Infra


class Case:
    __slots__ = ("block", "tags", "nontrivial", "note")

    def __init__(self, block, tags=None, nontrivial=True, note=None):
        self.block = block if isinstance(block, list) else [block]
        self.tags = tags or {}
        self.nontrivial = nontrivial
        self.note = note


def default_judge(P, case, reals, gens, specs):
    """returns list of (kind, index, detail).  kind in {'violation','tie'}"""
    out = []
    for i, (r, g, s) in enumerate(zip(reals, gens, specs)):
        if r[0] == "skip" or i < case.tags.get("judge_from", 0):
            continue        # (lines before `judge_from` only set the scene: other public calls made first on the same object)
        if r[0] == "childq":
            ok_c, why = core.judge_childq(r)
            if not ok_c:
                out.append(("violation", i, why))
            continue
        ok_s, _ = core.match(r, s)
        if not ok_s:
            out.append(("violation", i, "real=%r spec=%s" % (r, s[:300])))
            continue
        ok_g, _ = core.match(r, g)
        if not ok_g:
            out.append(("tie", i, "real=%r model@gen=%s (model@spec agrees with the real code)" % (r, g[:300])))
    return out


def load_corpus(pid):
    d = os.path.join(core.VERIF, "corpus", pid)
    cases = []
    if os.path.isdir(d):
        for f in sorted(os.listdir(d)):
            if f.endswith(".ops"):
                lines = [l.rstrip("\n") for l in open(os.path.join(d, f)) if l.strip() and not l.startswith("#")]
                if lines:
                    cases.append(Case(lines, tags={"kind": "corpus"}, note=f))
    return cases


def shrink_q(P, case, idx, still_fails, budget=40):
    """delta-debug the sequence of a single `q` op line"""
    line = case.block[idx]
    toks = line.split(" ")
    if toks[0] != "q" or len(case.block) != 1:
        return case
    seq = toks[2]
    best = seq
    n = 2
    tries = 0
    while len(best) >= 2 and tries < budget:
        chunk = max(1, len(best) // n)
        reduced = False
        for st in range(0, len(best), chunk):
            cand = best[:st] + best[st + chunk:]
            if not cand:
                continue
            tries += 1
            c2 = Case([" ".join(toks[:2] + [cand] + toks[3:])], tags=case.tags)
            if still_fails(c2):
                best = cand
                n = max(n - 1, 2)
                reduced = True
                break
            if tries >= budget:
                break
        if not reduced:
            if chunk == 1:
                break
            n = min(len(best), n * 2)
    return Case([" ".join(toks[:2] + [best] + toks[3:])], tags=case.tags)


def evaluate(P, cases):
    """returns list of (case, reals, gens, specs)"""
    blocks = [c.block for c in cases]
    t = time.time()
    reals = core.eval_real(blocks)
    core.prefetch_childq(reals)
    t_real = time.time() - t
    flat = [l for b in blocks for l in b]
    t = time.time()
    if getattr(P, "STATEFUL", False):
        # blocks carry driver state: one driver process per chunk of blocks, blocks separated by 'reset'
        gens = _run_blocks(blocks, "gen")
        specs = _run_blocks(blocks, "spec")
    else:
        g = core.run_driver_parallel(flat, "gen")
        s = core.run_driver_parallel(flat, "spec")
        gens, specs, k = [], [], 0
        for b in blocks:
            gens.append(g[k:k + len(b)])
            specs.append(s[k:k + len(b)])
            k += len(b)
    t_drv = time.time() - t
    return list(zip(cases, reals, gens, specs)), t_real, t_drv


def _run_blocks(blocks, mode):
    """stateful blocks: every block starts with `reset`; blocks are spread over several driver processes"""
    import threading
    k = max(1, min(core.NCPU, len(blocks) // 4))
    parts = [list(range(i, len(blocks), k)) for i in range(k)]
    res = [None] * len(blocks)
    errs = []

    def work(idx):
        try:
            lines = []
            for bi in idx:
                lines.append("reset")
                lines += blocks[bi]
            out = core.run_driver(lines, mode)
            p = 0
            for bi in idx:
                p += 1
                res[bi] = out[p:p + len(blocks[bi])]
                p += len(blocks[bi])
        except Exception as e:  # noqa
            errs.append(e)
    ths = [threading.Thread(target=work, args=(part,)) for part in parts]
    for t in ths:
        t.start()
    for t in ths:
        t.join()
    if errs:
        raise errs[0]
    return res


def run_check(pid, tier, seed, replay=None):
    t0 = time.time()
    P = importlib.import_module("vf.props." + pid)
    rng = random.Random((seed * 1000003) ^ int.from_bytes(pid.encode(), "big"))
    judge = getattr(P, "judge", None) or (lambda c, r, g, s: default_judge(P, c, r, g, s))
    known = core.load_known()
    listed = [f for f in known.get("findings", []) if f.get("property") == pid and f.get("status") == "known"]
    proof_broken = []
    regen = None
    build_out = ""
    audit_res = {}
    # ------------------------------------------------------------------ 1. regenerate + build + audit
    with core.Lock():
        regen = core.regenerate()
        rc, build_out = core.lake_build(["ciderdrv"])
        if rc != 0:
            # the model / driver itself no longer builds against the regenerated tables
            raise Infra("driver build failed:\n" + build_out[-3000:])
        targets = list(P.LEAN_TARGETS)
        opt_thms = []
        for opt in getattr(P, "OPTIONAL_TARGETS", []):
            optfile = os.path.join(core.LEAN, *opt.split(".")) + ".lean"
            if os.path.exists(optfile) and not any(opt.split(".")[-1] in u for u in (regen.get("unavailable") or [])):
                targets.append(opt)
                opt_thms += list(getattr(P, "OPTIONAL_THEOREMS", {}).get(opt, []))
        rc, build_out = core.lake_build(targets)
        if rc != 0:
            ft = core.failing_theorems(build_out)
            if not ft:
                raise Infra("lake build failed without a located error:\n" + build_out[-3000:])
            proof_broken += [dict(kind="theorem-fails", **f) for f in ft]
        if not regen["ok"]:
            proof_broken.append({"kind": "translator-failed", "errors": regen["errors"]})
        thms = list(P.THEOREMS) + opt_thms
        n_obl = len(thms)
        discharged = 0
        if rc == 0:
            audit_res, aout = core.audit(thms, targets)
            for t in thms:
                ax = audit_res.get(t)
                if ax is None:
                    proof_broken.append({"kind": "theorem-missing", "decl": t})
                elif not set(ax) <= core.ALLOWED_AXIOMS:
                    proof_broken.append({"kind": "axioms", "decl": t, "axioms": ax})
                else:
                    discharged += 1
            hits = core.grep_forbidden()
            if hits:
                proof_broken.append({"kind": "forbidden-token", "hits": hits})
                discharged = 0
        leancheck = None
        if tier == "thorough" and rc == 0 and os.environ.get("VERIF_SKIP_LEANCHECKER") != "1":
            rc2, lo = core.run(["lake", "env", "leanchecker"] + targets, cwd=core.LEAN, timeout=3000)
            leancheck = {"rc": rc2, "tail": lo[-300:]}
            if rc2 != 0:
                proof_broken.append({"kind": "leanchecker", "out": lo[-1000:]})
    t_build = time.time() - t0

    # ------------------------------------------------------------------ 2. correspondence + oracle
    if replay:
        if not os.path.isabs(replay):
            replay = os.path.join(core.VERIF, replay)
        js = json.load(open(replay))
        tg = js.get("tags") or {}
        tg = dict(tg) if isinstance(tg, dict) else {}
        tg.setdefault("kind", "replay")
        cases = [Case(js["block"], tags=tg)] if "block" in js else []
    else:
        cases = load_corpus(pid) + list(P.cases(rng, tier))
    results, t_real, t_drv = evaluate(P, cases) if cases else ([], 0, 0)
    violations, ties, knowns = [], [], collections.OrderedDict()
    kinds = collections.Counter()
    distinct = set()
    exc_kinds = collections.Counter()
    nlines = 0
    for case, reals, gens, specs in results:
        kinds[case.tags.get("kind", "?")] += 1
        nlines += len(case.block)
        for r in reals:
            if r[0] == "exc":
                exc_kinds[r[1]] += 1
        if case.nontrivial:
            distinct.add("\n".join(case.block))
        for kind, idx, detail in judge(case, reals, gens, specs):
            if kind == "violation":
                kf = P.known_match(case, idx, reals, specs, listed, detail) if hasattr(P, "known_match") else None
                if kf:
                    knowns.setdefault(kf["id"], {"finding": kf, "count": 0, "first": case.block})
                    knowns[kf["id"]]["count"] += 1
                else:
                    violations.append((case, idx, detail, reals, specs))
            elif kind == "tie":
                ties.append((case, idx, detail))

    # the same judgement for a sample of the cases evaluated under `python -O` (assert statements removed): validation must not live in asserts
    opt_sample = 0
    if not replay and getattr(P, "OPT_MODE", True) and results:
        rng3 = random.Random(seed + 104729)
        pool_ = [r for r in results if not any(l.startswith(("wlrun", "plot", "move")) for l in r[0].block) and len(r[0].block) <= 60]
        rej = [r for r in pool_ if any(s.startswith("exc") for s in r[3])]
        oth = [r for r in pool_ if not any(s.startswith("exc") for s in r[3])]
        rng3.shuffle(rej)
        rng3.shuffle(oth)
        sample = rej[:150 if tier == "quick" else 600] + oth[:60 if tier == "quick" else 300]
        if sample:
            try:
                reals_o = core.eval_real_optimized([c.block for c, _, _, _ in sample])
            except Exception as e:  # noqa
                raise Infra("python -O evaluation: %r" % (e,))
            opt_sample = len(sample)
            for (case, _r, gens, specs), ro in zip(sample, reals_o):
                for kind, idx, detail in judge(case, ro, gens, specs):
                    if kind == "violation":
                        kf = P.known_match(case, idx, ro, specs, listed, detail) if hasattr(P, "known_match") else None
                        if not kf:
                            c2 = Case(case.block, dict(case.tags, interpreter="python -O"), nontrivial=case.nontrivial)
                            violations.append((c2, idx, "[in a child interpreter started with python -O (assert statements compiled away) and with RuntimeWarning raised as an error] " + detail, ro, specs))

    # deeper search for a concrete failing input when only the proof / tie is broken
    searched_more = False
    if (proof_broken or ties) and not violations and not replay and tier == "quick":
        searched_more = True
        rng2 = random.Random(seed + 7919)
        extra = list(P.cases(rng2, "thorough"))
        budget = getattr(P, "SEARCH_BUDGET", 20000)
        extra = extra[:budget]
        res2, _, _ = evaluate(P, extra)
        for case, reals, gens, specs in res2:
            for kind, idx, detail in judge(case, reals, gens, specs):
                if kind == "violation":
                    kf = P.known_match(case, idx, reals, specs, listed, detail) if hasattr(P, "known_match") else None
                    if not kf:
                        violations.append((case, idx, detail, reals, specs))

    # ------------------------------------------------------------------ 3. verdict
    status = 0
    out_lines = []
    replay_file = None
    if violations:
        status = 1
        # smallest failing case first
        violations.sort(key=lambda v: (len(v[0].block), sum(len(l) for l in v[0].block)))
        case, idx, detail, reals, specs = violations[0]

        def still_fails(c2):
            r2, _, _ = evaluate(P, [c2])
            c, rr, gg, ss = r2[0]
            return any(k == "violation" for k, _, _ in judge(c, rr, gg, ss))
        try:
            small = shrink_q(P, case, idx, still_fails)
            r2, _, _ = evaluate(P, [small])
            c, rr, gg, ss = r2[0]
            jd = [j for j in judge(c, rr, gg, ss) if j[0] == "violation"]
            if jd:
                case, idx, detail, reals, specs = small, jd[0][1], jd[0][2], rr, ss
        except Exception:
            pass
        replay_file = core.replay_path(pid, "violation")
        core.write_json(replay_file, {
            "property": pid, "kind": "failing-input", "block": case.block, "failing_line": idx, "tags": case.tags,
            "real": [list(map(str, r)) for r in reals], "spec": specs, "detail": detail,
            "how_to_replay": "./check %s --replay %s   (runs the op lines on the real API and on the spec driver)" % (pid, os.path.relpath(core.replay_path(pid, "violation"), core.VERIF)),
            "other_failing_cases": [v[0].block for v in violations[1:20]], "n_failing": len(violations),
            "proof_broken": proof_broken})
        out_lines.append("VIOLATION property=%s replay=%s" % (pid, os.path.relpath(replay_file, core.VERIF)))
    elif proof_broken or ties:
        status = 1
        replay_file = core.replay_path(pid, "broken")
        core.write_json(replay_file, {
            "property": pid, "kind": "no-failing-input-found",
            "theorems_or_obligations_no_longer_checking": proof_broken,
            "correspondence_disagreements": [{"block": c.block, "line": i, "detail": d} for c, i, d in ties[:20]],
            "n_correspondence_disagreements": len(ties),
            "searched": {"cases": len(cases), "extra_thorough_search": searched_more},
            "build_output_tail": build_out[-3000:] if proof_broken else ""})
        out_lines.append("VIOLATION property=%s replay=%s no-failing-input-found" % (pid, os.path.relpath(replay_file, core.VERIF)))
    for kid, k in knowns.items():
        out_lines.append("KNOWN-FINDING: property=%s %s [%s; seen on %d inputs this run, e.g. %s]" %
                         (pid, k["finding"]["what"], kid, k["count"], " ; ".join(k["first"])[:120]))

    # ------------------------------------------------------------------ 4. evidence
    wall = time.time() - t0
    samples = []
    for case, reals, gens, specs in results[:: max(1, len(results) // 6)][:6]:
        samples.append({"ops": case.block[:6], "real": [str(r)[:160] for r in reals[:6]], "model": [g[:160] for g in gens[:6]]})
    if not samples:
        samples = [{"obligation": t, "axioms": audit_res.get(t)} for t in thms[:5]]
    ev = {
        "property_id": pid, "tier": tier, "seed": int(seed), "level": "proof",
        "coverage": {
            "obligations": n_obl, "discharged": discharged,
            "checker_cmd": "cd lean && lake build %s && lake env lean <#print axioms for the %d theorems>%s" % (
                " ".join(targets), n_obl, " && lake env leanchecker " + " ".join(targets) if tier == "thorough" else ""),
            "trusted_base": core.TRUSTED_BASE_COMMON + list(getattr(P, "TRUSTED", [])),
            "theorems": {t: audit_res.get(t) for t in thms},
            "evaluations": nlines, "cases": len(results), "distinct_nontrivial": len(distinct),
            "rule": getattr(P, "RULE", ""), "samples": samples,
            "exhaustive": bool(getattr(P, "EXHAUSTIVE", {}).get(tier)), "exhaustive_what": getattr(P, "EXHAUSTIVE", {}).get(tier),
            "input_distribution": dict(kinds), "exception_kinds": dict(exc_kinds),
            "translator": {"ok": regen["ok"], "changed_files": regen["changed"], "errors": regen["errors"],
                           "unavailable": regen.get("unavailable", [])},
            "correspondence_disagreements": len(ties), "known_findings_seen": {k: v["count"] for k, v in knowns.items()},
            "leanchecker": leancheck, "searched_more": searched_more, "cases_also_run_under_python_O": opt_sample,
            "timing_s": {"build_audit": round(t_build, 1), "real": round(t_real, 1), "driver": round(t_drv, 1)},
        },
        "assumptions": list(getattr(P, "ASSUMPTIONS", [])),
        "wall_s": round(wall, 2), "violations": len(violations) + (1 if (status and not violations) else 0),
    }
    core.write_json(os.path.join(core.VERIF, "evidence", pid + ".json"), ev)
    for l in out_lines:
        print(l)
    print("%s %s tier=%s seed=%d: %d/%d obligations, %d cases (%d op lines, %d distinct non-trivial), %d violations, %d tie-breaks, %d known; %.1fs" % (
        "FAIL" if status else "OK", pid, tier, seed, discharged, n_obl, len(results), nlines, len(distinct), len(violations), len(ties), len(knowns), wall))
    return status


def main(argv=None):
    ap = argparse.ArgumentParser()
    ap.add_argument("pid")
    ap.add_argument("--tier", default=os.environ.get("VERIF_TIER", "quick"), choices=["quick", "thorough"])
    ap.add_argument("--replay")
    a = ap.parse_args(argv)
    seed = int(os.environ.get("VERIF_SEED", "1") or 1)
    try:
        return run_check(a.pid, a.tier, seed, a.replay)
    except Infra as e:
        log("INFRASTRUCTURE FAILURE:", e)
        return 2
    except Exception:
        traceback.print_exc()
        return 2


if __name__ == "__main__":
    sys.exit(main())
