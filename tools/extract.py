#!/venv/bin/python
"""
(G) translator, part 1: tabulate the finite facts of the LIVE localcider code in
/repo's working tree into Lean source  lean/Cider/Gen/Tables.lean.

Everything is obtained by *importing the live modules and calling them*
(robust against re-ordering / re-formatting), never by reading a frozen copy.
Floats are converted to exact rationals in lowest terms (num, den) with
Fraction(x).limit_denominator(10**6), accepted only if it reproduces the float
to 1e-12 (otherwise the exact binary value of the float is used, so a changed
table entry always changes the generated file).

Exit status: 0 = file(s) written (only rewritten when content changes);
             3 = the live code could not be tabulated (message on stderr, JSON on stdout).
"""
import sys, os, json, io, contextlib, traceback
from fractions import Fraction

REPO = os.environ.get("CIDER_REPO", "/repo")
sys.path.insert(0, REPO)
os.environ.setdefault("MPLBACKEND", "Agg")
OUT = os.path.join(os.path.dirname(os.path.abspath(__file__)), "..", "lean", "Cider", "Gen")

AAS = "ACDEFGHIKLMNPQRSTVWY"
SIZES = list(range(0, 26))
COLOUR_PROBE = ['aqua', 'black', 'blue', 'fuchsia', 'gray', 'green', 'lime', 'maroon', 'navy', 'olive',
                'orange', 'purple', 'red', 'silver', 'teal', 'white', 'yellow',
                # not among the 17
                'grey', 'cyan', 'magenta', 'pink', 'brown', 'gold', 'violet', 'indigo', 'tan', 'beige',
                'Red', 'BLACK', 'Aqua', '', ' red', 'red ', '#ff0000', 'darkgreen', 'lightblue', 'crimson',
                'khaki', 'salmon', 'turquoise', 'none']


def frac(x):
    if isinstance(x, bool):
        raise ValueError("bool where number expected")
    if isinstance(x, int):
        return Fraction(x)
    x = float(x)
    if x != x or x in (float("inf"), float("-inf")):
        raise ValueError("non-finite table value %r" % x)
    f = Fraction(x).limit_denominator(10 ** 6)
    if abs(float(f) - x) <= 1e-12 * max(1.0, abs(x)):
        return f
    return Fraction(x)


def nd(x):
    f = frac(x)
    return "(%d, %d)" % (f.numerator, f.denominator)


def lean_str(s):
    out = '"'
    for ch in s:
        if ch == '"':
            out += '\\"'
        elif ch == '\\':
            out += '\\\\'
        elif ch == '\n':
            out += '\\n'
        elif 32 <= ord(ch) < 127:
            out += ch
        else:
            out += '\\u{%x}' % ord(ch)
    return out + '"'


def table(name, typ, fn, comment=""):
    lines = []
    if comment:
        lines.append("/-- %s -/" % comment)
    lines.append("def %s : AA → %s" % (name, typ))
    for a in AAS:
        lines.append("  | .%s => %s" % (a, fn(a)))
    return "\n".join(lines) + "\n"


def quiet(f, *a, **k):
    buf = io.StringIO()
    with contextlib.redirect_stdout(buf):
        return f(*a, **k)


def build_tables():
    from localcider.backend import sequence as seqmod
    from localcider.backend.sequence import Sequence
    from localcider.backend.data import aminoacids
    from localcider.backend.sequenceComplexity import SequenceComplexity
    lk = seqmod.lkupTab
    parts = []
    parts.append("-- AUTO-GENERATED on every run by tools/extract.py from the live code in /repo. DO NOT EDIT.\n"
                 "import Cider.Model.Basic\nnamespace Cider.Gen\nopen Cider\n")

    def chg(a):
        c = lk.lookUpCharge(a)
        f = frac(c)
        if f.denominator != 1:
            raise ValueError("non-integral residue charge %r for %s" % (c, a))
        return "(%d : Int)" % f.numerator
    parts.append(table("charge", "Int", chg, "lkupTab.lookUpCharge(res)"))
    # the reduced letters deltaMax feeds back into Sequence(...)
    parts.append("/-- lkupTab.lookUpCharge('+'), ('-'), ('0') -/\ndef chargeReduced : Int × Int × Int := (%d, %d, %d)\n"
                 % (lk.lookUpCharge('+'), lk.lookUpCharge('-'), lk.lookUpCharge('0')))
    parts.append(table("kdND", "Int × Nat", lambda a: nd(lk.lookUpHydropathy(a)),
                       "lkupTab.lookUpHydropathy(res) (Kyte-Doolittle shifted to 0..9), as (num, den)"))
    kdu = aminoacids.get_KD_uversky()
    parts.append(table("kdUverskyND", "Int × Nat", lambda a: nd(kdu[aminoacids.ONE_TO_THREE[a]]),
                       "get_KD_uversky()[ONE_TO_THREE[res]]"))
    ww = aminoacids.get_WW_original()
    parts.append(table("wwND", "Int × Nat", lambda a: nd(ww[aminoacids.ONE_TO_THREE[a]]), "get_WW_original()"))
    for mode, nm in (("hilser", "ppiiHilserND"), ("creamer", "ppiiCreamerND"), ("kallenbach", "ppiiKallenbachND")):
        parts.append(table(nm, "Int × Nat", lambda a, mode=mode: nd(lk.lookUpPPII(a, mode)), "lookUpPPII(res,'%s')" % mode))
    mw = aminoacids.get_molecular_weight_Da()
    parts.append(table("mwND", "Int × Nat", lambda a: nd(mw[a]), "get_molecular_weight_Da()"))
    pka = aminoacids.get_pKa()
    parts.append(table("pKaND", "Option (Int × Nat)", lambda a: ("some " + nd(pka[a])) if a in pka else "none", "get_pKa()"))

    # behavioural probes on single-residue Sequence objects
    def one(a):
        return Sequence(a)
    parts.append(table("disorderPromoting", "Bool",
                       lambda a: "true" if quiet(one(a).fraction_disorder_promoting) == 1.0 else "false",
                       "fraction_disorder_promoting() of the one-residue sequence is 1"))
    parts.append(table("expanding", "Bool", lambda a: "true" if quiet(one(a).FER) == 1.0 else "false",
                       "FER() of the one-residue sequence is 1"))
    parts.append(table("sty", "Bool", lambda a: "true" if quiet(one(a).get_STY_residues) == [1] else "false",
                       "get_STY_residues() of the one-residue sequence is [1]"))

    def omega(a):
        r = quiet(one(a).Omega_seq)
        if r not in ("X", "O"):
            raise ValueError("Omega_seq(%s) = %r" % (a, r))
        return "true" if r == "X" else "false"
    parts.append(table("omegaX", "Bool", omega, "Omega_seq() of the one-residue sequence is 'X'"))

    def titr(a):
        lo = float(quiet(one(a).charge_at_pH, -30.0))
        hi = float(quiet(one(a).charge_at_pH, 44.0))
        # fully protonated / fully deprotonated limits
        if abs(lo - 1) < 1e-9 and abs(hi) < 1e-9:
            return "(1 : Int)"
        if abs(lo) < 1e-9 and abs(hi + 1) < 1e-9:
            return "(-1 : Int)"
        if abs(lo) < 1e-9 and abs(hi) < 1e-9:
            return "(0 : Int)"
        raise ValueError("charge_at_pH limits for %s are %r, %r" % (a, lo, hi))
    parts.append(table("titrClass", "Int", titr,
                       "+1: charge_at_pH→(1,0) at pH→(−∞,+∞) (basic); −1: (0,−1) (acidic); 0: never charged"))

    # half-titration point found by probing the live function (independent of get_pKa's table)
    def half(a):
        s = one(a)
        c = titr(a)
        if c == "(0 : Int)":
            return "none"
        target = 0.5 if c == "(1 : Int)" else -0.5
        lo, hi = -30.0, 44.0
        for _ in range(200):
            mid = (lo + hi) / 2
            v = float(quiet(s.charge_at_pH, mid))
            if v > target:
                lo = mid
            else:
                hi = mid
        return "some " + nd(round((lo + hi) / 2, 9))
    parts.append(table("halfPointND", "Option (Int × Nat)", half, "pH at which charge_at_pH of the single residue is ±1/2"))

    # reduced alphabets
    sc = SequenceComplexity()
    red_lines = ["/-- reduce_alphabet(res, k)[0] for each predefined size k; none = size rejected -/",
                 "def reduceTab : Nat → Option (AA → AA)"]
    alph_lines = ["/-- reduce_alphabet(·, k)[1] -/", "def alphabetTab : Nat → Option (List AA)"]
    for k in SIZES:
        try:
            outs = {}
            alph = None
            for a in AAS:
                r, al = quiet(sc.reduce_alphabet, a, k)
                if len(r) != 1 or r not in AAS:
                    raise ValueError("reduce_alphabet(%s,%d) -> %r" % (a, k, r))
                outs[a] = r
                al = list(al)
                if alph is None:
                    alph = al
                elif alph != al:
                    raise ValueError("alphabet for size %d depends on the sequence" % k)
            for x in alph:
                if x not in AAS or len(x) != 1:
                    raise ValueError("alphabet letter %r" % (x,))
            red_lines.append("  | %d => some (fun a => match a with %s)" % (k, " ".join("| .%s => .%s" % (a, outs[a]) for a in AAS)))
            alph_lines.append("  | %d => some [%s]" % (k, ", ".join("." + x for x in alph)))
        except ValueError:
            raise
        except Exception as e:
            if e.__class__.__name__ != "SequenceComplexityException":
                raise
    red_lines.append("  | _ => none")
    alph_lines.append("  | _ => none")
    parts.append("\n".join(red_lines) + "\n")
    parts.append("\n".join(alph_lines) + "\n")
    parts.append("def probedSizes : List Nat := [%s]\n" % ", ".join(map(str, SIZES)))

    # palette
    s = Sequence("A")
    pal = dict(s.aminoAcidColorMap)
    parts.append(table("defaultPalette", "String", lambda a: lean_str(pal[a]), "palette of a freshly constructed object"))
    dp = aminoacids.DEFAULT_COLOR_PALETTE
    parts.append(table("defaultPaletteConst", "String", lambda a: lean_str(dp[a]), "aminoacids.DEFAULT_COLOR_PALETTE"))
    acc = []
    for c in COLOUR_PROBE:
        d = dict(dp)
        d['A'] = c
        try:
            quiet(Sequence("A").set_HTMLColorResiduePalette, d)
            ok = True
        except Exception as e:
            if e.__class__.__name__ != "SequenceException":
                raise
            ok = False
        acc.append((c, ok))
    parts.append("/-- probe: is colour name accepted by set_HTMLColorResiduePalette (as the value for 'A') -/\n"
                 "def colourProbe : List (String × Bool) := [\n  %s]\n" %
                 ",\n  ".join("(%s, %s)" % (lean_str(c), "true" if ok else "false") for c, ok in acc))
    parts.append("end Cider.Gen\n")
    return "\n".join(parts)


def build_polygons():
    import matplotlib
    matplotlib.use("Agg")
    import matplotlib.pyplot as plt
    from localcider import plots
    out = ["-- AUTO-GENERATED on every run by tools/extract.py from the live code in /repo. DO NOT EDIT.\n"
           "import Cider.Model.Basic\nnamespace Cider.Gen\n"]

    def polys_of(fig_fn, *args):
        plt.close('all')
        r = quiet(fig_fn, *args, getFig=True)
        ax = plt.gcf().axes[0]
        res = []
        for p in ax.patches:
            xy = p.get_xy()
            pts = [(frac(float(x)), frac(float(y))) for x, y in xy]
            if len(pts) > 1 and pts[0] == pts[-1]:
                pts = pts[:-1]
            res.append(pts)
        plt.close('all')
        return res
    for name, fn, args in (("phasePolygons", plots.show_single_phasePlot, (0.1, 0.1)),
                           ("uverskyPolygons", plots.show_single_uverskyPlot, (0.5, 0.1))):
        ps = polys_of(fn, *args)
        out.append("/-- vertices (x,y as (num,den) pairs) of the filled patches of the figure %s draws, in drawing order -/" % fn.__name__)
        out.append("def %s : List (List ((Int × Nat) × (Int × Nat))) := [" % name)
        out.append(",\n".join("  [" + ", ".join("((%d, %d), (%d, %d))" % (x.numerator, x.denominator, y.numerator, y.denominator)
                                                for x, y in pts) + "]" for pts in ps))
        out.append("]\n")
    out.append("end Cider.Gen\n")
    return "\n".join(out)


def build_unicode():
    """CPython's own str.upper / str.isspace, tabulated over every code point (interpreter facts, not repo facts):
    the non-ASCII white-space characters, and the non-ASCII characters whose upper-casing consists only of
    amino-acid letters / white space (every other non-ASCII character is rejected whatever its upper-casing is)."""
    AA = set(AAS)
    sp = [c for c in range(128, 0x110000) if chr(c).isspace()]
    up = []
    for c in range(128, 0x110000):
        if 0xD800 <= c <= 0xDFFF:
            continue
        ch = chr(c)
        u = ch.upper()
        if u != ch and all((x in AA) or x.isspace() for x in u):
            up.append((c, [ord(x) for x in u]))
    asc_sp = [c for c in range(128) if chr(c).isspace()]
    asc_up = [(c, [ord(x) for x in chr(c).upper()]) for c in range(128) if chr(c).upper() != chr(c)]
    out = ["-- AUTO-GENERATED on every run by tools/extract.py from the running CPython interpreter. DO NOT EDIT.",
           "namespace Cider.Gen",
           "/-- non-ASCII code points with str.isspace() -/",
           "def unicodeSpaces : List Nat := [%s]" % ", ".join(map(str, sp)),
           "/-- ASCII code points with str.isspace() -/",
           "def asciiSpaces : List Nat := [%s]" % ", ".join(map(str, asc_sp)),
           "/-- non-ASCII code points whose str.upper() consists only of amino-acid letters / white space -/",
           "def unicodeUpper : List (Nat × List Nat) := [%s]" % ", ".join("(%d, [%s])" % (c, ", ".join(map(str, u))) for c, u in up),
           "/-- ASCII code points changed by str.upper() -/",
           "def asciiUpperTab : List (Nat × List Nat) := [%s]" % ", ".join("(%d, [%s])" % (c, ", ".join(map(str, u))) for c, u in asc_up),
           "end Cider.Gen", ""]
    return "\n".join(out)


def write_if_changed(path, content):
    try:
        old = open(path).read()
    except FileNotFoundError:
        old = None
    if old != content:
        tmp = path + ".tmp%d" % os.getpid()
        with open(tmp, "w") as fh:
            fh.write(content)
        os.replace(tmp, path)
        return True
    return False


def main():
    os.makedirs(OUT, exist_ok=True)
    status = {"ok": True, "changed": [], "errors": {}}
    for fname, builder in (("Tables.lean", build_tables), ("Polygons.lean", build_polygons), ("Unicode.lean", build_unicode)):
        try:
            content = builder()
            if write_if_changed(os.path.join(OUT, fname), content):
                status["changed"].append(fname)
        except Exception as e:
            status["ok"] = False
            status["errors"][fname] = "%s: %s" % (e.__class__.__name__, e)
            traceback.print_exc(file=sys.stderr)
    print(json.dumps(status))
    return 0 if status["ok"] else 3


if __name__ == "__main__":
    sys.exit(main())
