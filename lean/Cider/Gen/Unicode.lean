-- AUTO-GENERATED on every run by tools/extract.py from the running CPython interpreter. DO NOT EDIT.
namespace Cider.Gen
/-- non-ASCII code points with str.isspace() -/
def unicodeSpaces : List Nat := [133, 160, 5760, 8192, 8193, 8194, 8195, 8196, 8197, 8198, 8199, 8200, 8201, 8202, 8232, 8233, 8239, 8287, 12288]
/-- ASCII code points with str.isspace() -/
def asciiSpaces : List Nat := [9, 10, 11, 12, 13, 28, 29, 30, 31, 32]
/-- non-ASCII code points whose str.upper() consists only of amino-acid letters / white space -/
def unicodeUpper : List (Nat × List Nat) := [(223, [83, 83]), (305, [73]), (383, [83]), (64256, [70, 70]), (64257, [70, 73]), (64258, [70, 76]), (64259, [70, 70, 73]), (64260, [70, 70, 76]), (64261, [83, 84]), (64262, [83, 84])]
/-- ASCII code points changed by str.upper() -/
def asciiUpperTab : List (Nat × List Nat) := [(97, [65]), (98, [66]), (99, [67]), (100, [68]), (101, [69]), (102, [70]), (103, [71]), (104, [72]), (105, [73]), (106, [74]), (107, [75]), (108, [76]), (109, [77]), (110, [78]), (111, [79]), (112, [80]), (113, [81]), (114, [82]), (115, [83]), (116, [84]), (117, [85]), (118, [86]), (119, [87]), (120, [88]), (121, [89]), (122, [90])]
end Cider.Gen
