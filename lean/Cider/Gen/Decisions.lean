-- AUTO-GENERATED on every run by tools/pyexpr2lean.py from the live SOURCE TEXT in /repo. DO NOT EDIT.
namespace Cider.Gen

/-- translated from localcider/backend/sequence.py:Sequence.phasePlotRegion (line 544) -/
def phasePlotRegion (FCR : Rat) (NCPR : Rat) (Fplus : Rat) (Fminus : Rat) : Except Unit Rat :=
  let fcr : Rat := FCR
  let ncpr : Rat := NCPR
  if (fcr < ((1 : Rat) / 4)) then
    .ok (1 : Rat)
  else
    if ((fcr ≥ ((1 : Rat) / 4)) ∧ (fcr ≤ ((7 : Rat) / 20))) then
      .ok (2 : Rat)
    else
      if ((fcr > ((7 : Rat) / 20)) ∧ ((if ncpr < 0 then -ncpr else ncpr) < ((7 : Rat) / 20))) then
        .ok (3 : Rat)
      else
        if (Fplus > ((7 : Rat) / 20)) then
          if (Fminus > ((7 : Rat) / 20)) then
            .error ()
          else
            .ok (5 : Rat)
        else
          if (Fminus > ((7 : Rat) / 20)) then
            .ok (4 : Rat)
          else
            .error ()

/-- translated from localcider/backend/sequence.py:Sequence.kappa (line 415) -/
def kappaDecision (deltaMax : Rat) (delta : Rat) : Except Unit Rat :=
  if (deltaMax = (0 : Rat)) then
    .ok (-(1 : Rat))
  else
    let kappaVal : Rat := (delta / deltaMax)
    if ((kappaVal > ((1 : Rat) / 1)) ∧ (kappaVal < ((11 : Rat) / 10))) then
      .ok ((1 : Rat) / 1)
    else
      .ok kappaVal

/-- translated from localcider/backend/sequence.py:Sequence.sigma (line 1093) -/
def sigmaDecision (countNeut : Rat) (len : Rat) (NCPR : Rat) (FCR : Rat) : Except Unit Rat :=
  if (countNeut = len) then
    .ok (0 : Rat)
  else
    .ok ((NCPR * NCPR) / FCR)

/-- translated from localcider/backend/sequence.py:Sequence._Sequence__check_window_to_length (line 1957) -/
def checkWindow (bloblen : Rat) (len_seq : Rat) : Except Unit Rat :=
  if (len_seq < bloblen) then
    .error ()
  else
    .ok 0

/-- translated from localcider/sequenceParameters.py:SequenceParameters._SequenceParameters__verify_pH (line 1046) -/
def verifyPH (pH : Rat) : Except Unit Rat :=
  if (pH < ((0 : Rat) / 1)) then
    .error ()
  else
    if (pH > ((14 : Rat) / 1)) then
      .error ()
    else
      .ok 0

/-- translated from localcider/backend/wang_landau.py:WangLandauMachine.indexInsideRelevantRegion (line 285) -/
def insideRelevant (idx : Rat) (relevant_max : Rat) (relevant_min : Rat) : Except Unit Rat :=
  if ((idx ≤ relevant_max) ∧ (idx ≥ relevant_min)) then
    .ok (1 : Rat)
  else
    .ok (0 : Rat)

/-- which decision functions could be translated on this run -/
def translatedDecisions : List String := ["phasePlotRegion", "kappaDecision", "sigmaDecision", "checkWindow", "verifyPH", "insideRelevant"]

end Cider.Gen
