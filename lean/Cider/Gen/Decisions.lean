-- AUTO-GENERATED on every run by tools/pyexpr2lean.py from the live SOURCE TEXT in /repo. DO NOT EDIT.
namespace Cider.Gen

/-- translated from localcider/backend/sequence.py:Sequence.phasePlotRegion (line 544) -/
def phasePlotRegion (FCR : Rat) (NCPR : Rat) (Fplus : Rat) (Fminus : Rat) : Except Unit (Rat) :=
  let fcr : Rat := FCR
  let ncpr : Rat := NCPR
  if (fcr < ((1 : Rat) / 4)) then
    .ok (1 : Rat)
  else
    if ((fcr ≥ ((1 : Rat) / 4)) ∧ (fcr ≤ ((7 : Rat) / 20))) then
      .ok (2 : Rat)
    else
      if ((fcr > ((7 : Rat) / 20)) ∧ ((if ncpr < 0 then -ncpr else ncpr) < ((7 : Rat) / 20))) then
        .ok (3 : Rat)
      else
        if (Fplus > ((7 : Rat) / 20)) then
          if (Fminus > ((7 : Rat) / 20)) then
            .error ()
          else
            .ok (5 : Rat)
        else
          if (Fminus > ((7 : Rat) / 20)) then
            .ok (4 : Rat)
          else
            .error ()

/-- translated from localcider/backend/sequence.py:Sequence.kappa (line 415) -/
def kappaDecision (deltaMax : Rat) (delta : Rat) : Except Unit (Rat) :=
  if (deltaMax = (0 : Rat)) then
    .ok (-(1 : Rat))
  else
    let kappaVal : Rat := (delta / deltaMax)
    if ((kappaVal > ((1 : Rat) / 1)) ∧ (kappaVal < ((11 : Rat) / 10))) then
      .ok ((1 : Rat) / 1)
    else
      .ok kappaVal

/-- translated from localcider/backend/sequence.py:Sequence.sigma (line 1093) -/
def sigmaDecision (countNeut : Rat) (len : Rat) (NCPR : Rat) (FCR : Rat) : Except Unit (Rat) :=
  if (countNeut = len) then
    .ok (0 : Rat)
  else
    .ok ((NCPR * NCPR) / FCR)

/-- translated from localcider/backend/sequence.py:Sequence._Sequence__check_window_to_length (line 1957) -/
def checkWindow (bloblen : Rat) (len_seq : Rat) : Except Unit (Rat) :=
  if (len_seq < bloblen) then
    .error ()
  else
    .ok 0

/-- translated from localcider/sequenceParameters.py:SequenceParameters._SequenceParameters__verify_pH (line 1046) -/
def verifyPH (pH : Rat) : Except Unit (Rat) :=
  if (pH < ((0 : Rat) / 1)) then
    .error ()
  else
    if (pH > ((14 : Rat) / 1)) then
      .error ()
    else
      .ok 0

/-- translated from localcider/backend/wang_landau.py:WangLandauMachine.indexInsideRelevantRegion (line 285) -/
def insideRelevant (idx : Rat) (relevant_max : Rat) (relevant_min : Rat) : Except Unit (Rat) :=
  if ((idx ≤ relevant_max) ∧ (idx ≥ relevant_min)) then
    .ok (1 : Rat)
  else
    .ok (0 : Rat)

/-- translated from localcider/backend/sequence.py:Sequence.Fplus (line 254) -/
def fplusSrc (countPos : Rat) (len : Rat) : Except Unit (Rat) :=
  .ok (countPos / (len + ((0 : Rat) / 1)))

/-- translated from localcider/backend/sequence.py:Sequence.Fminus (line 259) -/
def fminusSrc (countNeg : Rat) (len : Rat) : Except Unit (Rat) :=
  .ok (countNeg / (len + ((0 : Rat) / 1)))

/-- translated from localcider/backend/sequence.py:Sequence.FCR (line 264) -/
def fcrSrc (countPos : Rat) (countNeg : Rat) (len : Rat) : Except Unit (Rat) :=
  .ok ((countPos + countNeg) / (len + ((0 : Rat) / 1)))

/-- translated from localcider/backend/sequence.py:Sequence.NCPR (line 282) -/
def ncprSrc (countPos : Rat) (countNeg : Rat) (len : Rat) : Except Unit (Rat) :=
  .ok ((countPos - countNeg) / (len + ((0 : Rat) / 1)))

/-- translated from localcider/backend/sequence.py:Sequence.FER (line 273) -/
def ferSrc (countPos : Rat) (countNeg : Rat) (count_P : Rat) (len : Rat) : Except Unit (Rat) :=
  .ok (((countPos + countNeg) + count_P) / (len + ((0 : Rat) / 1)))

/-- translated from localcider/backend/sequence.py:Sequence.mean_net_charge (line 290) -/
def mncSrc (NCPR : Rat) : Except Unit (Rat) :=
  .ok (if NCPR < 0 then -NCPR else NCPR)

/-- translated from localcider/backend/sequence.py:Sequence.delta (line 1146) -/
def deltaSrc (deltaForm_5 : Rat) (deltaForm_6 : Rat) : Except Unit (Rat) :=
  .ok ((deltaForm_5 + deltaForm_6) / (2 : Rat))

/-- translated from localcider/backend/sequence.py:Sequence.deltaForm (line 1110) -/
def deltaTermSrc (blob : Rat) (bpos : Rat) (bneg : Rat) (bloblen : Rat) (sigma : Rat) (nblobs : Rat) : Except Unit (Rat) :=
  let bncpr : Rat := ((bpos - bneg) / (bloblen + ((0 : Rat) / 1)))
  let bfcr : Rat := ((bpos + bneg) / (bloblen + ((0 : Rat) / 1)))
  if (bfcr = (0 : Rat)) then
    let bsig : Rat := (0 : Rat)
    .ok (((sigma - bsig) * (sigma - bsig)) / nblobs)
  else
    let bsig : Rat := ((bncpr * bncpr) / bfcr)
    .ok (((sigma - bsig) * (sigma - bsig)) / nblobs)

/-- translated from localcider/backend/sequence.py:Sequence.linearDistOfNCPR (line 718) -/
def flanksNCPR (bloblen : Int) (len : Int) : Except Unit (Int × Int × Int) :=
  let nblobs : Int := ((len - bloblen) + (1 : Int))
  let flank : Int := (Int.tdiv bloblen (2 : Int))
  if ((((2 : Int) * flank) + nblobs) = len) then
    let flank_start : Int := flank
    let flank_end : Int := flank
    .ok (flank_start, flank_end, nblobs)
  else
    let flank_start : Int := (flank - (1 : Int))
    let flank_end : Int := flank
    .ok (flank_start, flank_end, nblobs)

/-- translated from localcider/backend/sequence.py:Sequence.linearDistOfFCR (line 756) -/
def flanksFCR (bloblen : Int) (len : Int) : Except Unit (Int × Int × Int) :=
  let nblobs : Int := ((len - bloblen) + (1 : Int))
  let flank : Int := (Int.tdiv bloblen (2 : Int))
  if ((((2 : Int) * flank) + nblobs) = len) then
    let flank_start : Int := flank
    let flank_end : Int := flank
    .ok (flank_start, flank_end, nblobs)
  else
    let flank_start : Int := (flank - (1 : Int))
    let flank_end : Int := flank
    .ok (flank_start, flank_end, nblobs)

/-- translated from localcider/backend/sequence.py:Sequence.linearDistOfSigma (line 791) -/
def flanksSigma (bloblen : Int) (len : Int) : Except Unit (Int × Int × Int) :=
  let nblobs : Int := ((len - bloblen) + (1 : Int))
  let flank : Int := (Int.tdiv bloblen (2 : Int))
  if ((((2 : Int) * flank) + nblobs) = len) then
    let flank_start : Int := flank
    let flank_end : Int := flank
    .ok (flank_start, flank_end, nblobs)
  else
    let flank_start : Int := (flank - (1 : Int))
    let flank_end : Int := flank
    .ok (flank_start, flank_end, nblobs)

/-- translated from localcider/backend/sequence.py:Sequence.linearDistOfHydropathy (line 834) -/
def flanksHydro (bloblen : Int) (len : Int) : Except Unit (Int × Int × Int) :=
  let nblobs : Int := ((len - bloblen) + (1 : Int))
  let flank : Int := (Int.tdiv bloblen (2 : Int))
  if ((((2 : Int) * flank) + nblobs) = len) then
    let flank_start : Int := flank
    let flank_end : Int := flank
    .ok (flank_start, flank_end, nblobs)
  else
    let flank_start : Int := (flank - (1 : Int))
    let flank_end : Int := flank
    .ok (flank_start, flank_end, nblobs)

/-- translated from localcider/backend/sequence.py:Sequence.linearDistOfHydropathy_2 (line 877) -/
def flanksHydro2 (bloblen : Int) (len : Int) : Except Unit (Int × Int × Int) :=
  let nblobs : Int := ((len - bloblen) + (1 : Int))
  let flank : Int := (Int.tdiv bloblen (2 : Int))
  if ((((2 : Int) * flank) + nblobs) = len) then
    let flank_start : Int := flank
    let flank_end : Int := flank
    .ok (flank_start, flank_end, nblobs)
  else
    let flank_start : Int := (flank - (1 : Int))
    let flank_end : Int := flank
    .ok (flank_start, flank_end, nblobs)

/-- translated from localcider/backend/sequence.py:Sequence.linearDenistyOfAAs (line 912) -/
def flanksDensity (bloblen : Int) (targetAAs : Int) (len : Int) : Except Unit (Int × Int × Int) :=
  let nblobs : Int := ((len - bloblen) + (1 : Int))
  let flank : Int := (Int.tdiv bloblen (2 : Int))
  if ((((2 : Int) * flank) + nblobs) = len) then
    let flank_start : Int := flank
    let flank_end : Int := flank
    .ok (flank_start, flank_end, nblobs)
  else
    let flank_start : Int := (flank - (1 : Int))
    let flank_end : Int := flank
    .ok (flank_start, flank_end, nblobs)

/-- translated from localcider/backend/sequence.py:Sequence.Omega (loop at line 457) -/
def omegaCharSrc (res : Char) : Except Unit Char :=
  if ((res = 'P') ∨ (res = 'E') ∨ (res = 'D') ∨ (res = 'K') ∨ (res = 'R')) then
    .ok 'E'
  else
    .ok 'K'

/-- accumulator's initial value | how the function's last statement uses the recoded string -/
def omegaCharSrcFrame : String := "''|Sequence(newseq).kappa()"

/-- translated from localcider/backend/sequence.py:Sequence.Omega_seq (loop at line 481) -/
def omegaSeqCharSrc (res : Char) : Except Unit Char :=
  if ((res = 'P') ∨ (res = 'E') ∨ (res = 'D') ∨ (res = 'K') ∨ (res = 'R')) then
    .ok 'X'
  else
    .ok 'O'

/-- accumulator's initial value | how the function's last statement uses the recoded string -/
def omegaSeqCharSrcFrame : String := "''|newseq"

/-- translated from localcider/backend/sequence.py:Sequence.kappa_X (loop at line 518) -/
def kappaX2CharSrc (in_grp1 : Bool) (in_grp2 : Bool) : Except Unit Char :=
  if (in_grp1 = true) then
    .ok 'E'
  else
    if (in_grp2 = true) then
      .ok 'K'
    else
      .ok 'G'

/-- accumulator's initial value | how the function's last statement uses the recoded string -/
def kappaX2CharSrcFrame : String := "''|Sequence(newseq).kappa()"

/-- translated from localcider/backend/sequence.py:Sequence.kappa_X (loop at line 530) -/
def kappaX1CharSrc (in_grp1 : Bool) : Except Unit Char :=
  if (in_grp1 = true) then
    .ok 'E'
  else
    .ok 'K'

/-- accumulator's initial value | how the function's last statement uses the recoded string -/
def kappaX1CharSrcFrame : String := "''|Sequence(newseq).kappa()"

/-- translated from localcider/backend/sequence.py:Sequence.sequence_charge_decoration (loop nest at line 406) -/
def scdNestOuterLo (len : Int) : Int := (2 : Int)
def scdNestOuterHi (len : Int) : Int := (len + (1 : Int))
def scdNestInnerLo (m : Int) (len : Int) : Int := (1 : Int)
def scdNestInnerHi (m : Int) (len : Int) : Int := m
def scdNestIdxA (m : Int) (n : Int) (len : Int) : Int := (m - (1 : Int))
def scdNestIdxB (m : Int) (n : Int) (len : Int) : Int := (n - (1 : Int))
def scdNestDist (m : Int) (n : Int) (len : Int) : Int := (m - n)
def scdNestDenom (len : Int) : Int := len
def scdNestExp : Rat := (1 : Rat) / 2

/-- translated from localcider/backend/sequence.py:Sequence.setPhosPhoSites (loop at line 1652) -/
def setSiteSrc (site : Int) (len_seq : Int) (res_in_set : Bool) (already : Bool) : Except Unit (Option Int) :=
  let idx : Int := (site - (1 : Int))
  if ((idx ≥ len_seq) ∨ (idx < (0 : Int))) then
    .ok none
  else
    if (res_in_set = false) then
      .ok none
    else
      if (already = true) then
        .ok none
      else
        .ok (some idx)

def setSiteSrcLetters : List Char := ['S', 'T', 'Y']

/-- translated from localcider/backend/sequence.py:Sequence.get_STY_residues (line 1827) -/
def stySrcLetters : List Char := ['Y', 'S', 'T']

/-- translated from localcider/backend/sequence.py:Sequence.validateSequence (loop at line 155) -/
def validateCharSrc (in_AAs : Bool) (is_space : Bool) : Except Unit Bool :=
  if (in_AAs = false) then
    if (is_space = true) then
      .ok false
    else
      .error ()
  else
    .ok true

/-- initial value of the returned string | what the pool of accepted characters is built from -/
def validateCharSrcFrame : String := "''|list(data.aminoacids.ONE_TO_THREE.keys())"

/-- which decision functions could be translated on this run -/
def translatedDecisions : List String := ["phasePlotRegion", "kappaDecision", "sigmaDecision", "checkWindow", "verifyPH", "insideRelevant", "fplusSrc", "fminusSrc", "fcrSrc", "ncprSrc", "ferSrc", "mncSrc", "deltaSrc", "deltaTermSrc", "flanksNCPR", "flanksFCR", "flanksSigma", "flanksHydro", "flanksHydro2", "flanksDensity", "omegaCharSrc", "omegaSeqCharSrc", "kappaX2CharSrc", "kappaX1CharSrc", "scdNest", "setSiteSrc", "stySrc", "validateCharSrc"]

end Cider.Gen
