import Cider.Model.Text
import Cider.Gen.Unicode
namespace Cider
/-- Python's str.upper / str.isspace as the driver instantiates them: ASCII rules + the interpreter's
    Unicode tables (regenerated on every run from the running CPython) -/
def pyOps : CharOps :=
  { upper := fun c =>
      match (Gen.asciiUpperTab ++ Gen.unicodeUpper).find? (fun kv => kv.1 == c.toNat) with
      | some kv => kv.2.map Char.ofNat
      | none => [c],
    isspace := fun c => (Gen.asciiSpaces ++ Gen.unicodeSpaces).contains c.toNat }
end Cider
