/-
  Cider.Model.SeqParams — sequence-level parameters (composition, hydropathy, region,
  Omega / kappa_X recodings) on top of the pattern core, using the REGENERATED tables.
-/
import Cider.Model.Pattern
import Cider.Model.Err
namespace Cider

def ndToRat (x : Int × Nat) : Rat := (x.1 : Rat) / (x.2 : Rat)

/-- what `Sequence.__init__` stores per residue: the sign of `lookUpCharge` -/
def chargeSign (c : Int) : Int := if 0 < c then 1 else if c < 0 then -1 else 0

/-- tables as parameters, so that the same definitions run on `Gen.*` and are specified on `Spec.*` -/
structure Tables where
  charge : AA → Int
  kd : AA → Int × Nat
  kdU : AA → Int × Nat
  ww : AA → Int × Nat
  ppiiH : AA → Int × Nat
  ppiiC : AA → Int × Nat
  ppiiK : AA → Int × Nat
  mw : AA → Int × Nat
  disorder : AA → Bool
  expanding : AA → Bool
  omegaX : AA → Bool

section
variable (T : Tables)

def patternOf (s : Seq) : Pattern := s.map (fun a => chargeSign (T.charge a))

def nPos (s : Seq) : Nat := countPos (patternOf T s)
def nNeg (s : Seq) : Nat := countNeg (patternOf T s)
def nNeut (s : Seq) : Nat := countNeut (patternOf T s)

def fPlus (s : Seq) : Rat := (nPos T s : Rat) / (s.length : Rat)
def fMinus (s : Seq) : Rat := (nNeg T s : Rat) / (s.length : Rat)
def fcr (s : Seq) : Rat := ((nPos T s + nNeg T s : Nat) : Rat) / (s.length : Rat)
def ncpr (s : Seq) : Rat := ((nPos T s : Int) - (nNeg T s : Int) : Int) / (s.length : Rat)
def meanNetCharge (s : Seq) : Rat := if ncpr T s < 0 then - ncpr T s else ncpr T s
/-- `FER()` without pH: (pos + neg + #P)/N -/
def fer (s : Seq) : Rat := ((nPos T s + nNeg T s + s.count AA.P : Nat) : Rat) / (s.length : Rat)
def fracDisorder (s : Seq) : Rat := ((s.countP T.disorder : Nat) : Rat) / (s.length : Rat)
def aaFraction (s : Seq) (a : AA) : Rat := ((s.count a : Nat) : Rat) / (s.length : Rat)

/-- `ans += table(res) / self.len` left to right -/
def meanOf (tab : AA → Int × Nat) (s : Seq) : Rat :=
  s.foldl (fun acc a => acc + ndToRat (tab a) / (s.length : Rat)) 0

def meanHydropathy (s : Seq) : Rat := meanOf T.kd s
def uverskyHydropathy (s : Seq) : Rat := meanOf T.kdU s
def meanWW (s : Seq) : Rat := meanOf T.ww s

/-- `FPPII_chain`: total / len -/
def ppii (tab : AA → Int × Nat) (s : Seq) : Rat :=
  (s.foldl (fun acc a => acc + ndToRat (tab a)) 0) / (s.length : Rat)

/-- `molecular_weight`: Σ mw − 18·(N−1) -/
def molWeight (s : Seq) : Rat :=
  (s.foldl (fun acc a => acc + ndToRat (T.mw a)) 0) - 18 * ((s.length : Rat) - 1)

def seqSigma (s : Seq) : Rat := sigma (patternOf T s)
def seqDelta (s : Seq) : Rat := delta (patternOf T s)
def seqDmax (s : Seq) : Rat := dmax (patternOf T s)
def seqKappa (s : Seq) : Rat := kappa (patternOf T s)

/-- the two-letter recoding of `Omega` ('E' for P/E/D/K/R, 'K' otherwise) as a charge pattern -/
def omegaPattern (s : Seq) : Pattern := s.map (fun a => if T.omegaX a then (-1 : Int) else 1)
def omega (s : Seq) : Rat := kappa (omegaPattern T s)
def omegaSeq (s : Seq) : String := String.ofList (s.map (fun a => if T.omegaX a then 'X' else 'O'))

end

/-! ### the permutant returned by `deltaMax(returnSeqDeltaMax=True)` -/

/-- deal the parent's positive / negative / other residues out, in order, along a reduced candidate -/
def dealOut : Pattern → List AA → List AA → List AA → List AA
  | [], _, _, _ => []
  | c :: cs, ps, ns, us =>
    if 0 < c then match ps with
      | x :: ps' => x :: dealOut cs ps' ns us
      | [] => dealOut cs ps ns us
    else if c < 0 then match ns with
      | x :: ns' => x :: dealOut cs ps ns' us
      | [] => dealOut cs ps ns us
    else match us with
      | x :: us' => x :: dealOut cs ps ns us'
      | [] => dealOut cs ps ns us

/-- `__permutant_from_reduced_seq`: R/K are the positive residues, D/E the negative ones -/
def permutantFromReduced (cand : Pattern) (parent : Seq) : Seq :=
  dealOut cand
    (parent.filter (fun a => a = AA.R ∨ a = AA.K))
    (parent.filter (fun a => a = AA.D ∨ a = AA.E))
    (parent.filter (fun a => ¬ (a = AA.D ∨ a = AA.E ∨ a = AA.R ∨ a = AA.K)))

/-- `deltaMax(True)[1]` on a fresh object: the first maximiser dealt out, the sequence itself when uncharged -/
def dmaxPermutant (T : Tables) (s : Seq) : Seq :=
  match dmaxArg (patternOf T s) with
  | none => s
  | some c => permutantFromReduced c s

/-! ### kappa_X: group parsing and recoding -/

/-- a Python group member as the harness sends it: a string, or something without `.upper()` -/
inductive PyMember
  | str (cs : List Char)
  | nonStr
  deriving Repr

def asciiUpper (c : Char) : Char := if 'a' ≤ c ∧ c ≤ 'z' then Char.ofNat (c.toNat - 32) else c

/-- a member after `.upper()`, if it is one of the 20 one-letter codes -/
def memberAA? : PyMember → Option AA
  | .nonStr => none
  | .str cs => match cs.map asciiUpper with
    | [c] => AA.ofChar? c
    | _ => none

/-- `__parse_group`: upper-case every member (a member without `.upper()` is rejected), then
    reject anything that is not one of the 20 letters -/
def parseGroup (g : List PyMember) : Except Err (List AA) :=
  match g.mapM memberAA? with
  | some r => .ok r
  | none => .error .badGroup

/-- one-group recoding: member → 'E' (−1), other → 'K' (+1) -/
def recode1 (g : List AA) (s : Seq) : Pattern := s.map (fun a => if a ∈ g then (-1 : Int) else 1)
/-- two-group recoding: grp1 → 'E' (−1), else grp2 → 'K' (+1), else 'G' (0); first group wins -/
def recode2 (g1 g2 : List AA) (s : Seq) : Pattern :=
  s.map (fun a => if a ∈ g1 then (-1 : Int) else if a ∈ g2 then 1 else 0)

/-- `kappa_X(grp1, grp2)`; `grp2 = none` models `None`, an empty list is falsy exactly like `None` -/
def kappaX (g1 : List PyMember) (g2 : Option (List PyMember)) (s : Seq) : Except Err Rat :=
  match parseGroup g1 with
  | .error e => .error e
  | .ok a =>
    match g2 with
    | none => .ok (kappa (recode1 a s))
    | some [] => .ok (kappa (recode1 a s))
    | some m =>
      match parseGroup m with
      | .error e => .error e
      | .ok b => .ok (kappa (recode2 a b s))

/-! ### diagram-of-states region -/

/-- `Sequence.phasePlotRegion` cascade, both defensive raises kept -/
def regionCode (fcr ncpr fplus fminus : Rat) : Except Err Nat :=
  if fcr < 1/4 then .ok 1
  else if 1/4 ≤ fcr ∧ fcr ≤ 7/20 then .ok 2
  else if 7/20 < fcr ∧ (if ncpr < 0 then -ncpr else ncpr) < 7/20 then .ok 3
  else if 7/20 < fplus then
    if 7/20 < fminus then .error .regionBug else .ok 5
  else if 7/20 < fminus then .ok 4
  else .error .regionBug

def phaseRegion (T : Tables) (s : Seq) : Except Err Nat :=
  regionCode (fcr T s) (ncpr T s) (fPlus T s) (fMinus T s)

end Cider
