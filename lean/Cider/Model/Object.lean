/-
  Cider.Model.Object — the stateful part of a `Sequence` object: the delta-max cache, the
  phosphosite list and the colour palette, plus the shared mutable default argument of
  `linearCompositions`.  API calls are steps `Obj → … → Obj × output`.
-/
import Cider.Model.SeqParams
import Cider.Model.Text
namespace Cider

structure Obj where
  seq : Seq
  /-- `self.dmax` (`none` = the −1 "not yet computed" sentinel) -/
  dmaxC : Option Rat
  /-- `self.seqDeltaMax` -/
  permC : Option Seq
  /-- `self.phosphosites`: 0-based indices in first-set order -/
  phos : List Nat
  pal : Palette

def Obj.fresh (defaultPal : Palette) (s : Seq) : Obj :=
  { seq := s, dmaxC := none, permC := none, phos := [], pal := defaultPal }

/-- `Sequence.deltaMax(returnSeqDeltaMax)` including its cache logic (after the repair of the
    "cached value, missing permutant" defect: a missing permutant re-arms the search) -/
def Obj.deltaMax (T : Tables) (o : Obj) (ret : Bool) : Obj × Rat × Option Seq :=
  let o1 : Obj := if ret ∧ o.permC.isNone then { o with dmaxC := none } else o
  match o1.dmaxC, ret, o1.permC with
  | some d, false, _ => (o1, d, none)
  | some d, true, some p => (o1, d, some p)
  | _, _, _ =>
    let d := seqDmax T o1.seq
    if ret then
      let p := dmaxPermutant T o1.seq
      ({ o1 with dmaxC := some d, permC := some p }, d, some p)
    else
      ({ o1 with dmaxC := some d }, d, none)

/-- `Sequence.kappa()` on the object (fills the cache) -/
def Obj.kappa (T : Tables) (o : Obj) : Obj × Rat :=
  let r := o.deltaMax T false
  (r.1, kappaOf (seqDelta T o.seq) r.2.1)

/-! ### phosphosites -/

def isSTY (a : AA) : Bool := a = AA.S ∨ a = AA.T ∨ a = AA.Y

def residueIsSTY (s : Seq) (i : Nat) : Bool :=
  match s[i]? with
  | some a => isSTY a
  | none => false

/-- append unless already listed -/
def Obj.addSite (o : Obj) (i : Nat) : Obj := if i ∈ o.phos then o else { o with phos := o.phos ++ [i] }

/-- one requested 1-based site: skipped when outside the sequence or not S/T/Y -/
def Obj.setSite (o : Obj) (site : Int) : Obj :=
  if site - 1 < 0 ∨ (o.seq.length : Int) ≤ site - 1 then o
  else if residueIsSTY o.seq (site - 1).toNat = true then o.addSite (site - 1).toNat else o

/-- `setPhosPhoSites(list)` -/
def Obj.setPhos (o : Obj) (sites : List Int) : Obj := sites.foldl Obj.setSite o
def Obj.clearPhos (o : Obj) : Obj := { o with phos := [] }
def Obj.getPhos (o : Obj) : List Nat := o.phos.map (· + 1)

/-- substitute E at the given 0-based indices -/
def substE (s : Seq) (idxs : List Nat) : Seq :=
  (List.range s.length).zipWith (fun i a => if i ∈ idxs then AA.E else a) s

def Obj.phosphoSeq (o : Obj) : Seq := substE o.seq o.phos

def Obj.kappaAfterPhos (T : Tables) (o : Obj) : Obj × Rat :=
  if o.phos = [] then o.kappa T else (o, seqKappa T (substE o.seq o.phos))

/-- all on/off assignments in `itertools.product("01", repeat=k)` order (first site most significant) -/
def onOff : Nat → List (List Bool)
  | 0 => [[]]
  | k + 1 => (onOff k).map (false :: ·) ++ (onOff k).map (true :: ·)

def selected (sites : List Nat) (bits : List Bool) : List Nat :=
  (sites.zip bits).filterMap (fun sb => if sb.2 then some sb.1 else none)

/-- one entry of `calculateKappaDistOfPhosphoStates`: kappa, f+, f−, FCR, NCPR, mean KD hydropathy -/
def distEntry (T : Tables) (s : Seq) : List Rat :=
  [seqKappa T s, fPlus T s, fMinus T s, fcr T s, ncpr T s, meanHydropathy T s]

def Obj.phosDist (T : Tables) (o : Obj) : List (List Rat × List Bool) :=
  (onOff o.phos.length).map (fun bits => (distEntry T (substE o.seq (selected o.phos bits)), bits))

def allSTY (s : Seq) : List Nat :=
  ((List.range s.length).zip s).filterMap (fun ia => if isSTY ia.2 then some (ia.1 + 1) else none)

/-! ### palette -/

def Obj.setPal (o : Obj) (d : PyDict) : Obj × Bool :=
  let r := setPalette o.pal d
  ({ o with pal := r.1 }, r.2)

def Obj.html (o : Obj) : String := render o.pal o.seq

end Cider
