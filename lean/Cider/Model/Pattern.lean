/-
  Cider.Model.Pattern — the charge-pattern core of localCIDER:
  sigma, delta (Das–Pappu), the delta-max candidate search, kappa.
  Every function mirrors the corresponding Python in
  localcider/backend/sequence.py; the declarative specs live in Cider.Spec.*.
  A charge pattern is a `List Int` (entries +1 / −1 / 0 in practice; the
  definitions only look at the sign, exactly as `np.where(blob > 0)` does).
-/
import Cider.Model.Basic
namespace Cider

abbrev Pattern := List Int

def countPos (p : Pattern) : Nat := p.countP (fun x => decide (0 < x))
def countNeg (p : Pattern) : Nat := p.countP (fun x => decide (x < 0))
def countNeut (p : Pattern) : Nat := p.countP (fun x => decide (x = 0))

/-- `bncpr**2 / bfcr` with the `bfcr == 0 → 0` guard; `a`,`b` = #positive, #negative, `len` = window length.
    This is both `Sequence.sigma` (whole sequence) and the per-blob value in `deltaForm`. -/
def sigmaOf (a b len : Nat) : Rat :=
  if a + b = 0 then 0
  else (((a : Rat) - (b : Rat)) / (len : Rat)) * (((a : Rat) - (b : Rat)) / (len : Rat)) / (((a : Rat) + (b : Rat)) / (len : Rat))

def sigma (p : Pattern) : Rat := sigmaOf (countPos p) (countNeg p) p.length

/-- the `N − w + 1` sliding windows `chargePattern[i:i+w]`, none when `w > N` -/
def blobs (w : Nat) (p : Pattern) : List Pattern :=
  (List.range (p.length + 1 - w)).map (fun i => (p.drop i).take w)

/-- `Sequence.deltaForm`: accumulate `(sigma − bsig)**2 / nblobs` over the blobs, left to right -/
def deltaForm (w : Nat) (p : Pattern) : Rat :=
  let s := sigma p
  let bs := blobs w p
  let n : Rat := (bs.length : Rat)
  bs.foldl (fun acc b => acc + (s - sigmaOf (countPos b) (countNeg b) w) * (s - sigmaOf (countPos b) (countNeg b) w) / n) 0

/-- `Sequence.delta` -/
def delta (p : Pattern) : Rat := (deltaForm 5 p + deltaForm 6 p) / 2

/-! ### delta-max: the candidate families, in the order the code generates them -/

/-- one-charge-type regime (`countPos == 0 or countNeg == 0`), `v` the sign of the charge present -/
def candOneType (v : Int) (ncharge n0 : Nat) : List Pattern :=
  if n0 > ncharge then
    (List.range (n0 + 1)).map (fun pos => blk pos 0 ++ blk ncharge v ++ blk (n0 - pos) 0)
  else
    (List.range (ncharge + 1)).map (fun pos => blk pos v ++ blk n0 0 ++ blk (ncharge - pos) v)

/-- no-neutrals regime -/
def candNoNeut (np nn : Nat) : List Pattern :=
  if np > nn then
    (List.range (np + 1)).map (fun pos => blk pos 1 ++ blk nn (-1) ++ blk (np - pos) 1)
  else
    (List.range (nn + 1)).map (fun pos => blk pos (-1) ++ blk np 1 ++ blk (nn - pos) (-1))

/-- `countNeut >= 18` regime: 0..6 neutrals at either end -/
def candManyNeut (np nn n0 : Nat) : List Pattern :=
  (List.range 7).flatMap (fun s => (List.range 7).map (fun e =>
    blk s 0 ++ blk np 1 ++ blk (n0 - s - e) 0 ++ blk nn (-1) ++ blk e 0))

/-- general regime: every (mid, start) split of the neutrals -/
def candGeneral (np nn n0 : Nat) : List Pattern :=
  (List.range (n0 + 1)).flatMap (fun mid => (List.range (n0 - mid + 1)).map (fun st =>
    blk st 0 ++ blk np 1 ++ blk mid 0 ++ blk nn (-1) ++ blk (n0 - st - mid) 0))

/-- the documented family for a composition, `[]` when there is no charged residue -/
def candidates (np nn n0 : Nat) : List Pattern :=
  if np + nn = 0 then []
  else if np = 0 then candOneType (-1) nn n0
  else if nn = 0 then candOneType 1 np n0
  else if n0 = 0 then candNoNeut np nn
  else if n0 ≥ 18 then candManyNeut np nn n0
  else candGeneral np nn n0

/-- the running `if self.dmax < nseq.delta(): self.dmax = nseq.delta()` from −1; also tracks the first maximiser -/
def dmaxFold (cs : List Pattern) : Rat × Option Pattern :=
  cs.foldl (fun (acc : Rat × Option Pattern) c => if acc.1 < delta c then (delta c, some c) else acc) (-1, none)

/-- `Sequence.deltaMax()` on a fresh object, as a function of the composition -/
def dmaxComp (np nn n0 : Nat) : Rat :=
  if np + nn = 0 then 0 else (dmaxFold (candidates np nn n0)).1

def dmaxArgComp (np nn n0 : Nat) : Option Pattern :=
  if np + nn = 0 then none else (dmaxFold (candidates np nn n0)).2

def dmax (p : Pattern) : Rat := dmaxComp (countPos p) (countNeg p) (countNeut p)
def dmaxArg (p : Pattern) : Option Pattern := dmaxArgComp (countPos p) (countNeg p) (countNeut p)

/-- the decision part of `Sequence.kappa` given the two numbers -/
def kappaOf (d dm : Rat) : Rat :=
  if dm = 0 then -1
  else
    let k := d / dm
    if 1 < k ∧ k < 11 / 10 then 1 else k

/-- `Sequence.kappa` on a fresh object -/
def kappa (p : Pattern) : Rat := kappaOf (delta p) (dmax p)

/-- exact integer lag sums for SCD: Σ_n p[n]·p[n+d] -/
def lagSum (p : Pattern) (d : Nat) : Int :=
  ((p.zip (p.drop d)).map (fun ab => ab.1 * ab.2)).foldl (· + ·) 0

end Cider
