import Cider.Model.SeqParams
import Cider.Gen.Tables
namespace Cider
/-- the `Tables` record filled from the tables REGENERATED from the live code -/
def genTables : Tables :=
  { charge := Gen.charge, kd := Gen.kdND, kdU := Gen.kdUverskyND, ww := Gen.wwND,
    ppiiH := Gen.ppiiHilserND, ppiiC := Gen.ppiiCreamerND, ppiiK := Gen.ppiiKallenbachND,
    mw := Gen.mwND, disorder := Gen.disorderPromoting, expanding := Gen.expanding, omegaX := Gen.omegaX }

end Cider
