/-
  Cider.Model.WL — the bookkeeping of `WangLandauMachine.run_normal_WL` as a state machine driven by
  the sequence of proposals (bin index of the proposed sequence + the acceptance decision).
  In the model ln f = 2^(−fexp) exactly, so g is a dyadic rational.
-/
import Cider.Model.Basic
namespace Cider

structure WLCfg where
  nbins : Nat          -- nbins_actual
  rmin : Nat           -- relevant_min
  rmax : Nat           -- relevant_max
  ntarget : Nat        -- nbins_target
  nflatchk : Nat
  flatcrit : Rat
  /-- ln(convergence): the loop runs while ln f > convLn -/
  convLn : Rat

structure WLState where
  cur : Nat            -- idx_old: the occupied bin
  g : List Rat
  H : List Nat
  fexp : Nat           -- f = exp(2^−fexp)
  nstep : Nat
  niter : Nat
  deriving DecidableEq

def WLState.lnf (st : WLState) : Rat := 1 / ((2 : Rat) ^ st.fexp)

def WLCfg.inside (cfg : WLCfg) (i : Nat) : Bool := decide (cfg.rmin ≤ i) && decide (i ≤ cfg.rmax)

def wlInit (cfg : WLCfg) (start : Nat) : WLState :=
  { cur := start, g := List.replicate cfg.nbins 0, H := List.replicate cfg.nbins 0, fexp := 0, nstep := 0, niter := 0 }

def bump {α : Type} (l : List α) (i : Nat) (f : α → α) : List α := l.modify i f

/-- proposal + acceptance + histogram update of one loop trip (everything before the flat check);
    `accept Δ` is the outcome of `rand.random() < min(1, exp Δ)` with Δ = g[old] − g[new] -/
def wlMove (cfg : WLCfg) (accept : Rat → Bool) (st : WLState) (idxNew : Nat) : WLState × Bool :=
  if cfg.inside idxNew then
    let acc := accept ((st.g.getD st.cur 0) - (st.g.getD idxNew 0))
    let cur' := if acc then idxNew else st.cur
    ({ st with cur := cur', g := bump st.g cur' (fun x => x + st.lnf), H := bump st.H cur' (fun h => h + 1), nstep := st.nstep + 1 }, acc)
  else
    ({ st with nstep := st.nstep + 1 }, false)

def localH (cfg : WLCfg) (H : List Nat) : List Nat := (H.drop cfg.rmin).take (cfg.rmax + 1 - cfg.rmin)

/-- `Hlocal / mean(Hlocal) >= flatcrit` holds for every bin of the range (and the range has all
    `nbins_target` bins) -/
def isFlat (cfg : WLCfg) (H : List Nat) : Bool :=
  let hl := localH cfg H
  let tot : Nat := hl.foldl (fun a b => a + b) 0
  decide (0 < tot) && decide (hl.length = cfg.ntarget) &&
    hl.all (fun h => decide (cfg.flatcrit * (tot : Rat) ≤ (h : Rat) * (hl.length : Rat)))

/-- the scheduled flat check: every `nflatchk` steps; on success f ← √f, H ← 0, niter + 1; the step
    counter restarts either way -/
def wlFlat (cfg : WLCfg) (st : WLState) : WLState :=
  if st.nstep % cfg.nflatchk = 0 then
    if isFlat cfg st.H then
      { st with H := List.replicate cfg.nbins 0, fexp := st.fexp + 1, nstep := 0, niter := st.niter + 1 }
    else { st with nstep := 0 }
  else st

def wlStep (cfg : WLCfg) (accept : Rat → Bool) (st : WLState) (idxNew : Nat) : WLState × Bool :=
  let r := wlMove cfg accept st idxNew
  (wlFlat cfg r.1, r.2)

/-- `while f > convergence` -/
def wlRunning (cfg : WLCfg) (st : WLState) : Bool := decide (cfg.convLn < st.lnf)

/-- bin centres: midpoints of an equal partition of [0,1] -/
def binCentre (n i : Nat) : Rat := (2 * (i : Rat) + 1) / (2 * (n : Rat))

/-- `argmin |bincts − k|` (first minimiser) -/
def binOf (n : Nat) (k : Rat) : Nat :=
  ((List.range n).foldl (fun (best : Nat × Rat) i =>
      let d := if binCentre n i - k < 0 then k - binCentre n i else binCentre n i - k
      if d < best.2 then (i, d) else best) (0, if binCentre n 0 - k < 0 then k - binCentre n 0 else binCentre n 0 - k)).1

/-- Python's `round` (half to even) on an exact rational -/
def pyRound (q : Rat) : Int :=
  let f := q.floor
  let r := q - (f : Rat)
  if r < 1/2 then f else if 1/2 < r then f + 1 else (if f % 2 = 0 then f else f + 1)

/-- all first-minimisers candidates of `argmin |bincts − k|` (more than one only on an exact tie) -/
def binCandidates (n : Nat) (k : Rat) : List Nat :=
  let dist := fun i => if binCentre n i - k < 0 then k - binCentre n i else binCentre n i - k
  let best := (List.range n).foldl (fun (b : Rat) i => if dist i < b then dist i else b) (dist 0)
  (List.range n).filter (fun i => dist i = best)

/-- `WangLandauMachine.__init__` (NORMAL mode): total number of bins on [0,1] and the relevant index range -/
def wlConfig (binmin binmax : Rat) (nbins : Nat) : Nat × List Nat :=
  let width := (binmax - binmin) / (nbins : Rat)
  let n := (pyRound (1 / width)).toNat
  (n, binCandidates n (binmin + width / 2))

end Cider
