import Cider.Model.SeqParams
import Cider.Spec.Published
namespace Cider
/-- the same `Tables` record filled from the FROZEN published tables -/
def specTables : Tables :=
  { charge := Spec.charge, kd := Spec.kdND, kdU := Spec.kdUverskyND, ww := Spec.wwND,
    ppiiH := Spec.ppiiHilserND, ppiiC := Spec.ppiiCreamerND, ppiiK := Spec.ppiiKallenbachND,
    mw := Spec.mwND, disorder := Spec.disorderPromoting, expanding := Spec.expanding, omegaX := Spec.omegaX }
end Cider
