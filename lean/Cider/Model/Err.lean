/- small error enum shared by all model functions; the harness maps Python exceptions to it -/
namespace Cider

inductive Err
  | emptyInput | invalidResidue | notAString | zeroDivision
  | windowTooLong | badGroup | badAlphabet | badAlphabetSize | badComplexityType
  | pHRange | secondHeader | badStar | badFileChar | badPalette | indexError
  | regionBug | piNoConverge | notEnoughCharges | valueError | other
  deriving DecidableEq, Repr

def Err.name : Err → String
  | .emptyInput => "emptyInput" | .invalidResidue => "invalidResidue" | .notAString => "notAString"
  | .zeroDivision => "zeroDivision"
  | .windowTooLong => "windowTooLong" | .badGroup => "badGroup" | .badAlphabet => "badAlphabet"
  | .badAlphabetSize => "badAlphabetSize" | .badComplexityType => "badComplexityType"
  | .pHRange => "pHRange" | .secondHeader => "secondHeader" | .badStar => "badStar"
  | .badFileChar => "badFileChar" | .badPalette => "badPalette" | .indexError => "indexError"
  | .regionBug => "regionBug" | .piNoConverge => "piNoConverge" | .notEnoughCharges => "notEnoughCharges"
  | .valueError => "valueError" | .other => "other"

end Cider
