/-
  Cider.Model.Basic — amino-acid alphabet and small list helpers.
  Import-free (core Lean only) so that the driver links as a native executable.
-/
namespace Cider

/-- the 20 standard amino acids, one-letter codes -/
inductive AA
  | A | C | D | E | F | G | H | I | K | L | M | N | P | Q | R | S | T | V | W | Y
  deriving DecidableEq, Repr, Inhabited

namespace AA

/-- alphabetical order (the order of `ONE_TO_THREE`) -/
def all : List AA := [A, C, D, E, F, G, H, I, K, L, M, N, P, Q, R, S, T, V, W, Y]

def toChar : AA → Char
  | A => 'A' | C => 'C' | D => 'D' | E => 'E' | F => 'F' | G => 'G' | H => 'H'
  | I => 'I' | K => 'K' | L => 'L' | M => 'M' | N => 'N' | P => 'P' | Q => 'Q'
  | R => 'R' | S => 'S' | T => 'T' | V => 'V' | W => 'W' | Y => 'Y'

def ofChar? : Char → Option AA
  | 'A' => some A | 'C' => some C | 'D' => some D | 'E' => some E | 'F' => some F
  | 'G' => some G | 'H' => some H | 'I' => some I | 'K' => some K | 'L' => some L
  | 'M' => some M | 'N' => some N | 'P' => some P | 'Q' => some Q | 'R' => some R
  | 'S' => some S | 'T' => some T | 'V' => some V | 'W' => some W | 'Y' => some Y
  | _ => none

def toNat : AA → Nat
  | A => 0 | C => 1 | D => 2 | E => 3 | F => 4 | G => 5 | H => 6 | I => 7 | K => 8 | L => 9
  | M => 10 | N => 11 | P => 12 | Q => 13 | R => 14 | S => 15 | T => 16 | V => 17 | W => 18 | Y => 19

end AA

abbrev Seq := List AA

def Seq.toString (s : Seq) : String := String.ofList (s.map AA.toChar)

/-- parse a word over the 20 upper-case letters; `none` if any other character occurs -/
def Seq.ofChars? : List Char → Option Seq
  | [] => some []
  | c :: cs => match AA.ofChar? c, Seq.ofChars? cs with
    | some a, some r => some (a :: r)
    | _, _ => none

/-- `replicate`-based block helpers used by the delta-max candidate families -/
def blk (n : Nat) (v : Int) : List Int := List.replicate n v

/-- sum of a list of rationals -/
def sumQ : List Rat → Rat
  | [] => 0
  | x :: xs => x + sumQ xs

end Cider
