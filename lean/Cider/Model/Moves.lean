/-
  Cider.Model.Moves — the permutation moves of `Sequence` as functions of an explicit tape of
  random outcomes (C17).  Every move returns the child's sequence (`none` = "returned self").
  The moves are written structurally (split / deal), so that "the result is a rearrangement"
  is a theorem by construction lemmas; the correspondence run ties them to the code's index juggling.
-/
import Cider.Model.SeqParams
namespace Cider

/-- residues paired with their 0-based index -/
def idxd (s : Seq) : List (Nat × AA) := (List.range s.length).zip s
/-- the residues at the positions satisfying `p`, in sequence order -/
def pick (s : Seq) (p : Nat → Bool) : Seq := ((idxd s).filter (fun ia => p ia.1)).map (·.2)
def classPattern (N : Nat) (cls : Nat → Int) : Pattern := (List.range N).map cls

/-- exchange the blocks `[a, a+L)` and `[b, b+L)` (requires `a + L ≤ b`, `b + L ≤ N`) -/
def swapBlocks (s : Seq) (a b L : Nat) : Seq :=
  s.take a ++ (s.drop b).take L ++ (s.drop (a + L)).take (b - (a + L)) ++ (s.drop a).take L ++ s.drop (b + L)

/-- `swapRes(i, j)` -/
def swapRes (s : Seq) (i j : Nat) : Seq :=
  if i = j then s else if s.length ≤ max i j then s else swapBlocks s (min i j) (max i j) 1

/-- `full_shuffle(frozen)`: `order` is the list after `rand.shuffle` (consumed from the end by `pop()`);
    frozen positions keep their residue, the others receive `s[order.pop()]` in turn -/
def fullShuffle (s : Seq) (frozen : List Nat) (order : List Nat) : Seq :=
  dealOut (classPattern s.length (fun i => if i ∈ frozen then 0 else 1))
    (order.reverse.filterMap (fun k => s[k]?)) [] (pick s (fun i => i ∈ frozen))

/-- well-formed shuffle outcome: a permutation of the movable indices -/
def shuffleTapeOK (s : Seq) (frozen order : List Nat) : Bool :=
  let movable := (List.range s.length).filter (fun i => i ∉ frozen)
  order.isPerm movable

/-- index sets of `swapRandChargeRes` -/
def idxOf (T : Tables) (s : Seq) (frozen : List Nat) (sign : Int) : List Nat :=
  ((List.range s.length).zip (patternOf T s)).filterMap (fun ip => if ip.2 = sign ∧ ip.1 ∉ frozen then some ip.1 else none)

/-- which pair of classes is used: `none` = "return self"; `some none` = drawn from the tape -/
def chargeTypeChoice (npos nneg nneut : Nat) : Option (Option (Nat × Nat)) :=
  if nneut = 0 then (if npos = 0 ∨ nneg = 0 then none else some (some (1, 2)))
  else if nneg = 0 then (if npos = 0 ∨ nneut = 0 then none else some (some (1, 3)))
  else if npos = 0 then (if nneg = 0 ∨ nneut = 0 then none else some (some (2, 3)))
  else some none

/-- the two sampled indices come from the two (distinct) classes selected -/
def swapChargeOK (T : Tables) (s : Seq) (frozen : List Nat) (t : Nat × Nat) (i j : Nat) : Bool :=
  let cls := fun (k : Nat) => if k = 1 then idxOf T s frozen 1 else if k = 2 then idxOf T s frozen (-1) else idxOf T s frozen 0
  decide (i ∈ cls t.1) && decide (j ∈ cls t.2) && decide (t.1 ≠ t.2) && decide (1 ≤ t.1) && decide (t.1 ≤ 3) &&
    decide (1 ≤ t.2) && decide (t.2 ≤ 3)

/-- `swapRandChargeRes(frozen)` given the drawn class pair (if any) and the two sampled indices;
    outer `none` = ill-formed tape, `some none` = the object itself is returned -/
def swapRandCharge (T : Tables) (s : Seq) (frozen : List Nat) (drawn : Nat × Nat) (i j : Nat) : Option (Option Seq) :=
  match chargeTypeChoice (idxOf T s frozen 1).length (idxOf T s frozen (-1)).length (idxOf T s frozen 0).length with
  | none => some none
  | some ct => if swapChargeOK T s frozen (ct.getD drawn) i j then some (some (swapRes s i j)) else none

/-- one iteration of `permute_block_swap`: block size and the two sampled start indices; the slice
    quirk of the code moves `bs − 1` residues of each block -/
def blockSwap (s : Seq) (bs a0 b0 : Nat) : Seq :=
  swapBlocks s (min a0 b0) (max a0 b0 + (bs - 1)) (bs - 1)

def blockTapeOK (s : Seq) (bs a0 b0 : Nat) : Bool :=
  2 ≤ bs && bs ≤ s.length / 2 && a0 != b0 && a0 < s.length - (bs - 1) * 2 && b0 < s.length - (bs - 1) * 2

/-- one iteration of `permute_cluster_charges`: the cluster window `[center − ⌊cs/2⌋, center + ⌈cs/2⌉)` and
    the sampled outside positions exchange their residues, each group keeping its internal order -/
def clusterSwap (s : Seq) (cs center : Nat) (swapIdxs : List Nat) : Seq :=
  let lo := center - cs / 2
  let hi := center + (cs + 1) / 2
  let inWin : Nat → Bool := fun i => decide (lo ≤ i ∧ i < hi)
  let inSwap : Nat → Bool := fun i => decide (i ∈ swapIdxs)
  dealOut (classPattern s.length (fun i => if inSwap i then 1 else if inWin i then -1 else 0))
    (pick s (fun i => inWin i && !inSwap i)) (pick s inSwap) (pick s (fun i => !inSwap i && !inWin i))

def clusterTapeOK (s : Seq) (cs center : Nat) (swapIdxs : List Nat) : Bool :=
  let lo := center - cs / 2
  let hi := center + (cs + 1) / 2
  2 ≤ cs && cs / 2 ≤ center && hi ≤ s.length && swapIdxs.length == cs &&
  swapIdxs.all (fun i => i < s.length && !(decide (lo ≤ i ∧ i < hi)) && swapIdxs.count i == 1)

def natList (t : String) : List Nat := if t == "-" then [] else (t.splitOn ",").map String.toNat!

/-- driver glue: `move <kind> SEQ args…` -/
def moveOp (T : Tables) (kind : String) (s : Seq) (args : List String) : String :=
  match kind, args with
  | "swap", [i, j] => "str " ++ (swapRes s i.toNat! j.toNat!).toString
  | "shuffle", [fr, order] =>
    let f := natList fr; let o := natList order
    if shuffleTapeOK s f o then "str " ++ (fullShuffle s f o).toString else "bad-tape"
  | "swapcharge", [fr, t1, t2, i, j] =>
    match swapRandCharge T s (natList fr) (t1.toNat!, t2.toNat!) i.toNat! j.toNat! with
    | none => "bad-tape"
    | some none => "self"
    | some (some r) => "str " ++ r.toString
  | "swapcharge", [fr] =>
    match chargeTypeChoice (idxOf T s (natList fr) 1).length (idxOf T s (natList fr) (-1)).length (idxOf T s (natList fr) 0).length with
    | none => "self"
    | some _ => "bad-tape"
  | "block", [bs, a, b] =>
    if blockTapeOK s bs.toNat! a.toNat! b.toNat! then "str " ++ (blockSwap s bs.toNat! a.toNat! b.toNat!).toString else "bad-tape"
  | "cluster", [cs, center, sw] =>
    if clusterTapeOK s cs.toNat! center.toNat! (natList sw) then "str " ++ (clusterSwap s cs.toNat! center.toNat! (natList sw)).toString
    else "bad-tape"
  | _, _ => "bad-op move"

end Cider
