/-
  Cider.Model.Moves — the permutation moves of `Sequence` as functions of an explicit tape of
  random outcomes (C17).  Every move returns the child's sequence (or `none` for "returned self").
-/
import Cider.Model.SeqParams
namespace Cider

def listSet {α : Type} (l : List α) (i : Nat) (v : α) : List α := l.set i v

/-- `swapRes(i, j)` -/
def swapRes (s : Seq) (i j : Nat) : Seq :=
  match s[i]?, s[j]? with
  | some a, some b => (s.set i b).set j a
  | _, _ => s

/-- `full_shuffle(frozen)`: `order` is the list after `rand.shuffle` (consumed from the end by `pop()`),
    frozen positions keep their residue -/
def fullShuffleAux (s : Seq) (frozen : List Nat) : Nat → List AA → List Nat → List AA
  | _, [], _ => []
  | i, a :: rest, stack =>
    if i ∈ frozen then a :: fullShuffleAux s frozen (i + 1) rest stack
    else match stack with
      | [] => a :: fullShuffleAux s frozen (i + 1) rest []   -- ill-formed tape
      | k :: stack' => (s[k]?).getD a :: fullShuffleAux s frozen (i + 1) rest stack'

/-- `order.reverse` is the pop order -/
def fullShuffle (s : Seq) (frozen : List Nat) (order : List Nat) : Seq :=
  fullShuffleAux s frozen 0 s order.reverse

/-- well-formed shuffle outcome: a permutation of the movable indices -/
def shuffleTapeOK (s : Seq) (frozen order : List Nat) : Bool :=
  let movable := (List.range s.length).filter (fun i => i ∉ frozen)
  order.length == movable.length && movable.all (fun i => order.count i == 1)

/-- index sets of `swapRandChargeRes` -/
def idxOf (T : Tables) (s : Seq) (frozen : List Nat) (sign : Int) : List Nat :=
  ((List.range s.length).zip (patternOf T s)).filterMap (fun ip => if ip.2 = sign ∧ ip.1 ∉ frozen then some ip.1 else none)

/-- which pair of classes is used: `none` = "return self"; `some none` = drawn from the tape -/
def chargeTypeChoice (npos nneg nneut : Nat) : Option (Option (Nat × Nat)) :=
  if nneut = 0 then (if npos = 0 ∨ nneg = 0 then none else some (some (1, 2)))
  else if nneg = 0 then (if npos = 0 ∨ nneut = 0 then none else some (some (1, 3)))
  else if npos = 0 then (if nneg = 0 ∨ nneut = 0 then none else some (some (2, 3)))
  else some none

/-- `swapRandChargeRes(frozen)` given the drawn class pair (if any) and the two sampled indices;
    `none` = the object itself is returned -/
def swapRandCharge (T : Tables) (s : Seq) (frozen : List Nat) (drawn : Nat × Nat) (i j : Nat) : Option (Option Seq) :=
  let P := idxOf T s frozen 1
  let Ng := idxOf T s frozen (-1)
  let U := idxOf T s frozen 0
  match chargeTypeChoice P.length Ng.length U.length with
  | none => some none
  | some ct =>
    let t := ct.getD drawn
    let cls := fun (k : Nat) => if k = 1 then P else if k = 2 then Ng else U
    if i ∈ cls t.1 ∧ j ∈ cls t.2 ∧ t.1 ≠ t.2 ∧ 1 ≤ t.1 ∧ t.1 ≤ 3 ∧ 1 ≤ t.2 ∧ t.2 ≤ 3 then some (some (swapRes s i j)) else none

/-- one iteration of `permute_block_swap`: block size and the two sampled start indices (sorted inside) -/
def blockSwap (s : Seq) (bs a0 b0 : Nat) : Seq :=
  let a := min a0 b0
  let b := max a0 b0 + (bs - 1)
  -- newseq[a : a+bs-1] = old[b : b+bs-1] ; newseq[b : b+bs-1] = old[a : a+bs-1]
  (List.range s.length).zipWith (fun i x =>
    if a ≤ i ∧ i < a + (bs - 1) then (s[b + (i - a)]?).getD x
    else if b ≤ i ∧ i < b + (bs - 1) then (s[a + (i - b)]?).getD x
    else x) s

def blockTapeOK (s : Seq) (bs a0 b0 : Nat) : Bool :=
  2 ≤ bs && bs ≤ s.length / 2 && a0 != b0 && a0 < s.length - (bs - 1) * 2 && b0 < s.length - (bs - 1) * 2

/-- one iteration of `permute_cluster_charges`: the cluster window and the sampled outside positions -/
def clusterSwap (s : Seq) (cs center : Nat) (swapIdxs : List Nat) : Seq :=
  let lo := center - cs / 2
  let hi := center + (cs + 1) / 2
  let clusterIdxs := (List.range s.length).filter (fun i => lo ≤ i ∧ i < hi)
  let clusterRes := clusterIdxs.filterMap (fun i => s[i]?)
  let swapSorted := (List.range s.length).filter (fun i => i ∈ swapIdxs)
  let swapRes' := swapSorted.filterMap (fun i => s[i]?)
  let rec go : Nat → List AA → List AA → List AA → List AA
    | _, [], _, _ => []
    | i, x :: rest, cr, sr =>
      if i ∈ swapIdxs then match cr with
        | c :: cr' => c :: go (i + 1) rest cr' sr
        | [] => x :: go (i + 1) rest cr sr
      else if lo ≤ i ∧ i < hi then match sr with
        | c :: sr' => c :: go (i + 1) rest cr sr'
        | [] => x :: go (i + 1) rest cr sr
      else x :: go (i + 1) rest cr sr
  go 0 s clusterRes swapRes'

def natList (t : String) : List Nat := if t == "-" then [] else (t.splitOn ",").map String.toNat!

/-- driver glue: `move <kind> SEQ args…` -/
def moveOp (T : Tables) (kind : String) (s : Seq) (args : List String) : String :=
  match kind, args with
  | "swap", [i, j] => "str " ++ (swapRes s i.toNat! j.toNat!).toString
  | "shuffle", [fr, order] =>
    let f := natList fr; let o := natList order
    if shuffleTapeOK s f o then "str " ++ (fullShuffle s f o).toString else "bad-tape"
  | "swapcharge", [fr, t1, t2, i, j] =>
    match swapRandCharge T s (natList fr) (t1.toNat!, t2.toNat!) i.toNat! j.toNat! with
    | none => "bad-tape"
    | some none => "self"
    | some (some r) => "str " ++ r.toString
  | "swapcharge", [fr] =>
    match chargeTypeChoice (idxOf T s (natList fr) 1).length (idxOf T s (natList fr) (-1)).length (idxOf T s (natList fr) 0).length with
    | none => "self"
    | some _ => "bad-tape"
  | "block", [bs, a, b] =>
    if blockTapeOK s bs.toNat! a.toNat! b.toNat! then "str " ++ (blockSwap s bs.toNat! a.toNat! b.toNat!).toString else "bad-tape"
  | "cluster", [cs, center, sw] => "str " ++ (clusterSwap s cs.toNat! center.toNat! (natList sw)).toString
  | _, _ => "bad-op move"

end Cider
