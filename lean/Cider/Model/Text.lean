/-
  Cider.Model.Text — the three small text state machines:
    * sequence-string validation (`SequenceParameters(sequence=…)` → `Sequence(seq, validateSeq=True)`)
    * the sequence-file parser (`SequenceFileParser.parseSeqFile`)
    * the HTML renderer / palette (`get_HTMLColorString`, `set_HTMLColorResiduePalette`)
  Python's `str.upper` and `str.isspace` are parameters (`CharOps`): the theorems hold for any such
  pair; the driver instantiates them with ASCII rules plus the interpreter's Unicode tables (Gen).
-/
import Cider.Model.Basic
import Cider.Model.Err
namespace Cider

structure CharOps where
  upper : Char → List Char
  isspace : Char → Bool

/-- a Python value handed to the constructor -/
inductive PyVal
  | str (cs : List Char)
  | other
  deriving Repr

/-! ### C13: validateSequence -/

/-- `validateSequence` on the already upper-cased characters: keep the 20 letters, drop whitespace,
    reject anything else -/
def validateChars (ops : CharOps) : List Char → Except Err Seq
  | [] => .ok []
  | c :: cs =>
    match AA.ofChar? c with
    | some a => match validateChars ops cs with
      | .ok r => .ok (a :: r)
      | .error e => .error e
    | none =>
      if ops.isspace c then validateChars ops cs else .error .invalidResidue

/-- the proline-content line divides by the number of residues kept: nothing kept ⇒ ZeroDivisionError -/
def nonEmptyOrFail : Except Err Seq → Except Err Seq
  | .error e => .error e
  | .ok [] => .error .zeroDivision
  | .ok w => .ok w

/-- `SequenceParameters(sequence=v)`: empty string and non-strings are rejected up front, a string that
    normalises to nothing dies with ZeroDivisionError in the proline-content line -/
def construct (ops : CharOps) : PyVal → Except Err Seq
  | .other => .error .notAString
  | .str [] => .error .emptyInput
  | .str (c :: cs) => nonEmptyOrFail (validateChars ops ((c :: cs).flatMap ops.upper))

/-! ### C14: parseSeqFile -/

/-- universal newlines: "\r\n" and "\r" are line ends like "\n" -/
def splitLinesAux : List Char → List Char → List (List Char)
  | [], cur => [cur.reverse]
  | '\r' :: '\n' :: rest, cur => cur.reverse :: splitLinesAux rest []
  | '\r' :: rest, cur => cur.reverse :: splitLinesAux rest []
  | '\n' :: rest, cur => cur.reverse :: splitLinesAux rest []
  | c :: rest, cur => splitLinesAux rest (c :: cur)

def splitLines (cs : List Char) : List (List Char) := splitLinesAux cs []

def stripLine (ops : CharOps) (l : List Char) : List Char :=
  ((l.dropWhile ops.isspace).reverse.dropWhile ops.isspace).reverse

def isDigit (c : Char) : Bool := '0' ≤ c ∧ c ≤ '9'

/-- `__validSeq`: letters and '*' kept, blanks and digits dropped, anything else rejected -/
def validSeqLine : List Char → Except Err (List Char)
  | [] => .ok []
  | c :: cs =>
    if (AA.ofChar? c).isSome ∨ c = '*' then
      match validSeqLine cs with
      | .ok r => .ok (c :: r)
      | .error e => .error e
    else if c = ' ' ∨ isDigit c then validSeqLine cs
    else .error .badFileChar

/-- the line loop: state = (header seen, residues so far) -/
def parseLines (ops : CharOps) : List (List Char) → Bool → List Char → Except Err (List Char)
  | [], _, acc => .ok acc
  | l :: ls, header, acc =>
    if (stripLine ops l).isEmpty then parseLines ops ls header acc
    else if (stripLine ops l).head? == some '>' then
      (if header then .error .secondHeader else parseLines ops ls true acc)
    else match validSeqLine (stripLine ops l) with
      | .error e => .error e
      | .ok r => parseLines ops ls header (acc ++ r)

/-- `__final_validation` -/
def finalValidation (seq : List Char) : Except Err (List Char) :=
  let stars := seq.count '*'
  if stars = 0 then .ok seq
  else if stars > 1 then .error .badStar
  else if seq.getLast? = some '*' then .ok seq.dropLast
  else .error .badStar

def parseFile (ops : CharOps) (content : List Char) : Except Err (List Char) :=
  match parseLines ops (splitLines content) false [] with
  | .error e => .error e
  | .ok seq => finalValidation seq

/-! ### C20: HTML rendering and palette -/

abbrev Palette := AA → String

/-- `<p style="font-family:Courier;">` -/
def htmlPrefixC : List Char :=
  ['<','p',' ','s','t','y','l','e','=','"','f','o','n','t','-','f','a','m','i','l','y',':','C','o','u','r','i','e','r',';','"','>']
/-- `</p>` -/
def htmlSuffixC : List Char := ['<','/','p','>']
/-- `<span style="color:` -/
def spanOpenC : List Char := ['<','s','p','a','n',' ','s','t','y','l','e','=','"','c','o','l','o','r',':']
/-- `">` -/
def spanMidC : List Char := ['"','>']
/-- `</span>` -/
def spanCloseC : List Char := ['<','/','s','p','a','n','>']
/-- `<br>` -/
def brC : List Char := ['<','b','r','>']

def spanC (col : List Char) (a : AA) : List Char := spanOpenC ++ col ++ spanMidC ++ [a.toChar] ++ spanCloseC

/-- what precedes residue number `i` (0-based): a space opens every block of 10, a `<br>` every block of 50 -/
def sepC (i : Nat) : List Char := (if i % 10 = 0 then [' '] else []) ++ (if i % 50 = 0 then brC else [])

/-- the loop of `get_HTMLColorString` with its counter -/
def renderFromC (pal : AA → List Char) : Nat → Seq → List Char
  | _, [] => []
  | i, a :: rest => sepC i ++ spanC (pal a) a ++ renderFromC pal (i + 1) rest

def renderC (pal : AA → List Char) (s : Seq) : List Char := htmlPrefixC ++ renderFromC pal 0 s ++ htmlSuffixC

def render (pal : Palette) (s : Seq) : String := String.ofList (renderC (fun a => (pal a).toList) s)

/-- the 17 standard HTML colour names (documented list) -/
def htmlColours : List String :=
  ["aqua", "black", "blue", "fuchsia", "gray", "green", "lime", "maroon", "navy", "olive", "orange",
   "purple", "red", "silver", "teal", "white", "yellow"]

/-- a user dictionary: for each key string a colour string (first binding wins, like dict lookup after
    the harness has already collapsed duplicates) -/
abbrev PyDict := List (String × String)

def PyDict.get? (d : PyDict) (k : String) : Option String := (d.find? (fun kv => kv.1 == k)).map (·.2)

/-- `set_HTMLColorResiduePalette`: validate all 20 then commit; `none` = rejected (palette unchanged) -/
def checkPalette (d : PyDict) : Option Palette :=
  if AA.all.all (fun a => match d.get? (String.singleton a.toChar) with
      | some c => htmlColours.contains c
      | none => false)
  then some (fun a => (d.get? (String.singleton a.toChar)).getD "")  -- `.lower()` is the identity on the 17 names
  else none

def setPalette (cur : Palette) (d : PyDict) : Palette × Bool :=
  match checkPalette d with
  | some p => (p, true)
  | none => (cur, false)

/-- strip the markup: drop everything between '<' and '>' and all spaces -/
def stripMarkup : List Char → Bool → List Char
  | [], _ => []
  | c :: cs, inTag =>
    if c = '<' then stripMarkup cs true
    else if c = '>' ∧ inTag = true then stripMarkup cs false
    else if inTag = true ∨ c = ' ' then stripMarkup cs inTag
    else c :: stripMarkup cs inTag

end Cider
