/-
  Cider.Model.Profiles — sliding-window profiles (C10) and complexity windows/positions (C11),
  reduced alphabets (C12) and the titratable-residue counts behind the pH-dependent charge (C09).
-/
import Cider.Model.SeqParams
namespace Cider

/-! ### C10 -/

/-- `flank = int(w/2); if 2*flank + nblobs == N: (flank, flank) else (flank-1, flank)` -/
def flanks (w N : Nat) : Nat × Nat :=
  let nblobs := N + 1 - w
  let flank := w / 2
  if 2 * flank + nblobs = N then (flank, flank) else (flank - 1, flank)

/-- generic window list over any element type -/
def wins {α : Type} (w : Nat) (l : List α) : List (List α) :=
  (List.range (l.length + 1 - w)).map (fun i => (l.drop i).take w)

def zerosQ (n : Nat) : List Rat := List.replicate n 0

/-- the value row of a profile: zeros, one statistic per window, zeros — window check first -/
def profile {α : Type} (stat : List α → Rat) (w : Nat) (l : List α) : Except Err (List Rat) :=
  if l.length < w then .error .windowTooLong
  else
    let f := flanks w l.length
    .ok (zerosQ f.1 ++ (wins w l).map stat ++ zerosQ f.2)

def statNCPR (w : Nat) (b : Pattern) : Rat := ((countPos b : Int) - (countNeg b : Int) : Int) / (w : Rat)
def statFCR (w : Nat) (b : Pattern) : Rat := ((countPos b + countNeg b : Nat) : Rat) / (w : Rat)
def statSigma (w : Nat) (b : Pattern) : Rat := sigmaOf (countPos b) (countNeg b) w
def statHydro (T : Tables) (w : Nat) (b : Seq) : Rat :=
  (b.foldl (fun acc a => acc + ndToRat (T.kdU a)) 0) / (w : Rat)
def statDensity (g : List AA) (w : Nat) (b : Seq) : Rat :=
  (b.foldl (fun acc a => acc + (if a ∈ g then (1 : Rat) else 0)) 0) / (w : Rat)

def linNCPR (T : Tables) (w : Nat) (s : Seq) := profile (statNCPR w) w (patternOf T s)
def linFCR (T : Tables) (w : Nat) (s : Seq) := profile (statFCR w) w (patternOf T s)
def linSigma (T : Tables) (w : Nat) (s : Seq) := profile (statSigma w) w (patternOf T s)
def linHydro (T : Tables) (w : Nat) (s : Seq) := profile (statHydro T w) w s

/-- the seven default groups of `linearCompositions` -/
def defaultGroups : List (List AA) :=
  [[.E, .D], [.R, .K], [.R, .K, .E, .D], [.Q, .N, .S, .T, .G, .H, .C], [.A, .L, .M, .I, .V], [.F, .Y, .W], [.P]]

def mapExcept {α β : Type} (f : α → Except Err β) : List α → Except Err (List β)
  | [] => .ok []
  | x :: xs => match f x with
    | .error e => .error e
    | .ok y => match mapExcept f xs with
      | .error e => .error e
      | .ok ys => .ok (y :: ys)

/-- `linearCompositions(w, grps)`: user groups are parsed first (all of them), then one density row per group -/
def linComposition (w : Nat) (grps : List (List PyMember)) (s : Seq) : Except Err (List (List Rat)) :=
  match (if grps.isEmpty then Except.ok defaultGroups else mapExcept parseGroup grps) with
  | .error e => .error e
  | .ok gs => mapExcept (fun g => profile (statDensity g w) w s) gs

def positions1N (n : Nat) : List Nat := (List.range n).map (· + 1)

/-! ### C11 -/

/-- `while step <= N - w: …; step += s` — the start offsets -/
def stepStarts (w st N : Nat) : List Nat :=
  if N < w then [] else (List.range ((N - w) / st + 1)).map (· * st)

def windowsStep {α : Type} (w st : Nat) (l : List α) : List (List α) :=
  (stepStarts w st l.length).map (fun i => (l.drop i).take w)

/-- `get_indexed_complexity_vector`: K evenly spaced positions -/
def complexityPositions (K N : Nat) : List Nat :=
  let spacing := N / K
  let remainder := N - spacing * K
  let flankStart := if remainder % 2 = 0 then remainder / 2 else (remainder - 1) / 2
  (List.range K).map (fun i => flankStart + 1 + spacing / 2 + i * spacing)

/-- counts of each alphabet letter in a window (WF complexity is the entropy of these) -/
def letterCounts (alphabet : List AA) (win : Seq) : List Nat := alphabet.map (fun x => win.count x)

def dedup {α : Type} [DecidableEq α] : List α → List α
  | [] => []
  | x :: xs => let r := dedup xs; if x ∈ r then r else x :: r

/-- linguistic complexity of one window (`range(0, w − wordSize)` words, as in the code) -/
def lcWindow (alphabetSize wordSize w : Nat) (win : Seq) : Rat :=
  let words := (List.range (w - wordSize)).map (fun i => (win.drop i).take wordSize)
  let v := (dedup words).length
  let vmax := min (alphabetSize ^ wordSize) (w - 1 + wordSize)
  (v : Rat) / (vmax : Rat)

/-- the LZW-like scan of the code: on a hit the character is PREPENDED to the current word -/
def lzwScan : List AA → List AA → List (List AA) → List (List AA)
  | [], _, seen => seen
  | c :: rest, cur, seen =>
    let cand := cur ++ [c]
    if cand ∈ seen then lzwScan rest (c :: cur) seen
    else lzwScan rest [c] (cand :: seen)

def lzwWindow (w : Nat) (win : Seq) : Rat := ((lzwScan win [] []).length : Rat) / (w : Rat)

/-! ### C12 -/

/-- a user alphabet as the harness sends it: for each of the 20 letters an optional image string -/
abbrev UserAlphabet := AA → Option (List Char)

/-- the image of a residue, if the user alphabet binds it to a single upper-case amino-acid letter -/
def imageOf (u : UserAlphabet) (a : AA) : Option AA :=
  match u a with
  | some [c] => AA.ofChar? c
  | _ => none

/-- accepted iff every one of the 20 residues maps to a single upper-case amino-acid letter -/
def userAlphabetMap (u : UserAlphabet) : Option (AA → AA) :=
  if AA.all.all (fun a => (imageOf u a).isSome) then some (fun a => (imageOf u a).getD a) else none

/-- the order of `TWENTY_AAs` -/
def twentyOrder : List AA := [.R, .H, .K, .D, .E, .S, .T, .N, .Q, .C, .G, .P, .A, .I, .L, .M, .F, .W, .Y, .V]

/-- alphabet of a user mapping: distinct images in `TWENTY_AAs` order of first appearance -/
def userAlphabetLetters (f : AA → AA) : List AA :=
  twentyOrder.foldl (fun acc x => if f x ∈ acc then acc else acc ++ [f x]) []

/-- reduced sequence + alphabet for (size, user alphabet) as `reduce_alphabet` does -/
def reduceSeq (reduceTab : Nat → Option (AA → AA)) (alphabetTab : Nat → Option (List AA)) (size : Option Nat) (ua : Option UserAlphabet) (s : Seq) : Except Err (Seq × List AA) :=
  match ua with
  | some u =>
    match userAlphabetMap u with
    | none => .error .badAlphabet
    | some f => .ok (s.map f, userAlphabetLetters f)
  | none =>
    match size with
    | none => .error .badAlphabetSize
    | some k =>
      match reduceTab k, alphabetTab k with
      | some f, some al => .ok (s.map f, al)
      | _, _ => .error .badAlphabetSize


/-! ### C09 -/

/-- numbers of K, R, H, D, E, C, Y — everything the pH-dependent charge depends on -/
def titrCounts (s : Seq) : List Nat := [AA.K, AA.R, AA.H, AA.D, AA.E, AA.C, AA.Y].map (fun a => s.count a)

end Cider
