/-
  Cider.Model.PH — pH-dependent charge (Henderson–Hasselbalch) and the isoelectric-point bisection,
  written ONCE, generically over a small class of "real-like" numbers.  The proof files instantiate
  it with ℝ (Mathlib) and prove the theorems; the driver instantiates it with `Float` and runs it.
-/
import Cider.Model.Basic
import Cider.Model.Err
namespace Cider

class RealLike (α : Type) extends Add α, Sub α, Mul α, Div α, Neg α where
  ofRat : Rat → α
  /-- 10 ^ x -/
  pow10 : α → α
  /-- strict order as a decision -/
  ltB : α → α → Bool

namespace PH
variable {α : Type} [RealLike α]

def one : α := RealLike.ofRat 1
def zero : α := RealLike.ofRat 0

/-- fraction of a basic group (K, R, H) that is protonated: 1 / (1 + 10^(pH − pKa)) -/
def hhPos (pKa pH : α) : α := one / (one + RealLike.pow10 (pH - pKa))
/-- fraction of an acidic group (D, E, C, Y) that is deprotonated: 1 / (1 + 10^(pKa − pH)) -/
def hhNeg (pKa pH : α) : α := one / (one + RealLike.pow10 (pKa - pH))

/-- the pKa table and titration classes the code uses: +1 basic, −1 acidic, 0 not titratable -/
structure Titration where
  cls : AA → Int
  pKa : AA → Rat

/-- the titration table of a tables set: classes + pKa as numerator/denominator pairs -/
def titrOf (cls : AA → Int) (pka : AA → Option (Int × Nat)) : Titration :=
  { cls := cls, pKa := fun a => match pka a with | some nd => (nd.1 : Rat) / (nd.2 : Rat) | none => 0 }

/-- `charge_at_pH(pH, mode)`: one pass over the sequence, adding each titratable residue's term;
    returns (total, number of titratable residues) -/
def chargeLoop (tt : Titration) (total : Bool) (pH : α) (s : Seq) : α × Nat :=
  s.foldl (fun (acc : α × Nat) a =>
    if tt.cls a = 1 then (acc.1 + hhPos (RealLike.ofRat (tt.pKa a)) pH, acc.2 + 1)
    else if tt.cls a = -1 then
      (acc.1 + (if total then one else -one) / (one + RealLike.pow10 (RealLike.ofRat (tt.pKa a) - pH)), acc.2 + 1)
    else acc) (zero, 0)

def chargeAtPH (tt : Titration) (total : Bool) (pH : α) (s : Seq) : α := (chargeLoop tt total pH s).1

/-- `normalize=True`: mean charge per titratable residue, 0 when nothing titrates -/
def chargeNormalized (tt : Titration) (pH : α) (s : Seq) : α :=
  let r := chargeLoop tt false pH s
  if r.2 = 0 then zero else r.1 / RealLike.ofRat (r.2 : Rat)

/-- `__verify_pH` -/
def pHRejected (pH : α) : Bool := RealLike.ltB pH zero || RealLike.ltB (RealLike.ofRat 14) pH

def ncprPH (tt : Titration) (pH : α) (s : Seq) : α := chargeAtPH tt false pH s / RealLike.ofRat (s.length : Rat)
def fcrPH (tt : Titration) (pH : α) (s : Seq) : α := chargeAtPH tt true pH s / RealLike.ofRat (s.length : Rat)
def ferPH (tt : Titration) (pH : α) (s : Seq) : α :=
  (chargeAtPH tt true pH s + RealLike.ofRat (s.count AA.P : Rat)) / RealLike.ofRat (s.length : Rat)
def absA (x : α) : α := if RealLike.ltB x zero then -x else x
def meanNetChargePH (tt : Titration) (pH : α) (s : Seq) : α := absA (ncprPH tt pH s)

/-! ### the isoelectric-point bisection -/

structure PIState (α : Type) where
  lo : α
  hi : α
  breakcount : Nat
  errorcount : Nat
  /-- `protein_charge` of the previous iteration (unbound on the very first one, never read then) -/
  last : α

/-- the escape clause at the top of the loop body (every 20th trip widens the bracket; the 11th time it raises) -/
def piEscape (st : PIState α) : Sum (PIState α) (Except Err α) :=
  if st.breakcount + 1 = 20 then
    if st.errorcount = 10 then .inr (.error .piNoConverge)
    else if RealLike.ltB zero st.last then
      .inl { st with hi := st.hi + one, breakcount := 0, errorcount := st.errorcount + 1 }
    else
      .inl { st with lo := st.lo - one, breakcount := 0, errorcount := st.errorcount + 1 }
  else .inl { st with breakcount := st.breakcount + 1 }

/-- the bisection step proper -/
def piBisect (f : α → α) (thr : α) (st1 : PIState α) : Sum (PIState α) (Except Err α) :=
  let mid := RealLike.ofRat (1/2) * (st1.hi + st1.lo)
  let pc := f mid
  if RealLike.ltB thr pc then .inl { st1 with lo := mid, last := pc }
  else if RealLike.ltB pc (-thr) then .inl { st1 with hi := mid, last := pc }
  else .inr (.ok mid)

/-- one trip through the `while True` body for an arbitrary charge function;
    `inl` = keep looping with the new state, `inr` = return / raise -/
def piStep (f : α → α) (thr : α) (st : PIState α) : Sum (PIState α) (Except Err α) :=
  match piEscape st with
  | .inr r => .inr r
  | .inl st1 => piBisect f thr st1

/-- the loop with explicit fuel; `none` = fuel exhausted (proved impossible for fuel ≥ 221) -/
def piLoop (f : α → α) (thr : α) : Nat → PIState α → Option (Except Err α)
  | 0, _ => none
  | fuel + 1, st =>
    match piStep f thr st with
    | .inr r => some r
    | .inl st' => piLoop f thr fuel st'

def piInit : PIState α := { lo := RealLike.ofRat 0, hi := RealLike.ofRat 14, breakcount := 0, errorcount := 0, last := zero }

/-- `isoelectric_point()` -/
def isoelectricPoint (tt : Titration) (s : Seq) : Option (Except Err α) :=
  piLoop (fun pH => chargeNormalized tt pH s) (RealLike.ofRat (1/50)) 230 piInit

end PH
end Cider
