/-
  C08 — the diagram-of-states region is total and follows the FCR/NCPR thresholds.
  ONLY property theorems (+ non-vacuity examples).
-/
import Cider.Model.TablesSpec
import Cider.Spec.Defs
import Mathlib.Tactic.Linarith
import Mathlib.Tactic.Ring
import Mathlib.Tactic.FieldSimp
import Mathlib.Algebra.Order.Field.Rat
import Mathlib.Algebra.Order.Field.Basic

namespace Cider.C08
open Cider

/-- the cascade on exact fractions `x = f+`, `y = f−`: neither defensive `raise` is reachable and
    the answer is the threshold rule -/
theorem regionCode_xy (x y : Rat) (_hx : 0 ≤ x) (_hy : 0 ≤ y) (_h1 : x + y ≤ 1) :
    regionCode (x + y) (x - y) x y =
      .ok (if x + y < 1/4 then 1 else if x + y ≤ 7/20 then 2
           else if -7/20 < x - y ∧ x - y < 7/20 then 3 else if y < x then 5 else 4) := by
  unfold regionCode
  grind

/-- `Spec.regionDef` written on the two fractions -/
theorem regionDef_xy (np nn N : Nat) (hN : 0 < N) :
    Spec.regionDef np nn N =
      (let x : Rat := (np : Rat) / (N : Rat); let y : Rat := (nn : Rat) / (N : Rat)
       if x + y < 1/4 then 1 else if x + y ≤ 7/20 then 2
       else if -7/20 < x - y ∧ x - y < 7/20 then 3 else if y < x then 5 else 4) := by
  have hNq : (0 : Rat) < (N : Rat) := by exact_mod_cast hN
  have e1 : (((np + nn : Nat) : Rat)) / (N : Rat) = (np : Rat) / N + (nn : Rat) / N := by push_cast; ring
  have e2 : ((np : Rat) - (nn : Rat)) / (N : Rat) = (np : Rat) / N - (nn : Rat) / N := by ring
  have e3 : (nn < np) ↔ ((nn : Rat) / (N : Rat) < (np : Rat) / (N : Rat)) := by
    rw [div_lt_div_iff_of_pos_right hNq]; exact_mod_cast Iff.rfl
  unfold Spec.regionDef
  simp only [e1, e2, e3]

/-- **total and equal to the spec**: for every composition (n+, n−, N) of a non-empty sequence the
    cascade returns — never raises — exactly the region given by the exact rational thresholds -/
theorem region_total_and_spec (T : Tables) (s : Seq) (hs : s ≠ []) :
    phaseRegion T s = .ok (Spec.regionDef (nPos T s) (nNeg T s) s.length) := by
  have hN : 0 < s.length := List.length_pos_iff.mpr hs
  have hNq : (0 : Rat) < (s.length : Rat) := by exact_mod_cast hN
  have hle : nPos T s + nNeg T s ≤ s.length := by
    unfold nPos nNeg countPos countNeg
    have hl : (patternOf T s).length = s.length := by simp [patternOf]
    rw [← hl]
    generalize patternOf T s = p
    induction p with
    | nil => simp
    | cons x xs ih =>
      simp only [List.countP_cons, List.length_cons]
      by_cases h1 : 0 < x
      · have h2 : ¬ x < 0 := by omega
        simp [h1, h2]; omega
      · by_cases h2 : x < 0 <;> simp [h1, h2] <;> omega
  rw [regionDef_xy _ _ _ hN]
  unfold phaseRegion
  have e1 : fcr T s = fPlus T s + fMinus T s := by unfold fcr fPlus fMinus; push_cast; ring
  have e2 : ncpr T s = fPlus T s - fMinus T s := by unfold ncpr fPlus fMinus; push_cast; ring
  rw [e1, e2]
  have hx : (0 : Rat) ≤ fPlus T s := div_nonneg (Nat.cast_nonneg _) (Nat.cast_nonneg _)
  have hy : (0 : Rat) ≤ fMinus T s := div_nonneg (Nat.cast_nonneg _) (Nat.cast_nonneg _)
  have h1 : fPlus T s + fMinus T s ≤ 1 := by
    unfold fPlus fMinus
    rw [← add_div, div_le_one hNq]
    exact_mod_cast hle
  rw [regionCode_xy _ _ hx hy h1]
  rfl

/-- the spec only takes the values 1..5 -/
theorem region_in_1_5 (np nn N : Nat) : 1 ≤ Spec.regionDef np nn N ∧ Spec.regionDef np nn N ≤ 5 := by
  unfold Spec.regionDef
  simp only []
  split_ifs <;> omega

/-- the threshold reading of the five regions (FCR < ¼; ¼ ≤ FCR ≤ 7⁄20; FCR > 7⁄20 ∧ |NCPR| < 7⁄20;
    otherwise 5 iff positives outnumber negatives, 4 iff negatives outnumber positives) -/
theorem region_spec_cases (np nn N : Nat) :
    let fcr : Rat := ((np + nn : Nat) : Rat) / (N : Rat)
    let ncpr : Rat := ((np : Rat) - (nn : Rat)) / (N : Rat)
    (fcr < 1/4 → Spec.regionDef np nn N = 1) ∧
    (1/4 ≤ fcr ∧ fcr ≤ 7/20 → Spec.regionDef np nn N = 2) ∧
    (7/20 < fcr ∧ |ncpr| < 7/20 → Spec.regionDef np nn N = 3) ∧
    (7/20 < fcr ∧ 7/20 ≤ |ncpr| ∧ nn < np → Spec.regionDef np nn N = 5) ∧
    (7/20 < fcr ∧ 7/20 ≤ |ncpr| ∧ np < nn → Spec.regionDef np nn N = 4) := by
  intro fcr ncpr
  unfold Spec.regionDef
  refine ⟨?_, ?_, ?_, ?_, ?_⟩
  · intro h; simp only []; rw [if_pos h]
  · rintro ⟨h1, h2⟩; simp only []; rw [if_neg (not_lt.mpr h1), if_pos h2]
  · rintro ⟨h1, h2⟩
    have h3 := abs_lt.mp h2
    simp only []
    rw [if_neg (by linarith), if_neg (not_le.mpr h1), if_pos ⟨by linarith [h3.1], h3.2⟩]
  · rintro ⟨h1, h2, h3⟩
    simp only []
    have : ¬ (-7/20 < ((np : Rat) - (nn : Rat)) / (N : Rat) ∧ ((np : Rat) - (nn : Rat)) / (N : Rat) < 7/20) := by
      rintro ⟨a, b⟩; have := abs_lt.mpr ⟨by linarith, b⟩; linarith
    rw [if_neg (by linarith), if_neg (not_le.mpr h1), if_neg this, if_pos h3]
  · rintro ⟨h1, h2, h3⟩
    simp only []
    have : ¬ (-7/20 < ((np : Rat) - (nn : Rat)) / (N : Rat) ∧ ((np : Rat) - (nn : Rat)) / (N : Rat) < 7/20) := by
      rintro ⟨a, b⟩; have := abs_lt.mpr ⟨by linarith, b⟩; linarith
    rw [if_neg (by linarith), if_neg (not_le.mpr h1), if_neg this, if_neg (by omega)]

/-- in the last case equality of the two counts is impossible: 4 or 5 is decided by a strict majority -/
theorem region_4_5 (np nn N : Nat) (hN : 0 < N)
    (h : Spec.regionDef np nn N = 4 ∨ Spec.regionDef np nn N = 5) : np ≠ nn := by
  intro e
  subst e
  unfold Spec.regionDef at h
  have h3 : ((-7 / 20 : Rat) < 0 ∧ (0 : Rat) < 7 / 20) := by norm_num
  simp only [sub_self, zero_div, h3, and_self, if_true, lt_irrefl, if_false] at h
  split_ifs at h <;> simp at h

/-- the decision depends on the sequence only through (n+, n−, N) -/
theorem region_factors_through_counts (T : Tables) (s t : Seq) (hs : s ≠ []) (ht : t ≠ [])
    (h1 : nPos T s = nPos T t) (h2 : nNeg T s = nNeg T t) (h3 : s.length = t.length) :
    phaseRegion T s = phaseRegion T t := by
  rw [region_total_and_spec T s hs, region_total_and_spec T t ht, h1, h2, h3]

/-! non-vacuity: boundary compositions 7/20 = 21/60 and 1/4 -/
example : Spec.regionDef 7 0 20 = 2 ∧ Spec.regionDef 21 0 60 = 2 ∧ Spec.regionDef 22 0 60 = 5 ∧
    Spec.regionDef 5 0 20 = 2 ∧ Spec.regionDef 4 0 20 = 1 ∧ Spec.regionDef 4 4 20 = 3 ∧ Spec.regionDef 0 8 20 = 4 := by
  decide +kernel

end Cider.C08
