/-
  C11 — complexity profiles: window count, positions, range, locality (discrete part).
  ONLY property theorems.  The entropy statements over ℝ are in Cider.Props.C11Real.
-/
import Cider.Model.Profiles
import Mathlib.Tactic.Ring
import Mathlib.Tactic.Linarith
import Mathlib.Algebra.Order.Field.Rat
import Mathlib.Algebra.Order.Field.Basic
import Mathlib.Data.List.Basic
import Mathlib.Data.List.Nodup
import Mathlib.Data.List.Perm.Subperm

namespace Cider.C11
open Cider

/-- K = floor((N − w)/s) + 1 windows for every window w ≤ N and step s ≥ 1 -/
theorem window_count {α : Type} (w st : Nat) (l : List α) (hw : w ≤ l.length) :
    (windowsStep w st l).length = (l.length - w) / st + 1 := by
  unfold windowsStep stepStarts
  rw [if_neg (by omega)]; simp

/-- the i-th window is the slice [i·s, i·s + w) of the (reduced) sequence, of full length w -/
theorem windows_are_slices {α : Type} (w st : Nat) (l : List α) (hw : w ≤ l.length) (hst : 1 ≤ st) (i : Nat)
    (hi : i < (l.length - w) / st + 1) :
    (windowsStep w st l)[i]? = some ((l.drop (i * st)).take w) ∧ ((l.drop (i * st)).take w).length = w := by
  unfold windowsStep stepStarts
  rw [if_neg (by omega)]
  constructor
  · simp [hi]
  · have h1 : i * st ≤ l.length - w := by
      have : i ≤ (l.length - w) / st := by omega
      calc i * st ≤ ((l.length - w) / st) * st := Nat.mul_le_mul_right _ this
        _ ≤ l.length - w := Nat.div_mul_le_self _ _
    simp; omega

/-- each value depends only on the residues of its own window: two (reduced) sequences that agree on
    the slice produce the same i-th window, hence the same i-th value for any window statistic -/
theorem value_local {α β : Type} (stat : List α → β) (w st : Nat) (l l' : List α) (i : Nat)
    (hagree : (l.drop (i * st)).take w = (l'.drop (i * st)).take w)
    (hlen : l.length = l'.length) :
    ((windowsStep w st l).map stat)[i]? = ((windowsStep w st l').map stat)[i]? := by
  unfold windowsStep stepStarts
  rw [hlen]
  by_cases h : l'.length < w
  · simp [h]
  · simp only [h, if_false, List.map_map, List.getElem?_map, List.getElem?_range]
    by_cases hi : i < (l'.length - w) / st + 1
    · simp [hi, hagree]
    · simp [hi]

/-- the position row has exactly K entries (so the `vstack` with the K values is well shaped) -/
theorem positions_length (K N : Nat) : (complexityPositions K N).length = K := by
  unfold complexityPositions; simp

/-- positions are strictly increasing whenever there are at most N windows (always: K ≤ N − w + 1 ≤ N) -/
theorem positions_strictMono (K N : Nat) (hK : 1 ≤ K) (hKN : K ≤ N) :
    (complexityPositions K N).Pairwise (· < ·) := by
  unfold complexityPositions
  simp only []
  have hsp : 1 ≤ N / K := (Nat.one_le_div_iff (by omega)).mpr hKN
  rw [List.pairwise_map]
  apply List.Pairwise.imp _ List.pairwise_lt_range
  intro a b hab
  have : a * (N / K) < b * (N / K) := Nat.mul_lt_mul_of_pos_right hab (by omega)
  omega

/-- every position lies within 1..N -/
theorem positions_in_range (K N : Nat) (hK : 1 ≤ K) (hKN : K ≤ N) :
    ∀ p ∈ complexityPositions K N, 1 ≤ p ∧ p ≤ N := by
  intro p hp
  unfold complexityPositions at hp
  simp only [List.mem_map, List.mem_range] at hp
  obtain ⟨i, hi, rfl⟩ := hp
  have hsp : 1 ≤ N / K := (Nat.one_le_div_iff (by omega)).mpr hKN
  have hdm : K * (N / K) + N % K = N := Nat.div_add_mod N K
  have hmul : N / K * K = K * (N / K) := Nat.mul_comm _ _
  have hi2 : i * (N / K) + N / K ≤ K * (N / K) := by
    have : (i + 1) * (N / K) ≤ K * (N / K) := Nat.mul_le_mul_right _ (by omega)
    rw [Nat.add_mul, Nat.one_mul] at this
    exact this
  generalize hsp' : N / K = sp at *
  generalize hp' : K * sp = P at *
  generalize hi' : i * sp = I at *
  rw [hmul]
  constructor
  · omega
  · split <;> omega

/-! ### LC and LZW values lie in [0,1] -/

theorem dedup_nodup {α : Type} [DecidableEq α] (l : List α) : (dedup l).Nodup ∧ (∀ x, x ∈ dedup l ↔ x ∈ l) := by
  induction l with
  | nil => simp [dedup]
  | cons a t ih =>
    obtain ⟨h1, h2⟩ := ih
    unfold dedup
    simp only []
    by_cases ha : a ∈ dedup t
    · rw [if_pos ha]
      refine ⟨h1, ?_⟩
      intro x; rw [h2, List.mem_cons]
      constructor
      · intro h; exact Or.inr h
      · rintro (rfl | h)
        · exact (h2 _).mp ha
        · exact h
    · rw [if_neg ha]
      refine ⟨List.nodup_cons.mpr ⟨ha, h1⟩, ?_⟩
      intro x; simp [h2]

theorem dedup_length_le {α : Type} [DecidableEq α] (l : List α) : (dedup l).length ≤ l.length := by
  induction l with
  | nil => simp [dedup]
  | cons a t ih => unfold dedup; simp only []; split <;> simp <;> omega

/-- all words of length k over a list of letters -/
def allWords {α : Type} (alph : List α) : Nat → List (List α)
  | 0 => [[]]
  | k + 1 => alph.flatMap (fun a => (allWords alph k).map (a :: ·))

theorem allWords_length {α : Type} (alph : List α) (k : Nat) : (allWords alph k).length = alph.length ^ k := by
  induction k with
  | zero => simp [allWords]
  | succ n ih =>
    simp only [allWords, List.length_flatMap, List.length_map, ih]
    have : ∀ (l : List α) (c : Nat), (l.map (fun _ => c)).sum = l.length * c := by
      intro l c; induction l with
      | nil => simp
      | cons x xs ih2 => simp [ih2, Nat.succ_mul, Nat.add_comm]
    rw [this, pow_succ, Nat.mul_comm]

theorem mem_allWords {α : Type} (alph : List α) (k : Nat) (wd : List α) (hl : wd.length = k)
    (hm : ∀ x ∈ wd, x ∈ alph) : wd ∈ allWords alph k := by
  induction k generalizing wd with
  | zero => simp [allWords, List.length_eq_zero_iff.mp hl]
  | succ n ih =>
    cases wd with
    | nil => simp at hl
    | cons a t =>
      simp only [allWords, List.mem_flatMap, List.mem_map]
      exact ⟨a, hm a List.mem_cons_self, t, ih t (by simpa using hl) (fun x hx => hm x (List.mem_cons_of_mem _ hx)), rfl⟩

/-- linguistic complexity of a window over alphabet letters lies in [0,1]: the number of distinct
    words is bounded by both |A|^wordSize and the number of word positions -/
theorem lc_range (alphabet : List AA) (wordSize w : Nat) (win : Seq) (hw : 1 ≤ w) (hws : 1 ≤ wordSize)
    (hlen : win.length = w) (hA : 1 ≤ alphabet.length) (hletters : ∀ x ∈ win, x ∈ alphabet) :
    0 ≤ lcWindow alphabet.length wordSize w win ∧ lcWindow alphabet.length wordSize w win ≤ 1 := by
  unfold lcWindow
  simp only []
  set words := (List.range (w - wordSize)).map (fun i => (win.drop i).take wordSize) with hwords
  have hvmax_pos : 0 < min (alphabet.length ^ wordSize) (w - 1 + wordSize) := by
    have : 0 < alphabet.length ^ wordSize := Nat.pow_pos (by omega)
    omega
  have hv1 : (dedup words).length ≤ w - 1 + wordSize := by
    have := dedup_length_le words
    have hl : words.length = w - wordSize := by simp [hwords]
    omega
  have hv2 : (dedup words).length ≤ alphabet.length ^ wordSize := by
    rw [← allWords_length]
    obtain ⟨hnd, hmem⟩ := dedup_nodup words
    apply (List.subperm_of_subset hnd _).length_le
    intro wd hwd
    have hwd' := (hmem wd).mp hwd
    simp only [hwords, List.mem_map, List.mem_range] at hwd'
    obtain ⟨i, hi, rfl⟩ := hwd'
    apply mem_allWords
    · simp; omega
    · intro x hx
      exact hletters x (List.mem_of_mem_drop (List.mem_of_mem_take hx))
  constructor
  · apply div_nonneg <;> exact Nat.cast_nonneg _
  · rw [div_le_one (by exact_mod_cast hvmax_pos)]
    have : (dedup words).length ≤ min (alphabet.length ^ wordSize) (w - 1 + wordSize) := by omega
    exact_mod_cast this

theorem lzwScan_length (l cur : List AA) (seen : List (List AA)) :
    (lzwScan l cur seen).length ≤ seen.length + l.length := by
  induction l generalizing cur seen with
  | nil => simp [lzwScan]
  | cons c rest ih =>
    unfold lzwScan
    simp only []
    split
    · have := ih (c :: cur) seen; simp; omega
    · have := ih [c] ((cur ++ [c]) :: seen); simp at this ⊢; omega

/-- the LZW-style value lies in [0,1]: at most one dictionary entry is added per residue -/
theorem lzw_range (w : Nat) (win : Seq) (hw : 1 ≤ w) (hlen : win.length = w) :
    0 ≤ lzwWindow w win ∧ lzwWindow w win ≤ 1 := by
  unfold lzwWindow
  constructor
  · apply div_nonneg <;> exact Nat.cast_nonneg _
  · rw [div_le_one (by exact_mod_cast (show 0 < w by omega))]
    have := lzwScan_length win [] []
    simp at this
    rw [hlen] at this
    exact_mod_cast this

/-- an unknown complexity type or a window longer than the sequence is rejected (driver-level decision,
    restated): the window guard is the same `len(seq) < w` test as for the linear profiles -/
theorem complexity_rejects_type_and_window (w st : Nat) (l : Seq) (h : l.length < w) :
    windowsStep w st l = [] := by
  unfold windowsStep stepStarts; rw [if_pos h]; rfl

end Cider.C11
