/-
  Cider.Props.C13Val — source-text tie for C13: the per-character decision in the loop of `Sequence.validateSequence`
  (append / drop / raise), as `tools/pyexpr2lean.py` translates it from the live SOURCE on every run
  (Gen/Decisions.lean; counters, the warn-once flag and messages are recognised as unable to influence the outcome),
  is one unfolding of the model's `validateChars` for EVERY character and every rest of the input.  A swapped
  branch, a raise turned into a silent drop (or the reverse), a warn-once flag that starts to decide the outcome
  breaks a proof here (the last one makes the fragment untranslatable: module skipped, correspondence decides).
-/
import Cider.Gen.Decisions
import Cider.Model.Text
namespace Cider.C13Val
open Cider

/-- one pass of the source's loop body is one unfolding of `validateChars` -/
theorem validateChar_eq (ops : CharOps) (c : Char) (cs : List Char) :
    validateChars ops (c :: cs) =
      match Gen.validateCharSrc (AA.ofChar? c).isSome (ops.isspace c), AA.ofChar? c with
      | .ok true, some a => (match validateChars ops cs with | .ok r => .ok (a :: r) | .error e => .error e)
      | .ok true, none => .error .invalidResidue        -- unreachable: appended characters are residues
      | .ok false, _ => validateChars ops cs
      | .error _, _ => .error .invalidResidue := by
  unfold Gen.validateCharSrc
  rw [validateChars]
  cases h : AA.ofChar? c <;> cases hs : ops.isspace c <;> simp
  all_goals (cases validateChars ops cs <;> rfl)

/-- the decision table itself: residues are appended, white space is dropped, anything else raises -/
theorem decision_table :
    Gen.validateCharSrc true true = .ok true ∧ Gen.validateCharSrc true false = .ok true ∧
    Gen.validateCharSrc false true = .ok false ∧ Gen.validateCharSrc false false = .error () := ⟨rfl, rfl, rfl, rfl⟩

/-- the returned string starts empty and the accepted pool is the key set of ONE_TO_THREE (its 20 letters are
    regenerated and proved equal to the published alphabet in C13Tie) -/
theorem frame_eq : Gen.validateCharSrcFrame = "''|list(data.aminoacids.ONE_TO_THREE.keys())" := by decide

end Cider.C13Val
