/-
  Cider.Props.C02Src — source-text tie for C02: the body of `Sequence.deltaForm`'s loop over blobs and
  `Sequence.delta`, translated from the live SOURCE on every run, are the summand and the combination
  the model's `deltaForm` / `delta` use: for a blob with `bpos` positive and `bneg` negative residues the
  loop adds (sigma − sigma_blob)² / nblobs with sigma_blob = NCPR_blob² / FCR_blob (0 for an uncharged
  blob), and delta is the mean of the blob-5 and blob-6 values.
-/
import Cider.Gen.Decisions
import Cider.Model.Pattern
import Mathlib.Tactic.Linarith
import Mathlib.Tactic.Ring
import Mathlib.Tactic.FieldSimp
import Mathlib.Tactic.NormNum
import Mathlib.Tactic.Push
import Mathlib.Algebra.Order.Field.Rat
namespace Cider.C02Src
open Cider

/-- the loop body as written today adds exactly the model's summand (any blob counts, any window ≥ 1) -/
theorem deltaTerm_eq (x : Rat) (bp bn w : Nat) (hw : 0 < w) (sigma nblobs : Rat) :
    Gen.deltaTermSrc x bp bn w sigma nblobs
      = .ok ((sigma - sigmaOf bp bn w) * (sigma - sigmaOf bp bn w) / nblobs) := by
  have hwq : (0 : Rat) < w := by exact_mod_cast hw
  unfold Gen.deltaTermSrc sigmaOf
  simp only [zero_div, add_zero]
  by_cases h : bp + bn = 0
  · have hq : ((bp : Rat) + (bn : Rat)) / (w : Rat) = 0 := by
      have : (bp : Rat) + (bn : Rat) = 0 := by exact_mod_cast h
      rw [this]; simp
    rw [if_pos hq, if_pos h]
  · have hq : ¬ ((bp : Rat) + (bn : Rat)) / (w : Rat) = 0 := by
      intro hc
      rw [div_eq_zero_iff] at hc
      rcases hc with hc | hc
      · apply h; exact_mod_cast hc
      · linarith
    rw [if_neg hq, if_neg h]

/-- `delta()` as written today is the mean of the two blob sizes' values -/
theorem delta_eq (p : Pattern) : Gen.deltaSrc (deltaForm 5 p) (deltaForm 6 p) = .ok (delta p) := rfl

end Cider.C02Src
