/-
  C05 — patterning parameters see only charge classes; reversal / inversion invariance.
  ONLY property theorems.
-/
import Cider.Lemmas.Symm
import Cider.Props.C07
import Cider.Model.TablesSpec

namespace Cider.C05
open Cider

/-! ### pattern level -/

theorem delta_reverse (p : Pattern) : delta p.reverse = delta p := Cider.delta_reverse p
theorem delta_negate (p : Pattern) : delta (neg p) = delta p := Cider.delta_neg p

theorem dmax_reverse (p : Pattern) : dmax p.reverse = dmax p := by
  unfold dmax; rw [countPos_reverse, countNeg_reverse, countNeut_reverse]

/-- delta-max is unchanged by exchanging + and − (the documented family is closed under inversion) -/
theorem dmax_negate (p : Pattern) : dmax (neg p) = dmax p := by
  unfold dmax; rw [countPos_neg, countNeg_neg, countNeut_neg, dmaxComp_swap]

theorem kappa_reverse (p : Pattern) : kappa p.reverse = kappa p := by
  unfold kappa; rw [delta_reverse, dmax_reverse]

theorem kappa_negate (p : Pattern) : kappa (neg p) = kappa p := by
  unfold kappa; rw [delta_negate, dmax_negate]

theorem scd_reverse (p : Pattern) : scdLoop p.reverse = scdLoop p := Cider.C07.scd_reverse p
theorem scd_negate (p : Pattern) : scdLoop (neg p) = scdLoop p := Cider.C07.scd_negate p

/-! ### sequence level -/

theorem pattern_of_same_class (T : Tables) (s t : Seq)
    (h : List.Forall₂ (fun a b => T.charge a = T.charge b) s t) : patternOf T s = patternOf T t := by
  unfold patternOf
  induction h with
  | nil => rfl
  | cons hab _ ih => simp only [List.map_cons, hab, ih]

/-- kappa, delta, delta-max and SCD are unchanged when any residue is replaced by another of the same
    charge class (K↔R, D↔E, neutral↔neutral), at any set of positions -/
theorem class_substitution (T : Tables) (s t : Seq)
    (h : List.Forall₂ (fun a b => T.charge a = T.charge b) s t) :
    seqKappa T s = seqKappa T t ∧ seqDelta T s = seqDelta T t ∧ seqDmax T s = seqDmax T t ∧
    scdLoop (patternOf T s) = scdLoop (patternOf T t) := by
  have := pattern_of_same_class T s t h
  unfold seqKappa seqDelta seqDmax
  rw [this]; exact ⟨rfl, rfl, rfl, rfl⟩

/-- the published charge classes are exactly {K,R}, {D,E} and the other sixteen -/
theorem published_classes (a b : AA) :
    Spec.charge a = Spec.charge b ↔
      ((a = .K ∨ a = .R) ∧ (b = .K ∨ b = .R)) ∨ ((a = .D ∨ a = .E) ∧ (b = .D ∨ b = .E)) ∨
      ((a ≠ .K ∧ a ≠ .R ∧ a ≠ .D ∧ a ≠ .E) ∧ (b ≠ .K ∧ b ≠ .R ∧ b ≠ .D ∧ b ≠ .E)) := by
  cases a <;> cases b <;> decide

/-- Omega is unchanged by replacements within {P,E,D,K,R} or within the other fifteen residues -/
theorem omega_class_substitution (T : Tables) (s t : Seq)
    (h : List.Forall₂ (fun a b => T.omegaX a = T.omegaX b) s t) : omega T s = omega T t := by
  have : omegaPattern T s = omegaPattern T t := by
    unfold omegaPattern
    induction h with
    | nil => rfl
    | cons hab _ ih => simp only [List.map_cons, hab, ih]
  unfold omega; rw [this]

theorem published_omega_class (a : AA) :
    Spec.omegaX a = true ↔ (a = .P ∨ a = .E ∨ a = .D ∨ a = .K ∨ a = .R) := by
  cases a <;> decide

theorem patternOf_reverse (T : Tables) (s : Seq) : patternOf T s.reverse = (patternOf T s).reverse := by
  unfold patternOf; rw [List.map_reverse]

/-- all five parameters are unchanged by reversing the sequence -/
theorem reversal (T : Tables) (s : Seq) :
    seqKappa T s.reverse = seqKappa T s ∧ seqDelta T s.reverse = seqDelta T s ∧
    seqDmax T s.reverse = seqDmax T s ∧ scdLoop (patternOf T s.reverse) = scdLoop (patternOf T s) ∧
    omega T s.reverse = omega T s := by
  unfold seqKappa seqDelta seqDmax omega
  rw [patternOf_reverse, kappa_reverse, delta_reverse, dmax_reverse, scd_reverse]
  refine ⟨rfl, rfl, rfl, rfl, ?_⟩
  have : omegaPattern T s.reverse = (omegaPattern T s).reverse := by
    unfold omegaPattern; rw [List.map_reverse]
  rw [this, kappa_reverse]

theorem chargeSign_neg (c : Int) : chargeSign (-c) = -chargeSign c := by
  unfold chargeSign
  rcases lt_trichotomy c 0 with h | h | h
  · have a : 0 < -c := by omega
    have b : ¬ (0 < c) := by omega
    simp [a, b, h]
  · subst h; simp
  · have a : ¬ (0 < -c) := by omega
    have b : -c < 0 := by omega
    have c' : ¬ (c < 0) := by omega
    simp [a, b, h, c']

/-- kappa, delta, delta-max and SCD are unchanged by exchanging every positive residue with a negative
    one and vice versa (neutral residues staying neutral) -/
theorem inversion (T : Tables) (s t : Seq)
    (h : List.Forall₂ (fun a b => T.charge b = -T.charge a) s t) :
    seqKappa T t = seqKappa T s ∧ seqDelta T t = seqDelta T s ∧ seqDmax T t = seqDmax T s ∧
    scdLoop (patternOf T t) = scdLoop (patternOf T s) := by
  have : patternOf T t = neg (patternOf T s) := by
    unfold patternOf neg
    induction h with
    | nil => rfl
    | cons hab _ ih => simp only [List.map_cons, hab, ih, chargeSign_neg]
  unfold seqKappa seqDelta seqDmax
  rw [this, kappa_negate, delta_negate, dmax_negate, scd_negate]
  exact ⟨rfl, rfl, rfl, rfl⟩

/-- Omega is unchanged by that exchange: K, R, D, E all stay inside the P/E/D/K/R class and the
    uncharged residues are not touched -/
theorem omega_inversion (s t : Seq)
    (h : List.Forall₂ (fun a b => Spec.charge b = -Spec.charge a ∧ (Spec.charge a = 0 → b = a)) s t) :
    omega specTables t = omega specTables s := by
  have key : ∀ a b : AA, (Spec.charge b = -Spec.charge a ∧ (Spec.charge a = 0 → b = a)) →
      Spec.omegaX b = Spec.omegaX a := by
    intro a b; cases a <;> cases b <;> decide
  have : omegaPattern specTables t = omegaPattern specTables s := by
    unfold omegaPattern
    induction h with
    | nil => rfl
    | cons hab _ ih =>
      have hk : specTables.omegaX _ = specTables.omegaX _ := key _ _ hab
      simp only [List.map_cons, ih, hk]
  unfold omega; rw [this]

end Cider.C05
