/-
  C02 — delta equals the Das–Pappu blob-averaged charge-asymmetry variance.
  ONLY property theorems (+ non-vacuity examples).
-/
import Cider.Lemmas.Blobs
import Cider.Model.TablesSpec

namespace Cider.C02
open Cider

/-- the index-built blobs of the code are exactly "every sliding window of that size" -/
theorem blobs_eq_windows (w : Nat) (hw : 0 < w) (p : Pattern) : blobs w p = Spec.windows w p :=
  Cider.blobs_eq_windows w hw p

/-- there are N − w + 1 blobs (none when w > N) … -/
theorem blob_count (w : Nat) (p : Pattern) : (blobs w p).length = p.length + 1 - w :=
  blobs_length w p

/-- … and the last one ends at the last residue -/
theorem blobs_last (w : Nat) (p : Pattern) (hw : 0 < w) (h : w ≤ p.length) :
    (blobs w p).getLast? = some (p.drop (p.length - w)) := by
  have _ := hw
  unfold blobs
  have e : p.length + 1 - w = (p.length - w) + 1 := by omega
  rw [e, List.range_succ, List.map_append, List.map_cons, List.map_nil, List.getLast?_append]
  simp
  omega

/-- the code's `bncpr**2 / bfcr` with its zero guard is sigma = (f+ − f−)²/(f+ + f−), 0 when uncharged -/
theorem sigma_eq_def (p : Pattern) : sigma p = Spec.sigmaDef p := by
  unfold sigma sigmaOf Spec.sigmaDef
  simp only []
  split
  · rfl
  · rw [sub_div, add_div]

theorem blob_sigma_eq_def (w : Nat) (p b : Pattern) (hb : b ∈ blobs w p) :
    sigmaOf (countPos b) (countNeg b) w = Spec.sigmaDef b := by
  have hl := mem_blobs_length w p b hb
  rw [← sigma_eq_def]; unfold sigma; rw [hl]

/-- the accumulation loop of `deltaForm` computes the mean squared deviation of the blob sigmas
    from the sequence sigma — for every pattern and every blob size -/
theorem deltaForm_eq_spec (w : Nat) (hw : 0 < w) (p : Pattern) : deltaForm w p = Spec.deltaW w p := by
  unfold deltaForm Spec.deltaW
  simp only []
  rw [foldl_add_div (fun b => (sigma p - sigmaOf (countPos b) (countNeg b) w) * (sigma p - sigmaOf (countPos b) (countNeg b) w))]
  rw [← blobs_eq_windows w hw p]
  by_cases he : blobs w p = []
  · rw [if_pos he, he]; simp
  · rw [if_neg he, zero_add, sigma_eq_def]
    congr 1
    rw [List.sum_eq_foldr]
    congr 1
    apply List.map_congr_left
    intro b hb
    rw [blob_sigma_eq_def w p b hb]

/-- a blob size longer than the sequence contributes 0 -/
theorem deltaForm_short (w : Nat) (p : Pattern) (h : p.length < w) : deltaForm w p = 0 := by
  unfold deltaForm; simp only []; rw [blobs_of_lt w p h]; rfl

/-- get_delta's model = mean over blob sizes 5 and 6 of that variance -/
theorem delta_eq_spec (p : Pattern) : delta p = Spec.delta p := by
  unfold delta Spec.delta
  rw [deltaForm_eq_spec 5 (by norm_num), deltaForm_eq_spec 6 (by norm_num)]

theorem deltaW_nonneg (w : Nat) (p : Pattern) : 0 ≤ Spec.deltaW w p := by
  unfold Spec.deltaW
  simp only []
  split
  · exact le_refl 0
  · apply div_nonneg
    · rw [← List.sum_eq_foldr]
      apply List.sum_nonneg
      intro x hx
      simp only [List.mem_map] at hx
      obtain ⟨b, _, rfl⟩ := hx
      exact mul_self_nonneg _
    · exact Nat.cast_nonneg _

theorem delta_nonneg (p : Pattern) : 0 ≤ delta p := Cider.delta_nonneg p

/-- K,R count as +1, D,E as −1, everything else as 0 in the published table -/
theorem published_charge_classes :
    ∀ a, Spec.charge a = if a = AA.K ∨ a = AA.R then 1 else if a = AA.D ∨ a = AA.E then -1 else 0 := by
  intro a; cases a <;> rfl

/-- delta sees a sequence only through its charge pattern: residues of the same charge class are
    interchangeable at every position -/
theorem delta_depends_on_charge_classes_only (T : Tables) (s t : Seq)
    (h : List.Forall₂ (fun a b => T.charge a = T.charge b) s t) : seqDelta T s = seqDelta T t := by
  have : patternOf T s = patternOf T t := by
    unfold patternOf
    induction h with
    | nil => rfl
    | cons hab _ ih => simp only [List.map_cons, hab, ih]
  unfold seqDelta; rw [this]

/-! non-vacuity -/
example : delta [1, -1, -1, -1, -1, 1] = 1568 / 50625 := by decide +kernel
example : Spec.delta [1, -1, -1, -1, -1, 1] = 1568 / 50625 := by decide +kernel
example : deltaForm 6 [1, 0, -1] = 0 := by decide +kernel

end Cider.C02
