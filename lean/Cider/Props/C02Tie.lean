/-
  C02 (tie) — the charge table tabulated from the live code on this run is the published one.
-/
import Cider.Model.TablesSpec
import Cider.Model.TablesGen
namespace Cider.C02
open Cider
/-- re-checked by the kernel on every run against the regenerated `Gen.charge` (all 20 residues) and
    the charges the code assigns to the reduced letters '+', '-', '0' that delta-max feeds back in -/
theorem gen_charge_eq_published : Gen.charge = Spec.charge ∧ Gen.chargeReduced = (1, -1, 0) := by
  refine ⟨?_, rfl⟩
  funext a; cases a <;> rfl
end Cider.C02
