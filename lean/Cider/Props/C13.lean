/-
  C13 — sequence strings are normalised or rejected, never silently altered.
  `upper` / `isspace` are parameters: the theorems hold for ANY such pair.  ONLY property theorems.
-/
import Cider.Model.Text
import Mathlib.Tactic.Basic
import Mathlib.Data.List.Basic

namespace Cider.C13
open Cider

/-- the loop over the (already upper-cased) characters accepts iff every character is one of the 20
    letters or white space, and then returns exactly the letters, in order -/
theorem validateChars_ok_iff (ops : CharOps) (cs : List Char) (w : Seq) :
    validateChars ops cs = .ok w ↔
      (∀ c ∈ cs, (AA.ofChar? c).isSome ∨ ops.isspace c = true) ∧ w = cs.filterMap AA.ofChar? := by
  induction cs generalizing w with
  | nil => simp [validateChars]
  | cons c cs ih =>
    unfold validateChars
    cases hc : AA.ofChar? c with
    | some a =>
      simp only [List.mem_cons, forall_eq_or_imp, hc, Option.isSome_some, true_or, true_and,
        List.filterMap_cons_some hc]
      cases hr : validateChars ops cs with
      | error e =>
        simp only [reduceCtorEq, false_iff]
        intro ⟨h1, _⟩
        have := (ih (cs.filterMap AA.ofChar?)).mpr ⟨h1, rfl⟩
        rw [hr] at this; cases this
      | ok r =>
        have := (ih r).mp hr
        constructor
        · intro h; injection h with h; subst h; exact ⟨this.1, by rw [this.2]⟩
        · intro ⟨_, h2⟩; rw [h2, ← this.2]
    | none =>
      simp only [List.mem_cons, forall_eq_or_imp, hc, Option.isSome_none, Bool.false_eq_true, false_or,
        List.filterMap_cons_none hc]
      by_cases hs : ops.isspace c = true
      · simp only [hs, if_true, true_and]; exact ih w
      · simp only [hs, Bool.false_eq_true, if_false, false_and, reduceCtorEq]

/-- "after upper-casing and deleting whitespace the string is a word over the 20 letters":
    the letters returned are the parse of the non-white-space characters -/
theorem letters_eq_parse_of_nonspace (ops : CharOps)
    (hsp : ∀ c, (AA.ofChar? c).isSome → ops.isspace c = false) (cs : List Char) :
    (∀ c ∈ cs, (AA.ofChar? c).isSome ∨ ops.isspace c = true) ↔
      Seq.ofChars? (cs.filter (fun c => !ops.isspace c)) = some (cs.filterMap AA.ofChar?) := by
  induction cs with
  | nil => simp [Seq.ofChars?]
  | cons c cs ih =>
    simp only [List.mem_cons, forall_eq_or_imp]
    cases hc : AA.ofChar? c with
    | some a =>
      have hs := hsp c (by rw [hc]; rfl)
      simp only [Option.isSome_some, true_or, true_and, List.filterMap_cons_some hc, List.filter_cons, hs,
        Bool.not_false, if_true, Seq.ofChars?, hc]
      rw [ih]
      cases h : Seq.ofChars? (cs.filter (fun c => !ops.isspace c)) with
      | none => simp
      | some r => simp
    | none =>
      simp only [Option.isSome_none, Bool.false_eq_true, false_or, List.filterMap_cons_none hc, List.filter_cons]
      by_cases hs : ops.isspace c = true
      · simp only [hs, true_and, Bool.not_true, Bool.false_eq_true, if_false]; exact ih
      · have hs' : ops.isspace c = false := by simpa using hs
        simp only [hs', Bool.false_eq_true, false_and, Bool.not_false, if_true, Seq.ofChars?, hc]
        simp

/-- if the non-white-space characters parse as a word, every character is a letter or white space
    and the word is the list of letters -/
theorem parse_nonspace_some (ops : CharOps)
    (hsp : ∀ c, (AA.ofChar? c).isSome → ops.isspace c = false) (l : List Char) (w : Seq)
    (h2 : Seq.ofChars? (l.filter (fun c => !ops.isspace c)) = some w) : w = l.filterMap AA.ofChar? := by
  induction l generalizing w with
  | nil => simp [Seq.ofChars?] at h2 ⊢; exact h2
  | cons x xs ihx =>
    simp only [List.filter_cons] at h2
    cases hx : AA.ofChar? x with
    | some a =>
      have hs := hsp x (by rw [hx]; rfl)
      simp only [hs, Bool.not_false, if_true, Seq.ofChars?, hx] at h2
      cases hr : Seq.ofChars? (xs.filter (fun c => !ops.isspace c)) with
      | none => rw [hr] at h2; cases h2
      | some r =>
        rw [hr] at h2; injection h2 with h2; subst h2
        rw [List.filterMap_cons_some hx, ← ihx r hr]
    | none =>
      by_cases hs : ops.isspace x = true
      · simp only [hs, Bool.not_true, Bool.false_eq_true, if_false] at h2
        rw [List.filterMap_cons_none hx]; exact ihx w h2
      · have hs' : ops.isspace x = false := by simpa using hs
        simp only [hs', Bool.not_false, if_true, Seq.ofChars?, hx] at h2
        cases h2

theorem nonEmptyOrFail_ok_iff (r : Except Err Seq) (w : Seq) :
    nonEmptyOrFail r = .ok w ↔ r = .ok w ∧ w ≠ [] := by
  cases r with
  | error e => simp [nonEmptyOrFail]
  | ok v => cases v <;> simp [nonEmptyOrFail] <;> (intro h; subst h; simp)

/-- **construction succeeds exactly when the normalised string is a non-empty word over the 20
    letters, and the object then holds exactly that word** -/
theorem construct_ok_iff (ops : CharOps)
    (hsp : ∀ c, (AA.ofChar? c).isSome → ops.isspace c = false) (cs : List Char) (w : Seq) :
    construct ops (.str cs) = .ok w ↔
      w ≠ [] ∧ Seq.ofChars? ((cs.flatMap ops.upper).filter (fun c => !ops.isspace c)) = some w := by
  cases cs with
  | nil =>
    simp only [construct, List.flatMap_nil, List.filter_nil, Seq.ofChars?, reduceCtorEq, false_iff]
    rintro ⟨h1, h2⟩; injection h2 with h2; exact h1 h2.symm
  | cons c rest =>
    unfold construct
    rw [nonEmptyOrFail_ok_iff, validateChars_ok_iff]
    constructor
    · rintro ⟨⟨h1, h2⟩, h3⟩
      refine ⟨h3, ?_⟩
      rw [(letters_eq_parse_of_nonspace ops hsp _).mp h1, h2]
    · rintro ⟨h3, h2⟩
      have hw := parse_nonspace_some ops hsp _ w h2
      refine ⟨⟨?_, hw⟩, h3⟩
      rw [letters_eq_parse_of_nonspace ops hsp, h2, hw]

/-- everything else is rejected: non-strings, the empty string, strings that normalise to nothing -/
theorem construct_never_empty (ops : CharOps) (v : PyVal) : construct ops v ≠ .ok [] := by
  cases v with
  | other => simp [construct]
  | str cs =>
    cases cs with
    | nil => simp [construct]
    | cons c rest =>
      unfold construct
      intro h
      exact ((nonEmptyOrFail_ok_iff _ _).mp h).2 rfl

theorem construct_rejects_nonstring (ops : CharOps) : construct ops .other = .error .notAString := rfl
theorem construct_rejects_empty (ops : CharOps) : construct ops (.str []) = .error .emptyInput := rfl

/-- a normalised word is a fixed point: constructing from it gives the same word back -/
theorem construct_idempotent (ops : CharOps) (hup : ∀ a : AA, ops.upper a.toChar = [a.toChar])
    (w : Seq) (hw : w ≠ []) : construct ops (.str (w.map AA.toChar)) = .ok w := by
  have hof : ∀ a : AA, AA.ofChar? a.toChar = some a := by intro a; cases a <;> rfl
  have hfl : (w.map AA.toChar).flatMap ops.upper = w.map AA.toChar := by
    induction w with
    | nil => rfl
    | cons a r ih =>
      by_cases hr : r = []
      · subst hr; simp [hup]
      · simp only [List.map_cons, List.flatMap_cons, hup, ih hr]; rfl
  have hv : validateChars ops (w.map AA.toChar) = .ok w := by
    clear hfl hw
    induction w with
    | nil => rfl
    | cons a r ih => simp only [List.map_cons, validateChars, hof, ih]
  cases w with
  | nil => exact absurd rfl hw
  | cons a r =>
    simp only [List.map_cons] at hfl hv ⊢
    show nonEmptyOrFail (validateChars ops ((a.toChar :: List.map AA.toChar r).flatMap ops.upper)) = _
    rw [hfl, hv]; rfl

end Cider.C13
