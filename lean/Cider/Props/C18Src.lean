/-
  Cider.Props.C18Src — source-text tie for C18: `WangLandauMachine.indexInsideRelevantRegion` as `tools/pyexpr2lean.py` translates it
  from the live SOURCE on every run (Gen/Decisions.lean) agrees, for ALL rational arguments, with the
  hand-written model the C18 theorems are about.  A changed threshold, comparison direction, branch
  order or returned value in the source breaks a proof here.
-/
import Cider.Gen.Decisions
import Cider.Model.SeqParams
import Cider.Model.Profiles
import Cider.Model.WL
import Mathlib.Tactic.Linarith
import Mathlib.Tactic.Ring
import Mathlib.Tactic.NormNum
import Mathlib.Tactic.Push
import Mathlib.Algebra.Order.Field.Rat
namespace Cider.C18Src
open Cider

/-- `indexInsideRelevantRegion` as written today IS `WLCfg.inside` (C18). -/
theorem insideRelevant_eq (cfg : WLCfg) (i : Nat) :
    Gen.insideRelevant (i : Rat) (cfg.rmax : Rat) (cfg.rmin : Rat) = .ok (if cfg.inside i then 1 else 0) := by
  unfold Gen.insideRelevant WLCfg.inside
  simp only [ge_iff_le, Nat.cast_le]
  by_cases h1 : i ≤ cfg.rmax <;> by_cases h2 : cfg.rmin ≤ i <;> simp [h1, h2]

end Cider.C18Src
