/-
  Cider.Props.C08Src — source-text tie for C08: `Sequence.phasePlotRegion` as `tools/pyexpr2lean.py` translates it
  from the live SOURCE on every run (Gen/Decisions.lean) agrees, for ALL rational arguments, with the
  hand-written model the C08 theorems are about.  A changed threshold, comparison direction, branch
  order or returned value in the source breaks a proof here.
-/
import Cider.Gen.Decisions
import Cider.Model.SeqParams
import Cider.Model.Profiles
import Cider.Model.WL
import Mathlib.Tactic.Linarith
import Mathlib.Tactic.Ring
import Mathlib.Tactic.NormNum
import Mathlib.Tactic.Push
import Mathlib.Algebra.Order.Field.Rat
namespace Cider.C08Src
open Cider

/-- forget which error / view region numbers as rationals -/
def toGen : Except Err Nat → Except Unit Rat
  | .ok n => .ok (n : Rat)
  | .error _ => .error ()

/-- `Sequence.phasePlotRegion` as written today IS `regionCode` (C08). -/
theorem phasePlotRegion_eq (fcr ncpr fp fm : Rat) :
    Gen.phasePlotRegion fcr ncpr fp fm = toGen (regionCode fcr ncpr fp fm) := by
  unfold Gen.phasePlotRegion regionCode toGen
  simp only [gt_iff_lt, ge_iff_le]
  split_ifs <;> simp_all

end Cider.C08Src
