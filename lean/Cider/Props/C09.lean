/-
  C09 — pH-dependent charge follows Henderson–Hasselbalch; the pI bisection terminates and is sound.
  The generic model of Cider.Model.PH is instantiated with ℝ here.   ONLY property theorems.
-/
import Cider.Model.PH
import Mathlib.Analysis.SpecialFunctions.Pow.Real
import Mathlib.Tactic.Linarith
import Mathlib.Tactic.Positivity
import Mathlib.Algebra.Order.BigOperators.Group.List

namespace Cider.C09
open Cider PH

noncomputable instance : RealLike ℝ where
  ofRat q := (q : ℝ)
  pow10 x := (10 : ℝ) ^ x
  ltB a b := decide (a < b)

/-- the Henderson–Hasselbalch term of one residue (0 when it does not titrate) -/
noncomputable def term (tt : Titration) (total : Bool) (pH : ℝ) (a : AA) : ℝ :=
  if tt.cls a = 1 then 1 / (1 + (10 : ℝ) ^ (pH - (tt.pKa a : ℝ)))
  else if tt.cls a = -1 then (if total then 1 else -1) / (1 + (10 : ℝ) ^ ((tt.pKa a : ℝ) - pH))
  else 0

def titratable (tt : Titration) (a : AA) : Bool := tt.cls a = 1 ∨ tt.cls a = -1

/-- the single pass over the sequence computes the sum of the per-residue Henderson–Hasselbalch
    fractions (K,R,H positive; D,E,C,Y negative — whatever `tt` says) and counts the titratable residues -/
theorem charge_loop_eq_counts (tt : Titration) (total : Bool) (pH : ℝ) (s : Seq) :
    chargeLoop tt total pH s = ((s.map (term tt total pH)).sum, s.countP (titratable tt)) := by
  unfold chargeLoop
  have gen : ∀ (l : Seq) (acc : ℝ × Nat),
      l.foldl (fun (acc : ℝ × Nat) a =>
        if tt.cls a = 1 then (acc.1 + hhPos (RealLike.ofRat (tt.pKa a)) pH, acc.2 + 1)
        else if tt.cls a = -1 then
          (acc.1 + (if total then one else -one) / (one + RealLike.pow10 (RealLike.ofRat (tt.pKa a) - pH)), acc.2 + 1)
        else acc) acc
      = (acc.1 + (l.map (term tt total pH)).sum, acc.2 + l.countP (titratable tt)) := by
    intro l
    induction l with
    | nil => intro acc; simp
    | cons a rest ih =>
      intro acc
      rw [List.foldl_cons, ih]
      simp only [List.map_cons, List.sum_cons, List.countP_cons]
      by_cases h1 : tt.cls a = 1
      · have ht : titratable tt a = true := by simp [titratable, h1]
        simp only [h1, if_true, ht, term, hhPos, one, RealLike.ofRat, RealLike.pow10]
        refine Prod.ext ?_ ?_ <;> simp <;> ring
      · by_cases h2 : tt.cls a = -1
        · have ht : titratable tt a = true := by simp [titratable, h2]
          simp only [h1, h2, if_true, if_false, ht, term, one, RealLike.ofRat, RealLike.pow10]
          refine Prod.ext ?_ ?_ <;> (cases total <;> simp <;> ring)
        · have ht : titratable tt a = false := by simp [titratable, h1, h2]
          simp only [h1, h2, if_false, ht, term]
          refine Prod.ext ?_ ?_ <;> simp
  rw [gen]; simp [zero, RealLike.ofRat]

theorem chargeAtPH_eq (tt : Titration) (total : Bool) (pH : ℝ) (s : Seq) :
    chargeAtPH tt total pH s = (s.map (term tt total pH)).sum := by
  unfold chargeAtPH; rw [charge_loop_eq_counts]

theorem term_net_antitone (tt : Titration) (a : AA) (p q : ℝ) (h : p ≤ q) : term tt false q a ≤ term tt false p a := by
  unfold term
  have h10 : (1 : ℝ) < 10 := by norm_num
  by_cases h1 : tt.cls a = 1
  · simp only [h1, if_true]
    apply one_div_le_one_div_of_le
    · positivity
    · have : (10 : ℝ) ^ (p - (tt.pKa a : ℝ)) ≤ (10 : ℝ) ^ (q - (tt.pKa a : ℝ)) :=
        (Real.rpow_le_rpow_left_iff h10).mpr (by linarith)
      linarith
  · by_cases h2 : tt.cls a = -1
    · rw [if_neg h1, if_pos h2, if_neg h1, if_pos h2]
      simp only [Bool.false_eq_true, if_false]
      have hle : (10 : ℝ) ^ ((tt.pKa a : ℝ) - q) ≤ (10 : ℝ) ^ ((tt.pKa a : ℝ) - p) :=
        (Real.rpow_le_rpow_left_iff h10).mpr (by linarith)
      have hp : (0 : ℝ) < 1 + (10 : ℝ) ^ ((tt.pKa a : ℝ) - q) := by positivity
      have := one_div_le_one_div_of_le hp (by linarith : 1 + (10 : ℝ) ^ ((tt.pKa a : ℝ) - q) ≤ 1 + (10 : ℝ) ^ ((tt.pKa a : ℝ) - p))
      rw [neg_div, neg_div]; linarith
    · simp [h1, h2]

theorem sum_le_sum_of_forall {α : Type} (l : List α) (f g : α → ℝ) (h : ∀ a, f a ≤ g a) :
    (l.map f).sum ≤ (l.map g).sum := by
  induction l with
  | nil => simp
  | cons x xs ih => simp only [List.map_cons, List.sum_cons]; linarith [h x]

/-- **NCPR(pH) never increases with pH** — every sequence, every pair of pH values -/
theorem ncprPH_antitone (tt : Titration) (s : Seq) (p q : ℝ) (h : p ≤ q) :
    ncprPH tt q s ≤ ncprPH tt p s := by
  unfold ncprPH
  rw [chargeAtPH_eq, chargeAtPH_eq]
  apply div_le_div_of_nonneg_right _ (by simp [RealLike.ofRat])
  exact sum_le_sum_of_forall s _ _ (fun a => term_net_antitone tt a p q h)

theorem term_total_nonneg (tt : Titration) (pH : ℝ) (a : AA) : 0 ≤ term tt true pH a ∧ term tt true pH a ≤ 1 ∧
    |term tt false pH a| = term tt true pH a ∧ (titratable tt a = false → term tt true pH a = 0) := by
  unfold term titratable
  by_cases h1 : tt.cls a = 1
  · simp only [h1, if_true]
    have hp : (0 : ℝ) < 1 + (10 : ℝ) ^ (pH - (tt.pKa a : ℝ)) := by positivity
    have hge : (1 : ℝ) ≤ 1 + (10 : ℝ) ^ (pH - (tt.pKa a : ℝ)) := by
      have : (0 : ℝ) ≤ (10 : ℝ) ^ (pH - (tt.pKa a : ℝ)) := by positivity
      linarith
    refine ⟨by positivity, by rw [div_le_one hp]; exact hge, abs_of_nonneg (by positivity), by simp⟩
  · by_cases h2 : tt.cls a = -1
    · rw [if_neg h1, if_pos h2, if_neg h1, if_pos h2]
      simp only [Bool.false_eq_true, if_false, if_true]
      have hp : (0 : ℝ) < 1 + (10 : ℝ) ^ ((tt.pKa a : ℝ) - pH) := by positivity
      have hge : (1 : ℝ) ≤ 1 + (10 : ℝ) ^ ((tt.pKa a : ℝ) - pH) := by
        have : (0 : ℝ) ≤ (10 : ℝ) ^ ((tt.pKa a : ℝ) - pH) := by positivity
        linarith
      refine ⟨by positivity, by rw [div_le_one hp]; exact hge, ?_, by intro hf; simp [h2] at hf⟩
      rw [neg_div, abs_neg, abs_of_nonneg (by positivity)]
    · simp [h1, h2]

/-- FCR(pH) ≥ 0 -/
theorem fcrPH_nonneg (tt : Titration) (s : Seq) (pH : ℝ) : 0 ≤ fcrPH tt pH s := by
  unfold fcrPH; rw [chargeAtPH_eq]
  apply div_nonneg
  · apply List.sum_nonneg
    intro x hx; simp only [List.mem_map] at hx; obtain ⟨a, _, rfl⟩ := hx
    exact (term_total_nonneg tt pH a).1
  · simp [RealLike.ofRat]

theorem abs_sum_net_le_sum_total (tt : Titration) (pH : ℝ) (s : Seq) :
    |(s.map (term tt false pH)).sum| ≤ (s.map (term tt true pH)).sum := by
  induction s with
  | nil => simp
  | cons a rest ih =>
    simp only [List.map_cons, List.sum_cons]
    calc |term tt false pH a + (rest.map (term tt false pH)).sum|
        ≤ |term tt false pH a| + |(rest.map (term tt false pH)).sum| := abs_add_le _ _
      _ ≤ term tt true pH a + (rest.map (term tt true pH)).sum := by
          rw [(term_total_nonneg tt pH a).2.2.1]; linarith

theorem sum_total_le_count (tt : Titration) (pH : ℝ) (s : Seq) :
    (s.map (term tt true pH)).sum ≤ ((s.countP (titratable tt) : Nat) : ℝ) := by
  induction s with
  | nil => simp
  | cons a rest ih =>
    simp only [List.map_cons, List.sum_cons, List.countP_cons]
    obtain ⟨_, h1, _, h0⟩ := term_total_nonneg tt pH a
    by_cases ht : titratable tt a = true
    · simp only [ht, if_true]; push_cast; linarith
    · have : titratable tt a = false := by simpa using ht
      rw [h0 this]; simp only [this, Bool.false_eq_true, if_false]; push_cast; linarith

/-- |NCPR(pH)| ≤ FCR(pH) -/
theorem abs_ncprPH_le_fcrPH (tt : Titration) (s : Seq) (pH : ℝ) : |ncprPH tt pH s| ≤ fcrPH tt pH s := by
  unfold ncprPH fcrPH
  rw [chargeAtPH_eq, chargeAtPH_eq, abs_div]
  have hN : |(RealLike.ofRat ((s.length : Nat) : Rat) : ℝ)| = RealLike.ofRat ((s.length : Nat) : Rat) := by
    apply abs_of_nonneg; simp [RealLike.ofRat]
  rw [hN]
  exact div_le_div_of_nonneg_right (abs_sum_net_le_sum_total tt pH s) (by simp [RealLike.ofRat])

/-- FCR(pH) ≤ (number of titratable residues)/N -/
theorem fcrPH_le_titratable_fraction (tt : Titration) (s : Seq) (pH : ℝ) :
    fcrPH tt pH s ≤ ((s.countP (titratable tt) : Nat) : ℝ) / (s.length : ℝ) := by
  unfold fcrPH; rw [chargeAtPH_eq]
  have e : (RealLike.ofRat ((s.length : Nat) : Rat) : ℝ) = (s.length : ℝ) := by simp [RealLike.ofRat]
  rw [e]
  exact div_le_div_of_nonneg_right (sum_total_le_count tt pH s) (Nat.cast_nonneg _)

/-- the expanding fraction adds the proline fraction -/
theorem ferPH_eq (tt : Titration) (s : Seq) (pH : ℝ) :
    ferPH tt pH s = fcrPH tt pH s + ((s.count AA.P : Nat) : ℝ) / (s.length : ℝ) := by
  unfold ferPH fcrPH
  simp only [RealLike.ofRat]
  push_cast
  rw [add_div]

/-- a pH is rejected exactly when it lies outside [0, 14] -/
theorem pH_rejected_iff (pH : ℝ) : pHRejected pH = true ↔ pH < 0 ∨ 14 < pH := by
  unfold pHRejected zero
  simp [RealLike.ltB, RealLike.ofRat]

/-! ### the isoelectric point -/

/-- progress measure of the bisection loop -/
def mu (st : PIState ℝ) : Nat := (11 - st.errorcount) * 20 - st.breakcount

theorem piEscape_spec (st : PIState ℝ) (hb : st.breakcount ≤ 19) (he : st.errorcount ≤ 10) :
    match piEscape st with
    | .inr r => r = .error .piNoConverge
    | .inl st' => st'.breakcount ≤ 19 ∧ st'.errorcount ≤ 10 ∧ mu st' < mu st := by
  unfold piEscape
  by_cases h20 : st.breakcount + 1 = 20
  · rw [if_pos h20]
    by_cases he10 : st.errorcount = 10
    · rw [if_pos he10]
    · rw [if_neg he10]
      split_ifs <;> (refine ⟨by simp, by simp; omega, ?_⟩; simp [mu]; omega)
  · rw [if_neg h20]
    refine ⟨by simp; omega, by simpa using he, ?_⟩; simp [mu]; omega

theorem piBisect_spec (f : ℝ → ℝ) (thr : ℝ) (st : PIState ℝ) :
    match piBisect f thr st with
    | .inr r => ∃ x, r = .ok x ∧ |f x| ≤ thr
    | .inl st' => st'.breakcount = st.breakcount ∧ st'.errorcount = st.errorcount := by
  unfold piBisect
  simp only []
  split_ifs with h1 h2
  · exact ⟨rfl, rfl⟩
  · exact ⟨rfl, rfl⟩
  · refine ⟨_, rfl, ?_⟩
    simp only [RealLike.ltB, decide_eq_true_eq] at h1 h2
    rw [abs_le]; constructor <;> linarith

theorem piStep_progress (f : ℝ → ℝ) (thr : ℝ) (st : PIState ℝ) (hb : st.breakcount ≤ 19) (he : st.errorcount ≤ 10) :
    match piStep f thr st with
    | .inr r => r = .error .piNoConverge ∨ ∃ x, r = .ok x ∧ |f x| ≤ thr
    | .inl st' => st'.breakcount ≤ 19 ∧ st'.errorcount ≤ 10 ∧ mu st' < mu st := by
  unfold piStep
  have h1 := piEscape_spec st hb he
  cases he' : piEscape st with
  | inr r => rw [he'] at h1; simp only []; exact Or.inl h1
  | inl st1 =>
    rw [he'] at h1
    simp only []
    have h2 := piBisect_spec f thr st1
    cases hb' : piBisect f thr st1 with
    | inr r => rw [hb'] at h2; exact Or.inr h2
    | inl st2 =>
      rw [hb'] at h2
      simp only [] at h2 ⊢
      refine ⟨by omega, by omega, ?_⟩
      have : mu st2 = mu st1 := by simp [mu, h2.1, h2.2]
      omega

/-- **get_isoelectric_point terminates for every sequence**: whatever the charge function, the loop
    returns or raises within 221 iterations (the model's fuel of 230 is never exhausted) -/
theorem pi_fuel_suffices (f : ℝ → ℝ) (thr : ℝ) : piLoop f thr 230 piInit ≠ none := by
  have gen : ∀ (fuel : Nat) (st : PIState ℝ), st.breakcount ≤ 19 → st.errorcount ≤ 10 → mu st < fuel →
      piLoop f thr fuel st ≠ none := by
    intro fuel
    induction fuel with
    | zero => intro st _ _ h; omega
    | succ n ih =>
      intro st hb he hm
      unfold piLoop
      have hp := piStep_progress f thr st hb he
      cases hs : piStep f thr st with
      | inr r => simp
      | inl st' =>
        rw [hs] at hp
        simp only []
        exact ih st' hp.1 hp.2.1 (by omega)
  apply gen 230 piInit <;> simp [piInit, mu]

/-- any returned pH has mean charge per titratable residue within the threshold of zero
    (from any state reachable by the loop) -/
theorem pi_result_sound (f : ℝ → ℝ) (thr : ℝ) (fuel : Nat) (st : PIState ℝ)
    (hb : st.breakcount ≤ 19) (he : st.errorcount ≤ 10) (x : ℝ)
    (h : piLoop f thr fuel st = some (.ok x)) : |f x| ≤ thr := by
  induction fuel generalizing st with
  | zero => simp [piLoop] at h
  | succ n ih =>
    unfold piLoop at h
    have hp := piStep_progress f thr st hb he
    cases hs : piStep f thr st with
    | inl st' => rw [hs] at h hp; exact ih st' hp.1 hp.2.1 h
    | inr r =>
      rw [hs] at h hp
      simp only [Option.some.injEq] at h
      subst h
      rcases hp with hp | ⟨y, hy, hle⟩
      · cases hp
      · injection hy with hy; subst hy; exact hle

/-- with nothing titratable the normalised charge is 0 and 7.0 is returned at the first iteration -/
theorem pi_no_titratable (tt : Titration) (s : Seq) (h : ∀ a ∈ s, titratable tt a = false) :
    (isoelectricPoint tt s : Option (Except Err ℝ)) = some (.ok 7) := by
  have hf : ∀ pH : ℝ, chargeNormalized tt pH s = 0 := by
    intro pH
    unfold chargeNormalized
    rw [charge_loop_eq_counts]
    have : s.countP (titratable tt) = 0 := by
      rw [List.countP_eq_zero]; intro a ha; simp [h a ha]
    simp [this, zero, RealLike.ofRat]
  unfold isoelectricPoint
  simp only [hf]
  unfold piLoop piStep piEscape piBisect piInit
  simp [RealLike.ltB, RealLike.ofRat, zero]
  norm_num

end Cider.C09
