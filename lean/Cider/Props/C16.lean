/-
  C16 — phosphosites are exactly the requested in-range S/T/Y; derived values follow.
  ONLY property theorems.
-/
import Cider.Model.Object
import Cider.Model.TablesSpec
import Mathlib.Tactic.Basic
import Mathlib.Tactic.Ring
import Mathlib.Data.List.Basic
import Mathlib.Data.List.Range
import Mathlib.Data.List.Nodup
import Mathlib.Tactic.Tauto

namespace Cider.C16
open Cider

/-- a requested 1-based position is honoured iff it lies inside the sequence and holds S, T or Y -/
def validSite (s : Seq) (site : Int) : Bool :=
  if 1 ≤ site ∧ site ≤ (s.length : Int) then residueIsSTY s (site - 1).toNat else false

theorem setSite_spec (o : Obj) (site : Int) :
    (o.setSite site).seq = o.seq ∧ (o.setSite site).pal = o.pal ∧
    (o.setSite site).phos =
      if validSite o.seq site = true ∧ (site - 1).toNat ∉ o.phos then o.phos ++ [(site - 1).toNat] else o.phos := by
  unfold Obj.setSite validSite
  by_cases h1 : site - 1 < 0 ∨ (o.seq.length : Int) ≤ site - 1
  · have h2 : ¬ (1 ≤ site ∧ site ≤ (o.seq.length : Int)) := by omega
    rw [if_pos h1, if_neg h2]
    exact ⟨rfl, rfl, by simp⟩
  · have h2 : 1 ≤ site ∧ site ≤ (o.seq.length : Int) := by omega
    rw [if_neg h1, if_pos h2]
    by_cases hs : residueIsSTY o.seq (site - 1).toNat = true
    · rw [if_pos hs]
      unfold Obj.addSite
      by_cases hm : (site - 1).toNat ∈ o.phos
      · rw [if_pos hm]; exact ⟨rfl, rfl, by rw [if_neg (by tauto)]⟩
      · rw [if_neg hm]; exact ⟨rfl, rfl, by rw [if_pos ⟨hs, hm⟩]⟩
    · rw [if_neg hs]; exact ⟨rfl, rfl, by rw [if_neg (by tauto)]⟩

theorem nodup_eraseDups {α : Type} [DecidableEq α] : ∀ (l : List α), l.eraseDups.Nodup
  | [] => by simp
  | a :: as => by
    rw [List.eraseDups_cons, List.nodup_cons]
    refine ⟨by simp [List.mem_eraseDups], nodup_eraseDups _⟩
termination_by l => l.length
decreasing_by simp; exact Nat.lt_succ_of_le (List.length_filter_le _ _)

/-- keep the first occurrence of every element -/
theorem foldl_dedup_first {α : Type} [DecidableEq α] (l acc : List α) :
    l.foldl (fun acc i => if i ∈ acc then acc else acc ++ [i]) acc
      = acc ++ (l.filter (fun i => i ∉ acc)).eraseDups := by
  induction l generalizing acc with
  | nil => simp
  | cons a t ih =>
    rw [List.foldl_cons]
    by_cases ha : a ∈ acc
    · rw [if_pos ha, ih, List.filter_cons_of_neg (by simp [ha])]
    · rw [if_neg ha, ih, List.filter_cons_of_pos (by simp [ha]), List.eraseDups_cons, List.append_assoc,
        List.singleton_append, List.filter_filter]
      congr 3
      apply List.filter_congr
      intro x _
      by_cases hxa : x = a <;> by_cases hx : x ∈ acc <;> simp [hxa, hx]

/-- the calls that modify the phosphosite list -/
inductive Call
  | set (sites : List Int)
  | clear

def step (o : Obj) : Call → Obj
  | .set sites => o.setPhos sites
  | .clear => o.clearPhos

/-- the positions requested since the last `clear` -/
def requestsSinceClear : List Call → List Int
  | [] => []
  | .set sites :: rest => if rest.any (fun c => match c with | .clear => true | _ => false) then requestsSinceClear rest
      else sites ++ requestsSinceClear rest
  | .clear :: rest => requestsSinceClear rest

theorem setPhos_spec (o : Obj) (sites : List Int) :
    (o.setPhos sites).seq = o.seq ∧ (o.setPhos sites).pal = o.pal ∧
    (o.setPhos sites).phos =
      sites.foldl (fun acc site =>
        if validSite o.seq site = true ∧ (site - 1).toNat ∉ acc then acc ++ [(site - 1).toNat] else acc) o.phos := by
  unfold Obj.setPhos
  induction sites generalizing o with
  | nil => simp
  | cons x xs ih =>
    obtain ⟨a, b, c⟩ := setSite_spec o x
    obtain ⟨a', b', c'⟩ := ih (o.setSite x)
    simp only [List.foldl_cons]
    refine ⟨by rw [a', a], by rw [b', b], ?_⟩
    rw [c', a, c]

/-- the sequence and the palette are never changed by set/clear -/
theorem phos_seq_frame (o : Obj) (calls : List Call) :
    (calls.foldl step o).seq = o.seq ∧ (calls.foldl step o).pal = o.pal := by
  induction calls generalizing o with
  | nil => simp
  | cons c cs ih =>
    rw [List.foldl_cons]
    obtain ⟨a, b⟩ := ih (step o c)
    cases c with
    | set sites => obtain ⟨x, y, _⟩ := setPhos_spec o sites; exact ⟨by rw [a]; exact x, by rw [b]; exact y⟩
    | clear => exact ⟨a, b⟩

/-- one `set` call appends, in first-occurrence order and without repeats, the valid new positions -/
theorem setPhos_phos (o : Obj) (sites : List Int) :
    (o.setPhos sites).phos =
      o.phos ++ (((sites.filter (validSite o.seq)).map (fun x => (x - 1).toNat)).filter (fun i => i ∉ o.phos)).eraseDups := by
  rw [(setPhos_spec o sites).2.2, ← foldl_dedup_first]
  generalize o.phos = acc
  induction sites generalizing acc with
  | nil => rfl
  | cons x xs ih =>
    simp only [List.foldl_cons]
    by_cases hv : validSite o.seq x = true
    · rw [List.filter_cons_of_pos hv, List.map_cons, List.foldl_cons]
      simp only [hv, true_and]
      by_cases hm : (x - 1).toNat ∈ acc
      · simp only [hm, not_true_eq_false, if_false, if_true]; exact ih acc
      · simp only [hm, not_false_eq_true, if_true, if_false]; exact ih _
    · rw [List.filter_cons_of_neg hv]
      simp only [hv, Bool.false_eq_true, false_and, if_false]
      exact ih acc

/-- **history theorem**: after ANY series of set/clear calls on a fresh object, get_phosphosites lists —
    in first-set order and without repeats — exactly the requested 1-based positions since the last clear
    that lie inside the sequence and hold S, T or Y -/
theorem phos_history (pal : Palette) (s : Seq) (calls : List Call) :
    ((calls.foldl step (Obj.fresh pal s)).getPhos) =
      ((((requestsSinceClear calls).filter (validSite s)).map (fun x => (x - 1).toNat)).eraseDups).map (· + 1) := by
  unfold Obj.getPhos
  congr 1
  -- generalise over the starting object: phos = dedup of valid requests "so far"
  have gen : ∀ (o : Obj) (pre : List Int), o.seq = s →
      o.phos = ((pre.filter (validSite s)).map (fun x => (x - 1).toNat)).eraseDups →
      (calls.foldl step o).phos =
        (((if calls.any (fun c => match c with | .clear => true | _ => false) then requestsSinceClear calls
            else pre ++ requestsSinceClear calls).filter (validSite s)).map (fun x => (x - 1).toNat)).eraseDups := by
    induction calls with
    | nil => intro o pre _ h; simpa [requestsSinceClear] using h
    | cons c cs ih =>
      intro o pre hs hp
      rw [List.foldl_cons]
      cases c with
      | clear =>
        have := ih (step o .clear) [] (by simp [step, Obj.clearPhos, hs]) (by simp [step, Obj.clearPhos])
        rw [this]
        simp only [List.any_cons, Bool.true_or, if_true, requestsSinceClear, List.nil_append]
        split <;> rfl
      | set sites =>
        have hseq : (step o (.set sites)).seq = s := by simp [step, (setPhos_spec o sites).1, hs]
        have hphos : (step o (.set sites)).phos =
            (((pre ++ sites).filter (validSite s)).map (fun x => (x - 1).toNat)).eraseDups := by
          simp only [step]
          rw [setPhos_phos, hs, hp]
          -- eraseDups of an append
          rw [List.filter_append, List.map_append]
          generalize (pre.filter (validSite s)).map (fun x => (x - 1).toNat) = A
          generalize (sites.filter (validSite s)).map (fun x => (x - 1).toNat) = B
          have key : ∀ (A B : List Nat), (A ++ B).eraseDups = A.eraseDups ++ (B.filter (fun i => i ∉ A.eraseDups)).eraseDups := by
            intro A B
            have h1 := foldl_dedup_first (A ++ B) ([] : List Nat)
            have h2 := foldl_dedup_first A ([] : List Nat)
            have h3 := foldl_dedup_first B (A.eraseDups)
            simp only [List.nil_append, List.not_mem_nil, not_false_eq_true, decide_true, List.filter_true] at h1 h2
            rw [← h1, List.foldl_append, h2, h3]
          rw [key]
        have := ih (step o (.set sites)) (pre ++ sites) hseq hphos
        rw [this]
        simp only [List.any_cons, Bool.false_or, requestsSinceClear]
        split
        · rfl
        · rw [List.append_assoc]
  have := gen (Obj.fresh pal s) [] rfl (by simp [Obj.fresh])
  rw [this]
  split
  · rfl
  · simp

/-- the stored list never repeats a site and only holds in-range S/T/Y positions -/
theorem phos_nodup_valid (pal : Palette) (s : Seq) (calls : List Call) :
    (calls.foldl step (Obj.fresh pal s)).getPhos.Nodup ∧
    ∀ site ∈ (calls.foldl step (Obj.fresh pal s)).getPhos, validSite s (site : Int) = true := by
  rw [phos_history]
  constructor
  · apply List.Nodup.map
    · intro a b h; simp at h; exact h
    · exact nodup_eraseDups _
  · intro site hs
    simp only [List.mem_map] at hs
    obtain ⟨i, hi, rfl⟩ := hs
    rw [List.mem_eraseDups] at hi
    simp only [List.mem_map, List.mem_filter] at hi
    obtain ⟨x, ⟨_, hv⟩, rfl⟩ := hi
    have hx : 1 ≤ x := by
      unfold validSite at hv
      by_contra hlt
      rw [if_neg (by omega)] at hv; cases hv
    have : (((x - 1).toNat + 1 : Nat) : Int) = x := by omega
    rw [this]; exact hv

/-- get_phosphosequence: same length, E at exactly the listed positions, every other residue unchanged -/
theorem phosphoSeq_spec (s : Seq) (idxs : List Nat) :
    (substE s idxs).length = s.length ∧
    ∀ i (h : i < s.length), (substE s idxs)[i]? = some (if i ∈ idxs then AA.E else s[i]) := by
  unfold substE
  constructor
  · simp
  · intro i h
    simp [List.getElem?_zipWith, h]

/-- the value set of a window-free object: kappa of the object equals kappa of its sequence when the
    delta-max cache is empty or correct -/
def CacheOK (T : Tables) (o : Obj) : Prop := o.dmaxC = none ∨ o.dmaxC = some (seqDmax T o.seq)

theorem obj_kappa_eq (T : Tables) (o : Obj) (h : CacheOK T o) : (o.kappa T).2 = seqKappa T o.seq := by
  unfold Obj.kappa Obj.deltaMax seqKappa kappa seqDelta seqDmax
  rcases h with h | h
  · simp [h, seqDmax]
  · simp [h, seqDmax]

theorem substE_nil (s : Seq) : substE s [] = s := by
  unfold substE
  apply List.ext_getElem?
  intro i
  by_cases h : i < s.length
  · simp [h]
  · simp [h]

/-- get_kappa_after_phosphorylation is the kappa of the phosphosequence -/
theorem kappaAfter_eq_kappa_phosphoSeq (T : Tables) (o : Obj) (h : CacheOK T o) :
    (o.kappaAfterPhos T).2 = seqKappa T o.phosphoSeq := by
  unfold Obj.kappaAfterPhos Obj.phosphoSeq
  by_cases hp : o.phos = []
  · rw [if_pos hp, obj_kappa_eq T o h, hp, substE_nil]
  · rw [if_neg hp]

/-- one entry per on/off assignment: 2^k of them -/
theorem onOff_length (k : Nat) : (onOff k).length = 2 ^ k ∧ ∀ b ∈ onOff k, b.length = k := by
  induction k with
  | zero => simp [onOff]
  | succ n ih =>
    obtain ⟨h1, h2⟩ := ih
    constructor
    · simp [onOff, h1]; ring
    · intro b hb
      simp only [onOff, List.mem_append, List.mem_map] at hb
      rcases hb with ⟨c, hc, rfl⟩ | ⟨c, hc, rfl⟩ <;> simp [h2 c hc]

/-- value of a bit list read as a binary number, first site most significant -/
def valBE : List Bool → Nat
  | [] => 0
  | b :: bs => (if b then 2 ^ bs.length else 0) + valBE bs

/-- **binary counting order**: the j-th on/off assignment is the k-digit binary expansion of j -/
theorem onOff_binary_counting (k : Nat) : (onOff k).map valBE = List.range (2 ^ k) := by
  induction k with
  | zero => rfl
  | succ n ih =>
    have hl := (onOff_length n).2
    simp only [onOff, List.map_append, List.map_map]
    have e1 : (onOff n).map (valBE ∘ (false :: ·)) = List.range (2 ^ n) := by
      rw [← ih]; apply List.map_congr_left; intro b _; simp [valBE]
    have e2 : (onOff n).map (valBE ∘ (true :: ·)) = (List.range (2 ^ n)).map (2 ^ n + ·) := by
      rw [← ih, List.map_map]; apply List.map_congr_left; intro b hb; simp [valBE, hl b hb]
    rw [e1, e2, show 2 ^ (n + 1) = 2 ^ n + 2 ^ n by ring, List.range_add]

/-- every distribution entry carries the six values of the correspondingly substituted sequence -/
theorem distribution_entries (T : Tables) (o : Obj) :
    o.phosDist T = (onOff o.phos.length).map (fun bits =>
      (let s' := substE o.seq (selected o.phos bits)
       [seqKappa T s', fPlus T s', fMinus T s', fcr T s', ncpr T s', meanHydropathy T s'], bits)) := rfl

theorem selected_all_on (sites : List Nat) : selected sites (List.replicate sites.length true) = sites := by
  unfold selected
  induction sites with
  | nil => rfl
  | cons x xs ih => simp [List.replicate_succ, ih]

/-- the last entry (all sites on) is the fully phosphorylated sequence: its kappa is
    get_kappa_after_phosphorylation -/
theorem distribution_all_on (T : Tables) (o : Obj) :
    (o.phosDist T).getLast? =
      some (distEntry T o.phosphoSeq, List.replicate o.phos.length true) := by
  unfold Obj.phosDist Obj.phosphoSeq
  have hlast : ∀ k, (onOff k).getLast? = some (List.replicate k true) := by
    intro k
    induction k with
    | zero => rfl
    | succ n ih =>
      simp only [onOff]
      have hne : (onOff n).map (true :: ·) ≠ [] := by
        have := (onOff_length n).1
        intro e
        have : ((onOff n).map (true :: ·)).length = 2 ^ n := by simp [this]
        rw [e] at this; simp at this
        exact absurd this (Nat.ne_of_lt (Nat.two_pow_pos n))
      rw [List.getLast?_append_of_ne_nil _ hne, List.getLast?_map, ih]
      simp [List.replicate_succ]
  rw [List.getLast?_map, hlast]
  simp [selected_all_on]

/-- get_all_phosphorylatable_sites lists the 1-based positions of S, T, Y in increasing order -/
theorem allSTY_spec (s : Seq) :
    allSTY s = ((List.range s.length).filter (fun i => residueIsSTY s i)).map (· + 1) := by
  unfold allSTY
  have gen : ∀ (k : Nat) (l : Seq), (((List.range l.length).map (· + k)).zip l).filterMap
        (fun ia => if isSTY ia.2 = true then some (ia.1 + 1) else none)
      = (((List.range l.length).filter (fun i => residueIsSTY l i)).map (· + k)).map (· + 1) := by
    intro k l
    induction l generalizing k with
    | nil => rfl
    | cons a rest ih =>
      simp only [List.length_cons, List.range_succ_eq_map, List.map_cons, List.zip_cons_cons, List.map_map]
      have e : (List.map ((fun x => x + k) ∘ Nat.succ) (List.range rest.length)) = (List.range rest.length).map (· + (k + 1)) := by
        apply List.map_congr_left; intro x _; simp [Function.comp]; omega
      rw [e]
      have e2 : List.filter (fun i => residueIsSTY (a :: rest) i) (List.map Nat.succ (List.range rest.length))
          = (List.filter (fun i => residueIsSTY rest i) (List.range rest.length)).map Nat.succ := by
        rw [List.filter_map]; congr 1
      by_cases ha : isSTY a = true
      · rw [List.filterMap_cons_some (b := 0 + k + 1) (by simp [ha]), ih (k + 1)]
        rw [List.filter_cons_of_pos (by simp [residueIsSTY, ha]), e2]
        simp only [List.map_cons, List.map_map, Nat.zero_add]
        refine congrArg₂ _ (by simp [Function.comp]) ?_
        apply List.map_congr_left; intro x _; simp [Function.comp]; omega
      · rw [List.filterMap_cons_none (by simp [ha]), ih (k + 1)]
        rw [List.filter_cons_of_neg (by simp [residueIsSTY, ha]), e2]
        simp only [List.map_map]
        apply List.map_congr_left; intro x _; simp [Function.comp]; omega
  have := gen 0 s
  simpa using this

end Cider.C16
