/-
  C16 (tie) — the S/T/Y class tabulated from the live code on this run is the published one.
-/
import Cider.Model.Object
import Cider.Spec.Published
import Cider.Gen.Tables
namespace Cider.C16
open Cider
theorem gen_sty_eq_published : Gen.sty = Spec.sty ∧ (∀ a, Spec.sty a = isSTY a) := by
  constructor
  · funext a; cases a <;> rfl
  · intro a; cases a <;> rfl
end Cider.C16
