/-
  C05 (tie) — the Omega class tabulated from the live code on this run is the published one.
-/
import Cider.Model.TablesSpec
import Cider.Model.TablesGen
namespace Cider.C05
open Cider
theorem gen_omegaX_eq_published : Gen.omegaX = Spec.omegaX := by funext a; cases a <;> rfl
end Cider.C05
