/-
  Cider.Props.C13Src — source-text tie for C13: `Sequence.__check_window_to_length` as `tools/pyexpr2lean.py` translates it
  from the live SOURCE on every run (Gen/Decisions.lean) agrees, for ALL rational arguments, with the
  hand-written model the C13 theorems are about.  A changed threshold, comparison direction, branch
  order or returned value in the source breaks a proof here.
-/
import Cider.Gen.Decisions
import Cider.Model.SeqParams
import Cider.Model.Profiles
import Cider.Model.WL
import Mathlib.Tactic.Linarith
import Mathlib.Tactic.Ring
import Mathlib.Tactic.NormNum
import Mathlib.Tactic.Push
import Mathlib.Algebra.Order.Field.Rat
namespace Cider.C13Src
open Cider

/-- `__check_window_to_length` as written today rejects exactly `len < w` (C13's guard). -/
theorem checkWindow_eq (w len : Nat) :
    (Gen.checkWindow (w : Rat) (len : Rat) = .error ()) ↔ len < w := by
  unfold Gen.checkWindow
  split_ifs with h
  · simp; exact_mod_cast h
  · simp; push Not at h; exact_mod_cast h

/-- the window profile of the model raises exactly when the translated guard does -/
theorem checkWindow_profile {α : Type} (stat : List α → Rat) (w : Nat) (l : List α) :
    (Gen.checkWindow (w : Rat) (l.length : Rat) = .error ()) ↔ profile stat w l = .error .windowTooLong := by
  rw [checkWindow_eq]
  unfold profile
  split_ifs with h <;> simp [h]

end Cider.C13Src
