/-
  C14 — sequence files parse to exactly their residues.   ONLY property theorems.
-/
import Cider.Model.Text
import Mathlib.Tactic.Basic
import Mathlib.Data.List.Basic

namespace Cider.C14
open Cider

/-- characters that are kept from a sequence line: the 20 letters and '*' -/
def kept (c : Char) : Bool := (AA.ofChar? c).isSome || c == '*'
/-- characters that may occur in a sequence line at all -/
def allowed (c : Char) : Bool := kept c || c == ' ' || isDigit c

def isHeader (l : List Char) : Bool := l.head? == some '>'

/-- a sequence line is accepted iff it only contains letters, '*', blanks and digits; what is kept
    is exactly its letters and stars, in order -/
theorem validSeqLine_iff (l r : List Char) :
    validSeqLine l = .ok r ↔ (l.all allowed = true ∧ r = l.filter kept) := by
  induction l generalizing r with
  | nil => simp [validSeqLine]
  | cons c cs ih =>
    unfold validSeqLine
    by_cases h1 : (AA.ofChar? c).isSome = true ∨ c = '*'
    · have hk : kept c = true := by unfold kept; rcases h1 with h | h <;> simp [h]
      have ha : allowed c = true := by unfold allowed; simp [hk]
      rw [if_pos h1]
      simp only [List.all_cons, ha, Bool.true_and, List.filter_cons, hk, if_true]
      cases hr : validSeqLine cs with
      | error e =>
        simp only [reduceCtorEq, false_iff]
        rintro ⟨h2, _⟩
        have := (ih (cs.filter kept)).mpr ⟨h2, rfl⟩
        rw [hr] at this; cases this
      | ok r' =>
        have := (ih r').mp hr
        constructor
        · intro h; injection h with h; subst h; exact ⟨this.1, by rw [this.2]⟩
        · rintro ⟨_, h2⟩; rw [h2, this.2]
    · rw [if_neg h1]
      have hk : kept c = false := by
        unfold kept
        have a1 : (AA.ofChar? c).isSome = false := by
          cases h : (AA.ofChar? c).isSome <;> simp_all
        have a2 : (c == '*') = false := by
          cases h : (c == '*') <;> simp_all
        simp [a1, a2]
      by_cases h2 : c = ' ' ∨ isDigit c = true
      · have ha : allowed c = true := by unfold allowed; rcases h2 with h | h <;> simp [h]
        rw [if_pos h2]
        simp only [List.all_cons, ha, Bool.true_and, List.filter_cons, hk, Bool.false_eq_true, if_false]
        exact ih r
      · rw [if_neg h2]
        have ha : allowed c = false := by
          unfold allowed
          have b1 : (c == ' ') = false := by cases h : (c == ' ') <;> simp_all
          have b2 : isDigit c = false := by cases h : isDigit c <;> simp_all
          simp [hk, b1, b2]
        simp [List.all_cons, ha]

/-- the non-blank, stripped lines of a file -/
def logicalLines (ops : CharOps) (ls : List (List Char)) : List (List Char) :=
  (ls.map (stripLine ops)).filter (fun l => !l.isEmpty)

/-- the line loop with its two state variables (header seen, residues so far): accepted iff no second
    header line, every other line only has allowed characters; the result appends the kept characters -/
theorem parseLines_iff (ops : CharOps) (ls : List (List Char)) (header : Bool) (acc r : List Char) :
    parseLines ops ls header acc = .ok r ↔
      (((logicalLines ops ls).filter isHeader).length + (if header then 1 else 0) ≤ 1 ∧
       (∀ l ∈ (logicalLines ops ls).filter (fun l => !isHeader l), l.all allowed = true) ∧
       r = acc ++ (((logicalLines ops ls).filter (fun l => !isHeader l)).map (List.filter kept)).flatten) := by
  induction ls generalizing header acc r with
  | nil => simp [parseLines, logicalLines]; constructor <;> (intro h; first | exact h.symm | (cases header <;> simp [h]))
  | cons l ls ih =>
    unfold parseLines
    by_cases he : (stripLine ops l).isEmpty = true
    · rw [if_pos he]
      have : logicalLines ops (l :: ls) = logicalLines ops ls := by
        unfold logicalLines; rw [List.map_cons, List.filter_cons_of_neg (by simp [he])]
      rw [this]; exact ih header acc r
    · rw [if_neg he]
      have hll : logicalLines ops (l :: ls) = stripLine ops l :: logicalLines ops ls := by
        unfold logicalLines; rw [List.map_cons, List.filter_cons_of_pos (by simp [he])]
      rw [hll]
      by_cases hh : isHeader (stripLine ops l) = true
      · have hh' : ((stripLine ops l).head? == some '>') = true := hh
        rw [if_pos hh', List.filter_cons_of_pos hh, List.filter_cons_of_neg (by simp [hh]), List.length_cons]
        cases header with
        | true =>
          simp only [if_true, reduceCtorEq, false_iff]
          rintro ⟨h, _⟩; omega
        | false =>
          simp only [Bool.false_eq_true, if_false]
          rw [ih true acc r]
          simp only [if_true, Nat.add_zero]
      · have hh' : ¬ (((stripLine ops l).head? == some '>') = true) := hh
        rw [if_neg hh', List.filter_cons_of_neg hh, List.filter_cons_of_pos (by simp [hh])]
        simp only [List.mem_cons, forall_eq_or_imp, List.map_cons, List.flatten_cons]
        cases hv : validSeqLine (stripLine ops l) with
        | error e =>
          simp only [reduceCtorEq, false_iff]
          rintro ⟨_, ⟨h2, _⟩, _⟩
          have := (validSeqLine_iff (stripLine ops l) _).mpr ⟨h2, rfl⟩
          rw [hv] at this; cases this
        | ok r' =>
          obtain ⟨v1, v2⟩ := (validSeqLine_iff _ _).mp hv
          simp only []
          rw [ih header (acc ++ r') r, v2, List.append_assoc]
          constructor
          · rintro ⟨a, b, c'⟩; exact ⟨a, ⟨v1, b⟩, c'⟩
          · rintro ⟨a, ⟨_, b⟩, c'⟩; exact ⟨a, b, c'⟩

/-- `__final_validation`: no '*', or exactly one and it is the last character (which is removed) -/
theorem finalValidation_iff (seq r : List Char) :
    finalValidation seq = .ok r ↔
      (seq.count '*' = 0 ∧ r = seq) ∨ (seq.count '*' = 1 ∧ seq.getLast? = some '*' ∧ r = seq.dropLast) := by
  unfold finalValidation
  simp only []
  by_cases h0 : seq.count '*' = 0
  · rw [if_pos h0]; simp [h0]
    exact eq_comm
  · rw [if_neg h0]
    by_cases h1 : seq.count '*' > 1
    · rw [if_pos h1]; simp; omega
    · rw [if_neg h1]
      have e1 : seq.count '*' = 1 := by omega
      by_cases hl : seq.getLast? = some '*'
      · rw [if_pos hl]; simp [e1, hl]; exact eq_comm
      · rw [if_neg hl]; simp [e1, hl]

/-- **full characterisation of `parseSeqFile`** (for any `isspace`): a file is accepted iff it has at
    most one header line, every other non-blank line contains only residue letters, '*', blanks and
    digits, and the kept characters contain no '*' or exactly one as the very last character; the result
    is then the kept characters in order (minus that final '*') -/
theorem parseFile_ok_iff (ops : CharOps) (content r : List Char) :
    parseFile ops content = .ok r ↔
      let body := (logicalLines ops (splitLines content)).filter (fun l => !isHeader l)
      let keptAll := (body.map (List.filter kept)).flatten
      ((logicalLines ops (splitLines content)).filter isHeader).length ≤ 1 ∧
      (∀ l ∈ body, l.all allowed = true) ∧
      ((keptAll.count '*' = 0 ∧ r = keptAll) ∨
       (keptAll.count '*' = 1 ∧ keptAll.getLast? = some '*' ∧ r = keptAll.dropLast)) := by
  unfold parseFile
  cases hp : parseLines ops (splitLines content) false [] with
  | error e =>
    simp only [reduceCtorEq, false_iff]
    rintro ⟨h1, h2, _⟩
    have := (parseLines_iff ops (splitLines content) false [] _).mpr ⟨by simpa using h1, h2, rfl⟩
    rw [hp] at this; cases this
  | ok seq =>
    obtain ⟨p1, p2, p3⟩ := (parseLines_iff ops _ false [] seq).mp hp
    simp only [List.nil_append] at p3
    simp only []
    rw [finalValidation_iff, p3]
    constructor
    · intro h; exact ⟨by simpa using p1, p2, h⟩
    · rintro ⟨_, _, h⟩; exact h

/-- the result of an accepted file consists of residue letters only -/
theorem parse_result_letters (ops : CharOps) (content r : List Char) (h : parseFile ops content = .ok r) :
    ∀ c ∈ r, (AA.ofChar? c).isSome = true := by
  obtain ⟨_, _, h3⟩ := (parseFile_ok_iff ops content r).mp h
  have hK : ∀ c ∈ (((logicalLines ops (splitLines content)).filter (fun l => !isHeader l)).map (List.filter kept)).flatten,
      kept c = true := by
    intro c hc
    simp only [List.mem_flatten, List.mem_map] at hc
    obtain ⟨l, ⟨l0, _, rfl⟩, hc⟩ := hc
    exact (List.mem_filter.mp hc).2
  generalize (((logicalLines ops (splitLines content)).filter (fun l => !isHeader l)).map (List.filter kept)).flatten = K at h3 hK
  have key : ∀ c, kept c = true → c ≠ '*' → (AA.ofChar? c).isSome = true := by
    intro c hk hne
    unfold kept at hk
    simp only [Bool.or_eq_true, beq_iff_eq] at hk
    rcases hk with hk | hk
    · exact hk
    · exact absurd hk hne
  rcases h3 with ⟨h0, rfl⟩ | ⟨h1, hl, rfl⟩
  · intro c hc
    apply key c (hK c hc)
    intro he; subst he
    exact absurd (List.count_pos_iff.mpr hc) (by omega)
  · intro c hc
    have hsplit : K = K.dropLast ++ ['*'] := by
      have hne : K ≠ [] := by intro e; subst e; simp at hl
      have := List.dropLast_append_getLast hne
      rw [List.getLast?_eq_some_getLast hne] at hl
      injection hl with hl
      rw [hl] at this
      exact this.symm
    apply key c (hK c (List.dropLast_subset K hc))
    intro he; subst he
    have : List.count '*' K = List.count '*' K.dropLast + 1 := by
      conv_lhs => rw [hsplit]
      simp
    have : 0 < List.count '*' K.dropLast := List.count_pos_iff.mpr hc
    omega

/-! ### consequences: what is accepted, what is rejected -/

/-- a second header line is rejected -/
theorem rejects_second_header (ops : CharOps) (content : List Char)
    (h : 2 ≤ ((logicalLines ops (splitLines content)).filter isHeader).length) :
    ∀ r, parseFile ops content ≠ .ok r := by
  intro r hr
  have := ((parseFile_ok_iff ops content r).mp hr).1
  omega

/-- any character other than a residue letter, '*', a blank or a digit in a sequence line is rejected -/
theorem rejects_other_character (ops : CharOps) (content : List Char) (l : List Char) (c : Char)
    (hl : l ∈ logicalLines ops (splitLines content)) (hh : isHeader l = false) (hc : c ∈ l)
    (hbad : allowed c = false) : ∀ r, parseFile ops content ≠ .ok r := by
  intro r hr
  have h2 := ((parseFile_ok_iff ops content r).mp hr).2.1 l (List.mem_filter.mpr ⟨hl, by simp [hh]⟩)
  have := (List.all_eq_true.mp h2) c hc
  rw [hbad] at this; cases this

/-- a repeated '*' or a '*' that is not the last kept character is rejected -/
theorem rejects_bad_star (ops : CharOps) (content : List Char)
    (h : let K := (((logicalLines ops (splitLines content)).filter (fun l => !isHeader l)).map (List.filter kept)).flatten
         2 ≤ K.count '*' ∨ (K.count '*' = 1 ∧ K.getLast? ≠ some '*')) :
    ∀ r, parseFile ops content ≠ .ok r := by
  intro r hr
  have h3 := ((parseFile_ok_iff ops content r).mp hr).2.2
  simp only [] at h h3
  rcases h with h | ⟨h, h'⟩ <;> rcases h3 with ⟨a, _⟩ | ⟨a, b, _⟩ <;> first | omega | exact h' b

/-- lower-case letters, tabs and punctuation are "other characters" -/
example : allowed 'a' = false ∧ allowed '	' = false ∧ allowed '-' = false ∧ allowed '>' = false ∧
    allowed 'B' = false ∧ allowed 'K' = true ∧ allowed '7' = true ∧ allowed ' ' = true ∧ allowed '*' = true := by decide

/-! ### files as text: universal-newline splitting inverts joining -/

theorem splitLinesAux_other (c : Char) (rest cur : List Char) (h1 : c ≠ '\r') (h2 : c ≠ '\n') :
    splitLinesAux (c :: rest) cur = splitLinesAux rest (c :: cur) := by
  rw [splitLinesAux.eq_def]
  split <;> simp_all

theorem splitLinesAux_line (l : List Char) (hl : ∀ c ∈ l, c ≠ '\r' ∧ c ≠ '\n') (cur : List Char) :
    (∀ rest, splitLinesAux (l ++ '\n' :: rest) cur = (cur.reverse ++ l) :: splitLinesAux rest []) ∧
    (∀ rest, splitLinesAux (l ++ '\r' :: '\n' :: rest) cur = (cur.reverse ++ l) :: splitLinesAux rest []) ∧
    splitLinesAux l cur = [cur.reverse ++ l] := by
  induction l generalizing cur with
  | nil =>
    refine ⟨?_, ?_, ?_⟩
    · intro rest; simp [splitLinesAux]
    · intro rest; simp [splitLinesAux]
    · simp [splitLinesAux]
  | cons c cs ih =>
    have hc := hl c List.mem_cons_self
    have hcs : ∀ x ∈ cs, x ≠ '\r' ∧ x ≠ '\n' := fun x hx => hl x (List.mem_cons_of_mem _ hx)
    obtain ⟨i1, i2, i3⟩ := ih hcs (c :: cur)
    refine ⟨?_, ?_, ?_⟩
    · intro rest
      rw [List.cons_append, splitLinesAux_other c _ cur hc.1 hc.2, i1]; simp
    · intro rest
      rw [List.cons_append, splitLinesAux_other c _ cur hc.1 hc.2, i2]; simp
    · rw [splitLinesAux_other c _ cur hc.1 hc.2, i3]; simp

/-- a text file: lines joined by a line terminator -/
def joinLines (nl : List Char) : List (List Char) → List Char
  | [] => []
  | [l] => l
  | l :: m :: ms => l ++ nl ++ joinLines nl (m :: ms)

/-- joining newline-free lines with "\n" (or "\r\n") and splitting gives the lines back -/
theorem splitLines_join (nl : List Char) (hnl : nl = ['\n'] ∨ nl = ['\r', '\n'])
    (l : List Char) (ls : List (List Char))
    (h : ∀ x ∈ l :: ls, ∀ c ∈ x, c ≠ '\r' ∧ c ≠ '\n') :
    splitLines (joinLines nl (l :: ls)) = l :: ls := by
  unfold splitLines
  have gen : ∀ (ls : List (List Char)) (l : List Char), (∀ x ∈ l :: ls, ∀ c ∈ x, c ≠ '\r' ∧ c ≠ '\n') →
      splitLinesAux (joinLines nl (l :: ls)) [] = l :: ls := by
    intro ls
    induction ls with
    | nil =>
      intro l h
      have := (splitLinesAux_line l (h l List.mem_cons_self) []).2.2
      simpa [joinLines] using this
    | cons m ms ih =>
      intro l h
      have hl := h l List.mem_cons_self
      have hrest : ∀ x ∈ m :: ms, ∀ c ∈ x, c ≠ '\r' ∧ c ≠ '\n' := fun x hx => h x (List.mem_cons_of_mem _ hx)
      have e : joinLines nl (l :: m :: ms) = l ++ nl ++ joinLines nl (m :: ms) := rfl
      rw [e]
      rcases hnl with rfl | rfl
      · have := (splitLinesAux_line l hl []).1 (joinLines ['\n'] (m :: ms))
        simp only [List.append_assoc, List.singleton_append, List.reverse_nil, List.nil_append] at this ⊢
        rw [this, ih m hrest]
      · have := (splitLinesAux_line l hl []).2.1 (joinLines ['\r', '\n'] (m :: ms))
        simp only [List.append_assoc, List.cons_append, List.nil_append, List.reverse_nil] at this ⊢
        rw [this, ih m hrest]
  exact gen ls l h

/-- **layouts**: a file made of newline-free lines joined by "\n" or "\r\n" — at most one header line,
    the other lines only residue letters, blanks and digits (arbitrary line breaks, blank lines,
    10-residue spacing, position numbers, leading/trailing white space) — parses to exactly the residue
    letters of the non-header lines in order -/
theorem parse_layout (ops : CharOps) (nl : List Char) (hnl : nl = ['\n'] ∨ nl = ['\r', '\n'])
    (l : List Char) (ls : List (List Char))
    (hnonl : ∀ x ∈ l :: ls, ∀ c ∈ x, c ≠ '\r' ∧ c ≠ '\n')
    (hhdr : ((logicalLines ops (l :: ls)).filter isHeader).length ≤ 1)
    (hbody : ∀ x ∈ (logicalLines ops (l :: ls)).filter (fun x => !isHeader x),
      ∀ c ∈ x, (AA.ofChar? c).isSome = true ∨ c = ' ' ∨ isDigit c = true) :
    parseFile ops (joinLines nl (l :: ls)) =
      .ok ((((logicalLines ops (l :: ls)).filter (fun x => !isHeader x)).map
        (List.filter (fun c => (AA.ofChar? c).isSome))).flatten) := by
  rw [parseFile_ok_iff, splitLines_join nl hnl l ls hnonl]
  simp only []
  have hkept : ∀ x ∈ (logicalLines ops (l :: ls)).filter (fun x => !isHeader x),
      x.filter kept = x.filter (fun c => (AA.ofChar? c).isSome) := by
    intro x hx
    apply List.filter_congr
    intro c hc
    rcases hbody x hx c hc with h | h | h
    · simp [kept, h]
    · subst h; decide
    · unfold kept
      have : c ≠ '*' := by intro e; subst e; simp [isDigit] at h
      have e1 : (c == '*') = false := by simpa using this
      rw [e1]; simp
  have hmap : ((logicalLines ops (l :: ls)).filter (fun x => !isHeader x)).map (List.filter kept) =
      ((logicalLines ops (l :: ls)).filter (fun x => !isHeader x)).map (List.filter (fun c => (AA.ofChar? c).isSome)) :=
    List.map_congr_left hkept
  rw [hmap]
  refine ⟨hhdr, ?_, Or.inl ⟨?_, rfl⟩⟩
  · intro x hx
    rw [List.all_eq_true]
    intro c hc
    rcases hbody x hx c hc with h | h | h
    · simp [allowed, kept, h]
    · subst h; decide
    · simp [allowed, h]
  · rw [List.count_eq_zero]
    intro hmem
    simp only [List.mem_flatten, List.mem_map] at hmem
    obtain ⟨_, ⟨x, _, rfl⟩, hc⟩ := hmem
    have := (List.mem_filter.mp hc).2
    simp [AA.ofChar?] at this

end Cider.C14
