/-
  C11 (real-valued part) — the Wootton–Federhen value is the Shannon entropy, base alphabet-size, of the
  window's reduced-alphabet composition; it lies in [0,1].   ONLY property theorems.
  The driver prints the exact letter counts of every window; the harness evaluates the entropy.
-/
import Cider.Model.Profiles
import Mathlib.Analysis.SpecialFunctions.Log.NegMulLog
import Mathlib.Analysis.SpecialFunctions.Log.Base
import Mathlib.Analysis.Convex.Jensen
import Mathlib.Algebra.BigOperators.Fin

namespace Cider.C11
open Cider Real

/-- `CWF`: `for x in alphabet: p = count/w; if p > 0: CWF = p*log(p, |A|) + CWF`; returns `-CWF` -/
noncomputable def wfLoop (A w : Nat) (counts : List Nat) : ℝ :=
  -(counts.foldl (fun (acc : ℝ) (c : Nat) => if 0 < ((c : ℝ) / (w : ℝ)) then ((c : ℝ) / w) * Real.logb A ((c : ℝ) / w) + acc else acc) 0)

/-- Shannon entropy of the composition, to base |A| (0·log 0 = 0) -/
noncomputable def entropyBase (A w : Nat) (counts : List Nat) : ℝ :=
  (counts.map (fun (c : Nat) => Real.negMulLog ((c : ℝ) / (w : ℝ)))).sum / Real.log A

theorem wf_eq_entropy (A w : Nat) (counts : List Nat) : wfLoop A w counts = entropyBase A w counts := by
  unfold wfLoop entropyBase
  have gen : ∀ (l : List Nat) (acc : ℝ),
      l.foldl (fun (acc : ℝ) (c : Nat) => if 0 < ((c : ℝ) / (w : ℝ)) then ((c : ℝ) / w) * Real.logb A ((c : ℝ) / w) + acc else acc) acc
        = acc - (l.map (fun (c : Nat) => Real.negMulLog ((c : ℝ) / (w : ℝ)))).sum / Real.log A := by
    intro l
    induction l with
    | nil => intro acc; simp
    | cons c cs ih =>
      intro acc
      rw [List.foldl_cons, ih, List.map_cons, List.sum_cons]
      by_cases hp : 0 < ((c : ℝ) / (w : ℝ))
      · rw [if_pos hp]
        unfold Real.negMulLog Real.logb
        ring
      · rw [if_neg hp]
        have hz : ((c : ℝ) / (w : ℝ)) = 0 := by
          have : 0 ≤ ((c : ℝ) / (w : ℝ)) := by positivity
          linarith [not_lt.mp hp]
        rw [hz, Real.negMulLog_zero]; ring
  rw [gen]; ring

/-- the value is ≥ 0 whenever every count is at most the window size and |A| ≥ 2 -/
theorem wf_nonneg (A w : Nat) (counts : List Nat) (hA : 2 ≤ A) (hw : 0 < w) (hc : ∀ c ∈ counts, c ≤ w) :
    0 ≤ wfLoop A w counts := by
  rw [wf_eq_entropy]; unfold entropyBase
  apply div_nonneg
  · apply List.sum_nonneg
    intro x hx
    simp only [List.mem_map] at hx
    obtain ⟨c, hcm, rfl⟩ := hx
    apply Real.negMulLog_nonneg
    · positivity
    · rw [div_le_one (by exact_mod_cast hw)]; exact_mod_cast hc c hcm
  · apply Real.log_nonneg; exact_mod_cast (by omega : 1 ≤ A)

theorem list_sum_eq_fin_sum {α : Type} (l : List α) (f : α → ℝ) :
    (l.map f).sum = ∑ i : Fin l.length, f l[i.1] := by
  induction l with
  | nil => simp
  | cons x xs ih =>
    rw [List.map_cons, List.sum_cons, ih]
    simp only [List.length_cons]
    rw [Fin.sum_univ_succ]
    simp

/-- **the value is ≤ 1** (Jensen): the counts of the |A| alphabet letters sum to the window size -/
theorem wf_le_one (A w : Nat) (counts : List Nat) (hA : 2 ≤ A) (hw : 0 < w)
    (hlen : counts.length = A) (hsum : counts.sum = w) : wfLoop A w counts ≤ 1 := by
  rw [wf_eq_entropy]; unfold entropyBase
  have hlogA : 0 < Real.log A := Real.log_pos (by exact_mod_cast (by omega : 1 < A))
  rw [div_le_one hlogA]
  have hApos : (0 : ℝ) < A := by exact_mod_cast (by omega : 0 < A)
  -- list sum → Finset sum over Fin
  rw [list_sum_eq_fin_sum counts (fun (c : Nat) => Real.negMulLog ((c : ℝ) / (w : ℝ)))]
  have hJ := Real.concaveOn_negMulLog.le_map_sum (t := Finset.univ)
    (w := fun _ : Fin counts.length => (1 : ℝ) / A) (p := fun i : Fin counts.length => (counts[i.1] : ℝ) / (w : ℝ))
    (by intro i _; positivity)
    (by simp [hlen]; field_simp)
    (by intro i _; simp only [Set.mem_Ici]; positivity)
  simp only [smul_eq_mul] at hJ
  have e2 : ∑ i : Fin counts.length, (1 : ℝ) / A * ((counts[i.1] : ℝ) / (w : ℝ)) = 1 / A := by
    rw [← Finset.mul_sum, ← Finset.sum_div]
    have : ∑ i : Fin counts.length, (counts[i.1] : ℝ) = (w : ℝ) := by
      rw [← list_sum_eq_fin_sum counts (fun (c : Nat) => (c : ℝ)), ← hsum]
      clear hJ hlen hsum
      induction counts with
      | nil => simp
      | cons x xs ih => simp only [List.map_cons, List.sum_cons, Nat.cast_add, ih]
    rw [this, div_self (by exact_mod_cast hw.ne')]; ring
  rw [e2, ← Finset.mul_sum] at hJ
  have e3 : Real.negMulLog (1 / (A : ℝ)) = (1 / A) * Real.log A := by
    unfold Real.negMulLog; rw [one_div, Real.log_inv]; ring
  rw [e3] at hJ
  have := mul_le_mul_of_nonneg_left hJ hApos.le
  rw [← mul_assoc, ← mul_assoc, mul_one_div, div_self hApos.ne', one_mul, one_mul] at this
  exact this

/-- a homopolymeric window (one letter has all w residues, every other count is 0) has value 0 -/
theorem wf_homopolymer (A w : Nat) (counts : List Nat) (hw : 0 < w)
    (hc : ∀ c ∈ counts, c = 0 ∨ c = w) : wfLoop A w counts = 0 := by
  rw [wf_eq_entropy]; unfold entropyBase
  have : (counts.map (fun (c : Nat) => Real.negMulLog ((c : ℝ) / (w : ℝ)))).sum = 0 := by
    apply List.sum_eq_zero
    intro x hx
    simp only [List.mem_map] at hx
    obtain ⟨c, hcm, rfl⟩ := hx
    rcases hc c hcm with rfl | rfl
    · simp
    · rw [div_self (by exact_mod_cast hw.ne')]; simp
  rw [this, zero_div]

/-- the value only depends on the composition of the window: permuting the window changes nothing -/
theorem wf_perm_invariant (alphabet : List AA) (A w : Nat) (win win' : Seq) (h : win.Perm win') :
    wfLoop A w (letterCounts alphabet win) = wfLoop A w (letterCounts alphabet win') := by
  have : letterCounts alphabet win = letterCounts alphabet win' := by
    unfold letterCounts
    apply List.map_congr_left
    intro x _
    exact h.count_eq x
  rw [this]

end Cider.C11
