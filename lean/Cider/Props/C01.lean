/-
  C01 — kappa is delta/delta-max, lies in [0,1] (where the family contains the maximiser), and is
  −1 only when undefined.   ONLY property theorems (+ witnesses).
-/
import Cider.Props.C03

namespace Cider.C01
open Cider

theorem delta_nonneg (p : Pattern) : 0 ≤ delta p := Cider.C02.delta_nonneg p
theorem dmax_nonneg (p : Pattern) : 0 ≤ dmax p := Cider.C03.dmax_nonneg _ _ _

/-- the sentinel: kappa is −1 exactly when delta-max is 0 (the ratio itself can never be −1) -/
theorem kappa_neg_one_iff (p : Pattern) : kappa p = -1 ↔ dmax p = 0 := by
  unfold kappa kappaOf
  constructor
  · intro h
    by_contra h0
    rw [if_neg h0] at h
    have hd := delta_nonneg p
    have hm : 0 < dmax p := lt_of_le_of_ne (dmax_nonneg p) (Ne.symm h0)
    have hk : 0 ≤ delta p / dmax p := div_nonneg hd (le_of_lt hm)
    simp only [] at h
    split_ifs at h <;> linarith
  · intro h; rw [if_pos h]

/-- otherwise kappa is the ratio, a ratio in the open window (1, 1.1) being reported as exactly 1 -/
theorem kappa_eq_ratio (p : Pattern) (h : dmax p ≠ 0) :
    kappa p = (if 1 < delta p / dmax p ∧ delta p / dmax p < 11 / 10 then 1 else delta p / dmax p) := by
  unfold kappa kappaOf; rw [if_neg h]

theorem kappa_nonneg (p : Pattern) (h : dmax p ≠ 0) : 0 ≤ kappa p := by
  rw [kappa_eq_ratio p h]
  have hm : 0 < dmax p := lt_of_le_of_ne (dmax_nonneg p) (Ne.symm h)
  have hk : 0 ≤ delta p / dmax p := div_nonneg (delta_nonneg p) (le_of_lt hm)
  split_ifs <;> linarith

/-- exact characterisation of when the documented promise kappa ≤ 1 holds -/
theorem kappa_le_one_iff (p : Pattern) (h : dmax p ≠ 0) :
    kappa p ≤ 1 ↔ delta p < 11 / 10 * dmax p := by
  have hm : 0 < dmax p := lt_of_le_of_ne (dmax_nonneg p) (Ne.symm h)
  rw [kappa_eq_ratio p h]
  have e : delta p / dmax p < 11 / 10 ↔ delta p < 11 / 10 * dmax p := div_lt_iff₀ hm
  split_ifs with hc
  · constructor
    · intro _; exact e.mp hc.2
    · intro _; exact le_refl 1
  · constructor
    · intro hle; exact e.mp (by linarith)
    · intro hlt
      have := e.mpr hlt
      by_contra hgt
      exact hc ⟨not_le.mp hgt, this⟩

/-- hence the range promise −1 or [0,1] holds for a pattern iff its delta is below 1.1·delta-max -/
theorem kappa_range_iff (p : Pattern) :
    (kappa p = -1 ∨ (0 ≤ kappa p ∧ kappa p ≤ 1)) ↔ (dmax p = 0 ∨ delta p < 11 / 10 * dmax p) := by
  by_cases h : dmax p = 0
  · simp [h, (kappa_neg_one_iff p).mpr h]
  · have hne : kappa p ≠ -1 := fun hk => h ((kappa_neg_one_iff p).mp hk)
    simp only [hne, h, false_or]
    rw [← kappa_le_one_iff p h]
    exact ⟨fun hh => hh.2, fun hh => ⟨kappa_nonneg p h, hh⟩⟩

/-- every member of the documented family of its own composition has kappa in {−1} ∪ [0,1] -/
theorem kappa_of_family_member (p : Pattern)
    (hp : p ∈ candidates (countPos p) (countNeg p) (countNeut p)) :
    kappa p = -1 ∨ (0 ≤ kappa p ∧ kappa p ≤ 1) := by
  rw [kappa_range_iff]
  by_cases h : dmax p = 0
  · left; exact h
  · right
    have hm : 0 < dmax p := lt_of_le_of_ne (dmax_nonneg p) (Ne.symm h)
    have hpos : 0 < countPos p + countNeg p := by
      by_contra h0
      have : countPos p + countNeg p = 0 := by omega
      apply h; unfold dmax dmaxComp; rw [if_pos this]
    have := ((Cider.C03.dmax_eq_family_max _ _ (countNeut p)).2 hpos).1 p hp
    unfold dmax; unfold dmax at hm
    linarith

/-- the sequence handed back by `get_deltaMax(True)` — the Wang–Landau start state — has kappa exactly 1
    whenever delta-max is non-zero -/
theorem kappa_of_dmax_permutant (s : Seq) (h : seqDmax specTables s ≠ 0) :
    seqKappa specTables (dmaxPermutant specTables s) = 1 := by
  obtain ⟨hperm, hdelta⟩ := Cider.C03.dmax_attained s
  have hd : seqDmax specTables (dmaxPermutant specTables s) = seqDmax specTables s :=
    Cider.C03.dmax_composition_only specTables _ _ hperm
  unfold seqKappa kappa kappaOf
  unfold seqDmax at hd h
  unfold seqDelta at hdelta
  rw [hd, if_neg h, hdelta]
  unfold seqDmax
  rw [div_self h]
  simp

/-- **the full range statement is FALSE of the pinned code** (known finding F-C01-1): the documented
    family misses the maximiser of composition (2,4,0); `KEEEEK` has kappa 98/53 ≈ 1.849 -/
theorem kappa_gt_one_witness : kappa [1, -1, -1, -1, -1, 1] = 98 / 53 := by decide +kernel

/-- the part of the range promise that does hold, for every pattern -/
theorem kappa_range_partial (p : Pattern) :
    (kappa p = -1 ↔ dmax p = 0) ∧ (dmax p ≠ 0 → 0 ≤ kappa p) ∧
    (dmax p ≠ 0 → (kappa p ≤ 1 ↔ delta p < 11 / 10 * dmax p)) :=
  ⟨kappa_neg_one_iff p, kappa_nonneg p, kappa_le_one_iff p⟩

/-! non-vacuity -/
example : kappa [1, 1, 1, 0, 0, -1, -1, -1] ≤ 1 ∧ 0 ≤ kappa [1, 1, 1, 0, 0, -1, -1, -1] := by
  constructor <;> decide +kernel
example : kappa [0, 0, 0, 0, 0, 0, 0] = -1 := by decide +kernel
example : dmax [1, -1, 0, 0, 0] = 0 ∧ kappa [1, -1, 0, 0, 0] = -1 := by constructor <;> decide +kernel

end Cider.C01
