/-
  C18 (binning) — `argmin |bincts − kappa|` really is "the bin that contains kappa": the index the
  Wang–Landau machine computes for a proposal is a nearest bin centre, hence (for kappa in [0,1]) the
  bin of the equal partition whose closed interval holds kappa.  Together with `never_moves_outside`
  this is what "never moves to a sequence whose kappa bin lies outside the requested range" means.
  ONLY property theorems (and the fold lemma they need).
-/
import Cider.Props.C18
import Mathlib.Algebra.Order.Floor.Semiring
import Mathlib.Data.Rat.Floor
import Mathlib.Tactic.Push

namespace Cider.C18
open Cider

/-- |centre_i − k| as the model writes it -/
def binDist (n : Nat) (k : Rat) (i : Nat) : Rat :=
  if binCentre n i - k < 0 then k - binCentre n i else binCentre n i - k

theorem binDist_eq_abs (n : Nat) (k : Rat) (i : Nat) : binDist n k i = |binCentre n i - k| := by
  unfold binDist
  split_ifs with h
  · rw [abs_of_neg h]; ring
  · push Not at h; rw [abs_of_nonneg h]

/-- first-minimiser fold: the result carries its own distance, is the start or a list element, and is
    no farther than the start and than every list element -/
theorem argmin_fold (d : Nat → Rat) (l : List Nat) (b : Nat × Rat) (hb : b.2 = d b.1) :
    let r := l.foldl (fun (best : Nat × Rat) i => if d i < best.2 then (i, d i) else best) b
    r.2 = d r.1 ∧ (r.1 = b.1 ∨ r.1 ∈ l) ∧ r.2 ≤ b.2 ∧ ∀ j ∈ l, r.2 ≤ d j := by
  induction l generalizing b with
  | nil => simp [hb]
  | cons x xs ih =>
    simp only [List.foldl_cons]
    by_cases hx : d x < b.2
    · rw [if_pos hx]
      obtain ⟨h1, h2, h3, h4⟩ := ih (x, d x) rfl
      refine ⟨h1, ?_, ?_, ?_⟩
      · rcases h2 with h2 | h2
        · right; simp only at h2; rw [h2]; exact List.mem_cons_self
        · right; exact List.mem_cons_of_mem _ h2
      · simp only at h3; linarith
      · intro j hj
        rcases List.mem_cons.mp hj with rfl | hj
        · exact h3
        · exact h4 j hj
    · rw [if_neg hx]
      obtain ⟨h1, h2, h3, h4⟩ := ih b hb
      refine ⟨h1, ?_, h3, ?_⟩
      · rcases h2 with h2 | h2
        · left; exact h2
        · right; exact List.mem_cons_of_mem _ h2
      · intro j hj
        rcases List.mem_cons.mp hj with rfl | hj
        · push Not at hx; linarith
        · exact h4 j hj

theorem binOf_eq_fold (n : Nat) (k : Rat) :
    binOf n k = ((List.range n).foldl (fun (best : Nat × Rat) i => if binDist n k i < best.2 then (i, binDist n k i) else best)
      (0, binDist n k 0)).1 := rfl

/-- **the computed bin is a nearest bin centre**: it is a valid index and no centre is closer to kappa -/
theorem binOf_nearest (n : Nat) (hn : 0 < n) (k : Rat) :
    binOf n k < n ∧ ∀ j < n, |binCentre n (binOf n k) - k| ≤ |binCentre n j - k| := by
  rw [binOf_eq_fold]
  obtain ⟨h1, h2, _, h4⟩ := argmin_fold (binDist n k) (List.range n) (0, binDist n k 0) rfl
  constructor
  · rcases h2 with h2 | h2
    · simp only at h2; omega
    · exact List.mem_range.mp h2
  · intro j hj
    have := h4 j (List.mem_range.mpr hj)
    rw [h1] at this
    rw [← binDist_eq_abs, ← binDist_eq_abs]; exact this

/-- **the computed bin contains kappa**: for kappa in [0,1] the bin index i satisfies
    i/n ≤ kappa ≤ (i+1)/n (the closed interval of bin i of the equal partition) -/
theorem binOf_contains (n : Nat) (hn : 0 < n) (k : Rat) (h0 : 0 ≤ k) (h1 : k ≤ 1) :
    ((binOf n k : Nat) : Rat) / n ≤ k ∧ k ≤ ((binOf n k : Rat) + 1) / n := by
  have hnq : (0 : Rat) < n := by exact_mod_cast hn
  obtain ⟨_, hmin⟩ := binOf_nearest n hn k
  -- the bin j0 = min ⌊k n⌋ (n-1) is within half a bin width of k
  set j0 : Nat := min (⌊k * n⌋₊) (n - 1) with hj0
  have hj0lt : j0 < n := by
    have : j0 ≤ n - 1 := min_le_right _ _
    omega
  have hkn : 0 ≤ k * n := by positivity
  have hlo : (j0 : Rat) ≤ k * n := by
    have : (j0 : Rat) ≤ (⌊k * n⌋₊ : Rat) := by exact_mod_cast min_le_left _ _
    exact le_trans this (Nat.floor_le hkn)
  have hhi : k * n ≤ (j0 : Rat) + 1 := by
    by_cases hc : ⌊k * n⌋₊ ≤ n - 1
    · have : j0 = ⌊k * n⌋₊ := min_eq_left hc
      rw [this]; exact le_of_lt (Nat.lt_floor_add_one _)
    · have : j0 = n - 1 := min_eq_right (by omega)
      rw [this]
      have hn1 : ((n - 1 : Nat) : Rat) + 1 = n := by
        rw [Nat.cast_sub (by omega)]; simp
      rw [hn1]; nlinarith
  have hd0 : |binCentre n j0 - k| ≤ 1 / (2 * n) := by
    unfold binCentre
    have h2n : (0 : Rat) < 2 * n := by linarith
    have e : (2 * (j0 : Rat) + 1) / (2 * n) - k = ((2 * (j0 : Rat) + 1) - 2 * k * n) / (2 * n) := by field_simp
    have e1 : -(1 / (2 * (n : Rat))) * (2 * n) = -1 := by field_simp
    have e2 : (1 / (2 * (n : Rat))) * (2 * n) = 1 := by field_simp
    rw [e, abs_le]
    constructor
    · rw [le_div_iff₀ h2n, e1]; linarith
    · rw [div_le_iff₀ h2n, e2]; linarith
  have hd := le_trans (hmin j0 hj0lt) hd0
  unfold binCentre at hd
  rw [abs_le] at hd
  have h2n : (0 : Rat) < 2 * n := by linarith
  constructor
  · rw [div_le_iff₀ hnq]
    have := hd.2
    rw [sub_le_iff_le_add, div_le_iff₀ h2n] at this
    have e : (1 / (2 * (n : Rat)) + k) * (2 * n) = 1 + 2 * k * n := by field_simp
    rw [e] at this; linarith
  · rw [le_div_iff₀ hnq]
    have := hd.1
    rw [le_sub_iff_add_le, le_div_iff₀ h2n] at this
    have e : (-(1 / (2 * (n : Rat))) + k) * (2 * n) = -1 + 2 * k * n := by field_simp
    rw [e] at this; linarith

/-- running minimum of the distances: below the start value and every list element, and attained -/
theorem min_fold (d : Nat → Rat) (l : List Nat) (b : Rat) :
    let r := l.foldl (fun (b : Rat) i => if d i < b then d i else b) b
    r ≤ b ∧ (∀ j ∈ l, r ≤ d j) ∧ (r = b ∨ ∃ j ∈ l, r = d j) := by
  induction l generalizing b with
  | nil => simp
  | cons x xs ih =>
    simp only [List.foldl_cons]
    by_cases hx : d x < b
    · rw [if_pos hx]
      obtain ⟨h1, h2, h3⟩ := ih (d x)
      refine ⟨by linarith, ?_, ?_⟩
      · intro j hj
        rcases List.mem_cons.mp hj with rfl | hj
        · exact h1
        · exact h2 j hj
      · right
        rcases h3 with h3 | ⟨j, hj, h3⟩
        · exact ⟨x, List.mem_cons_self, h3⟩
        · exact ⟨j, List.mem_cons_of_mem _ hj, h3⟩
    · rw [if_neg hx]
      obtain ⟨h1, h2, h3⟩ := ih b
      refine ⟨h1, ?_, ?_⟩
      · intro j hj
        rcases List.mem_cons.mp hj with rfl | hj
        · push Not at hx; linarith
        · exact h2 j hj
      · rcases h3 with h3 | ⟨j, hj, h3⟩
        · left; exact h3
        · right; exact ⟨j, List.mem_cons_of_mem _ hj, h3⟩

theorem binCentre_inj (n i j : Nat) (hn : 0 < n) (h : binCentre n i = binCentre n j) : i = j := by
  unfold binCentre at h
  have h2n : (2 * (n : Rat)) ≠ 0 := by
    have : (0 : Rat) < n := by exact_mod_cast hn
    linarith
  rw [div_left_inj' h2n] at h
  have : (i : Rat) = j := by linarith
  exact_mod_cast this

/-- a kappa that IS a bin centre has exactly one nearest bin -/
theorem binCandidates_centre (n j : Nat) (hj : j < n) : binCandidates n (binCentre n j) = [j] := by
  have hn : 0 < n := by omega
  unfold binCandidates
  simp only []
  change (List.range n).filter (fun i => decide (binDist n (binCentre n j) i =
      (List.range n).foldl (fun (b : Rat) i => if binDist n (binCentre n j) i < b then binDist n (binCentre n j) i else b)
        (binDist n (binCentre n j) 0))) = [j]
  obtain ⟨_, h2, h3⟩ := min_fold (binDist n (binCentre n j)) (List.range n) (binDist n (binCentre n j) 0)
  set best := (List.range n).foldl (fun (b : Rat) i => if binDist n (binCentre n j) i < b then binDist n (binCentre n j) i else b)
        (binDist n (binCentre n j) 0) with hbest
  have hdj : binDist n (binCentre n j) j = 0 := by rw [binDist_eq_abs]; simp
  have hnonneg : ∀ i, 0 ≤ binDist n (binCentre n j) i := fun i => by rw [binDist_eq_abs]; exact abs_nonneg _
  have hb0 : best = 0 := by
    have hle : best ≤ 0 := by rw [← hdj]; exact h2 j (List.mem_range.mpr hj)
    have hge : 0 ≤ best := by
      rcases h3 with h3 | ⟨i, _, h3⟩
      · rw [h3]; exact hnonneg 0
      · rw [h3]; exact hnonneg i
    linarith
  rw [hb0]
  have hiff : ∀ i, decide (binDist n (binCentre n j) i = 0) = decide (i = j) := by
    intro i
    congr 1
    rw [binDist_eq_abs, abs_eq_zero, sub_eq_zero]
    exact propext ⟨fun h => binCentre_inj n i j hn h, fun h => by rw [h]⟩
  simp only [hiff]
  have : (List.range n).filter (fun i => decide (i = j)) = List.replicate ((List.range n).count j) j := by
    rw [← List.filter_beq]; congr 1
  rw [this, List.count_eq_one_of_mem List.nodup_range (List.mem_range.mpr hj)]
  rfl

/-- **an aligned request is tiled exactly**: when the requested window [j/m, (j+nb)/m] consists of nb whole
    bins of the partition of [0,1] into m bins, the machine uses exactly that partition and its relevant
    range starts at bin j (and so covers exactly the requested window) -/
theorem wlConfig_aligned (m j nb : Nat) (hm : 0 < m) (hnb : 0 < nb) (hj : j + nb ≤ m) :
    wlConfig ((j : Rat) / m) (((j : Rat) + nb) / m) nb = (m, [j]) := by
  have hmq : (0 : Rat) < m := by exact_mod_cast hm
  have hnbq : (0 : Rat) < nb := by exact_mod_cast hnb
  unfold wlConfig
  simp only []
  have hw : (((j : Rat) + nb) / m - (j : Rat) / m) / (nb : Rat) = 1 / m := by field_simp; ring
  rw [hw]
  have hinv : (1 : Rat) / (1 / (m : Rat)) = m := by field_simp
  rw [hinv]
  have hround : pyRound (m : Rat) = m := by
    unfold pyRound
    simp only []
    have hf : (m : Rat).floor = m := by
      have : ((m : Int) : Rat) = (m : Rat) := by push_cast; rfl
      rw [← this, Rat.floor_intCast]
    rw [hf]
    have : ((m : Rat) - ((m : Int) : Rat)) = 0 := by push_cast; ring
    rw [this]; norm_num
  rw [hround]
  have hc : (j : Rat) / m + 1 / (m : Rat) / 2 = binCentre m j := by
    unfold binCentre; field_simp
  rw [hc]
  simp only [Int.toNat_natCast]
  rw [binCandidates_centre m j (by omega)]

/-- **a move is only ever made to a sequence whose kappa lies in the relevant interval**: if the walker
    moved (the proposal with kappa `k ∈ [0,1]` was accepted) then `rmin/n ≤ k ≤ (rmax+1)/n`, the union of
    the closed intervals of the relevant bins of the `n`-bin partition the machine uses -/
theorem moved_implies_kappa_in_range (cfg : WLCfg) (accept : Rat → Bool) (st : WLState) (k : Rat)
    (hn : 0 < cfg.nbins) (h0 : 0 ≤ k) (h1 : k ≤ 1)
    (hmoved : (wlMove cfg accept st (binOf cfg.nbins k)).2 = true) :
    (cfg.rmin : Rat) / cfg.nbins ≤ k ∧ k ≤ ((cfg.rmax : Rat) + 1) / cfg.nbins := by
  have hin : cfg.inside (binOf cfg.nbins k) = true := by
    by_contra hc
    have hf : cfg.inside (binOf cfg.nbins k) = false := by simpa using hc
    have := (never_moves_outside cfg accept st _ hf).1
    rw [this] at hmoved; exact Bool.noConfusion hmoved
  unfold WLCfg.inside at hin
  simp only [Bool.and_eq_true, decide_eq_true_eq] at hin
  obtain ⟨hlo, hhi⟩ := binOf_contains cfg.nbins hn k h0 h1
  have hnq : (0 : Rat) < cfg.nbins := by exact_mod_cast hn
  constructor
  · refine le_trans ?_ hlo
    rw [div_le_div_iff_of_pos_right hnq]; exact_mod_cast hin.1
  · refine le_trans hhi ?_
    rw [div_le_div_iff_of_pos_right hnq]
    have : ((binOf cfg.nbins k : Nat) : Rat) ≤ (cfg.rmax : Rat) := by exact_mod_cast hin.2
    linarith

end Cider.C18
