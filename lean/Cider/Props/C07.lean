/-
  C07 — SCD equals the Sawle–Ghosh sequence charge decoration.   ONLY property theorems.
-/
import Cider.Real.Scd
import Cider.Model.TablesSpec

namespace Cider.C07
open Cider Finset

/-- the code's double loop (m = 2..N, n = 1..m−1, term q_m q_n (m−n)^½, divided by N) is the
    Sawle–Ghosh pair sum (1/N) Σ_{m>n} q_m q_n √(m−n) — every pattern, every length -/
theorem scdLoop_eq_spec (p : Pattern) : scdLoop p = scdDef p := scdLoop_eq_def p

/-- … and equals (1/N) Σ_{d=1}^{N−1} lag_d·√d with the exact integer lag sums lag_d = Σ_i q_i q_{i+d}
    of the executable model — the value the correspondence compares `get_SCD()` with -/
theorem scd_eq_lagform (p : Pattern) : scdLoop p = scdLag p := by
  rw [scdLoop_eq_def, scdDef_eq_lag]

/-- fewer than two charged residues ⇒ SCD = 0 -/
theorem scd_zero_of_few_charges (p : Pattern) (h : countPos p + countNeg p ≤ 1) : scdLoop p = 0 := by
  have hc : p.countP (fun x => decide (x ≠ 0)) ≤ 1 := by
    have : p.countP (fun x => decide (x ≠ 0)) = countPos p + countNeg p := by
      unfold countPos countNeg
      induction p with
      | nil => rfl
      | cons x xs ih =>
        simp only [List.countP_cons]
        have hx : countPos xs + countNeg xs ≤ 1 := by
          unfold countPos countNeg at h ⊢
          simp only [List.countP_cons] at h
          omega
        rw [ih hx]
        rcases lt_trichotomy x 0 with h1 | h1 | h1
        · have a : ¬ (0 < x) := by omega
          have b : x ≠ 0 := by omega
          simp [h1, a, b]; omega
        · subst h1; simp
        · have a : ¬ (x < 0) := by omega
          have b : x ≠ 0 := by omega
          simp [h1, a, b]; omega
    omega
  have hz := pair_zero_of_few p hc
  rw [scdLoop_eq_def]
  unfold scdDef
  have : (∑ m ∈ Ico 1 (p.length + 1), ∑ n ∈ Ico 1 m,
      qAt p (m - 1) * qAt p (n - 1) * Real.sqrt (((m - n : Nat) : ℝ))) = 0 := by
    apply Finset.sum_eq_zero
    intro m hm
    apply Finset.sum_eq_zero
    intro n hn
    have h1 := (Finset.mem_Ico.mp hn)
    have := hz (n - 1) (m - 1) (by omega)
    unfold qAt
    have e : ((p.getD (m - 1) 0 : Int) : ℝ) * ((p.getD (n - 1) 0 : Int) : ℝ) = 0 := by
      rw [mul_comm]; exact_mod_cast this
    rw [e, zero_mul]
  rw [this, zero_div]

/-- SCD depends on the sequence only through its charge pattern (K,R ↦ +1; D,E ↦ −1; others 0) -/
theorem scd_pattern_only (T : Tables) (s t : Seq)
    (h : List.Forall₂ (fun a b => T.charge a = T.charge b) s t) :
    scdLoop (patternOf T s) = scdLoop (patternOf T t) := by
  have : patternOf T s = patternOf T t := by
    unfold patternOf
    induction h with
    | nil => rfl
    | cons hab _ ih => simp only [List.map_cons, hab, ih]
  rw [this]

/-- SCD is unchanged by reversing the sequence … -/
theorem scd_reverse (p : Pattern) : scdLoop p.reverse = scdLoop p := by
  rw [scd_eq_lagform, scd_eq_lagform]
  unfold scdLag
  simp only [List.length_reverse, lagSum_reverse]

/-- … and by exchanging positive and negative charges -/
theorem scd_negate (p : Pattern) : scdLoop (p.map (fun x => -x)) = scdLoop p := by
  rw [scd_eq_lagform, scd_eq_lagform]
  unfold scdLag
  simp only [List.length_map, lagSum_negate]

/-! non-vacuity: lag sums of the KEEEEK pattern -/
example : (List.range 6).tail.map (lagSum [1, -1, -1, -1, -1, 1]) = [1, 0, -1, -2, 1] := by decide

end Cider.C07
