/-
  C20 (tie) — the default palette and the accept/reject behaviour of the colour check tabulated from the
  live code on this run agree with the published palette and the documented 17 colour names.
-/
import Cider.Model.Text
import Cider.Spec.Published
import Cider.Gen.Tables
namespace Cider.C20
open Cider

theorem gen_defaultPalette_eq_published :
    Gen.defaultPalette = Spec.defaultPalette ∧ Gen.defaultPaletteConst = Spec.defaultPalette := by
  constructor <;> (funext a; cases a <;> rfl)

/-- every probed colour name (17 documented + 24 others incl. wrong case, padded, hex, empty) is accepted
    by the live `set_HTMLColorResiduePalette` exactly when it is one of the documented 17 -/
theorem gen_colour_check_eq_documented :
    Gen.colourProbe.all (fun ca => ca.2 == htmlColours.contains ca.1) = true ∧
    htmlColours.all (fun c => Gen.colourProbe.contains (c, true)) = true := by
  constructor <;> decide

/-- the default palette only uses documented colours -/
theorem default_palette_valid : AA.all.all (fun a => htmlColours.contains (Spec.defaultPalette a)) = true := by
  decide

end Cider.C20
