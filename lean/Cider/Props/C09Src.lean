/-
  Cider.Props.C09Src — source-text tie for C09: `SequenceParameters.__verify_pH` as `tools/pyexpr2lean.py` translates it
  from the live SOURCE on every run (Gen/Decisions.lean) agrees, for ALL rational arguments, with the
  hand-written model the C09 theorems are about.  A changed threshold, comparison direction, branch
  order or returned value in the source breaks a proof here.
-/
import Cider.Gen.Decisions
import Cider.Model.SeqParams
import Cider.Model.Profiles
import Cider.Model.WL
import Mathlib.Tactic.Linarith
import Mathlib.Tactic.Ring
import Mathlib.Tactic.NormNum
import Mathlib.Tactic.Push
import Mathlib.Algebra.Order.Field.Rat
namespace Cider.C09Src
open Cider

/-- `__verify_pH` as written today rejects exactly pH < 0 or pH > 14 (C09). -/
theorem verifyPH_eq (pH : Rat) : (Gen.verifyPH pH = .error ()) ↔ (pH < 0 ∨ 14 < pH) := by
  unfold Gen.verifyPH
  simp only [gt_iff_lt, div_one]
  split_ifs with h1 h2 <;> simp_all

end Cider.C09Src
