/-
  C19 — the five coloured regions drawn are the ones the region function uses: a marker at (f+, f−)
  lies inside the polygon of the region the sequence is assigned.   ONLY property theorems.
  The polygons are the frozen published ones; Cider.Props.C19Tie proves that the polygons of the figure
  the live code draws (regenerated on every run) are these.
-/
import Cider.Spec.PublishedPolygons
import Cider.Spec.Defs
import Mathlib.Tactic.Linarith
import Mathlib.Tactic.Ring
import Mathlib.Tactic.NormNum
import Mathlib.Algebra.Order.Field.Rat
import Mathlib.Algebra.Order.Field.Basic

namespace Cider.C19
open Cider

abbrev Pt := Rat × Rat

def toPt (v : (Int × Nat) × (Int × Nat)) : Pt := ((v.1.1 : Rat) / (v.1.2 : Rat), (v.2.1 : Rat) / (v.2.2 : Rat))

/-- signed area test of point `p` against the directed edge a → b -/
def cross (a b p : Pt) : Rat := (b.1 - a.1) * (p.2 - a.2) - (b.2 - a.2) * (p.1 - a.1)

def edgesOf (P : List Pt) : List (Pt × Pt) := P.zip (P.rotate 1)

/-- closed convex polygon: the point is on the same side of every edge -/
def inPoly (P : List Pt) (p : Pt) : Prop :=
  (∀ e ∈ edgesOf P, cross e.1 e.2 p ≤ 0) ∨ (∀ e ∈ edgesOf P, 0 ≤ cross e.1 e.2 p)

def strictlyInPoly (P : List Pt) (p : Pt) : Prop :=
  (∀ e ∈ edgesOf P, cross e.1 e.2 p < 0) ∨ (∀ e ∈ edgesOf P, 0 < cross e.1 e.2 p)

/-- the region of a point of the composition simplex (x = f+, y = f−) by the exact thresholds -/
def regionXY (x y : Rat) : Nat :=
  if x + y < 1/4 then 1 else if x + y ≤ 7/20 then 2
  else if -7/20 < x - y ∧ x - y < 7/20 then 3 else if y < x then 5 else 4

def poly (k : Nat) : List Pt := ((Spec.phasePolygons.getD (k - 1) []).map toPt)

theorem poly1 : poly 1 = [(0, 0), (0, 1/4), (1/4, 0)] := by
  simp [poly, Spec.phasePolygons, toPt]
theorem poly2 : poly 2 = [(0, 1/4), (0, 7/20), (7/20, 0), (1/4, 0)] := by
  simp [poly, Spec.phasePolygons, toPt]
theorem poly3 : poly 3 = [(0, 7/20), (13/40, 27/40), (27/40, 13/40), (7/20, 0)] := by
  simp [poly, Spec.phasePolygons, toPt]
theorem poly4 : poly 4 = [(0, 7/20), (0, 1), (13/40, 27/40)] := by
  simp [poly, Spec.phasePolygons, toPt]
theorem poly5 : poly 5 = [(7/20, 0), (27/40, 13/40), (1, 0)] := by
  simp [poly, Spec.phasePolygons, toPt]

theorem edges3 (a b c : Pt) : edgesOf [a, b, c] = [(a, b), (b, c), (c, a)] := rfl
theorem edges4 (a b c d : Pt) : edgesOf [a, b, c, d] = [(a, b), (b, c), (c, d), (d, a)] := rfl
theorem edges5 (a b c d e : Pt) : edgesOf [a, b, c, d, e] = [(a, b), (b, c), (c, d), (d, e), (e, a)] := rfl

/-- **a marker lies inside the region whose number the sequence is assigned** — for every point of the
    composition simplex, i.e. for every composition of every length -/
theorem region_in_polygon (x y : Rat) (hx : 0 ≤ x) (hy : 0 ≤ y) (h1 : x + y ≤ 1) :
    inPoly (poly (regionXY x y)) (x, y) := by
  unfold regionXY inPoly
  split_ifs with a b c d
  · rw [poly1, edges3]; left
    simp only [List.forall_mem_cons, List.not_mem_nil, false_imp_iff, implies_true, and_true, cross]
    refine ⟨?_, ?_, ?_⟩ <;> norm_num <;> linarith
  · rw [poly2, edges4]; left
    simp only [List.forall_mem_cons, List.not_mem_nil, false_imp_iff, implies_true, and_true, cross]
    refine ⟨?_, ?_, ?_, ?_⟩ <;> norm_num <;> linarith
  · rw [poly3, edges4]; left
    simp only [List.forall_mem_cons, List.not_mem_nil, false_imp_iff, implies_true, and_true, cross]
    refine ⟨?_, ?_, ?_, ?_⟩ <;> norm_num <;> linarith [c.1, c.2]
  · rw [poly5, edges3]; left
    have hc : 7/20 ≤ x - y := by
      by_contra hh
      exact c ⟨by linarith, by linarith⟩
    simp only [List.forall_mem_cons, List.not_mem_nil, false_imp_iff, implies_true, and_true, cross]
    refine ⟨?_, ?_, ?_⟩ <;> norm_num <;> linarith
  · rw [poly4, edges3]; left
    have hc : x - y ≤ -7/20 := by
      by_contra hh
      exact c ⟨by linarith, by linarith⟩
    simp only [List.forall_mem_cons, List.not_mem_nil, false_imp_iff, implies_true, and_true, cross]
    refine ⟨?_, ?_, ?_⟩ <;> norm_num <;> linarith

/-- conversely a point strictly inside polygon k is assigned region k -/
theorem interior_polygon_region (x y : Rat) (k : Nat) (hk : 1 ≤ k ∧ k ≤ 5)
    (h : strictlyInPoly (poly k) (x, y)) : regionXY x y = k := by
  obtain ⟨h1, h5⟩ := hk
  unfold strictlyInPoly at h
  have hcases : k = 1 ∨ k = 2 ∨ k = 3 ∨ k = 4 ∨ k = 5 := by omega
  unfold regionXY
  rcases hcases with rfl | rfl | rfl | rfl | rfl
  · rw [poly1, edges3] at h
    simp only [List.forall_mem_cons, List.not_mem_nil, false_imp_iff, implies_true, and_true, cross] at h
    norm_num at h
    rcases h with ⟨a, b, c⟩ | ⟨a, b, c⟩
    · rw [if_pos (by linarith)]
    · exfalso; linarith
  · rw [poly2, edges4] at h
    simp only [List.forall_mem_cons, List.not_mem_nil, false_imp_iff, implies_true, and_true, cross] at h
    norm_num at h
    rcases h with ⟨a, b, c, d⟩ | ⟨a, b, c, d⟩
    · rw [if_neg (by linarith), if_pos (by linarith)]
    · exfalso; linarith
  · rw [poly3, edges4] at h
    simp only [List.forall_mem_cons, List.not_mem_nil, false_imp_iff, implies_true, and_true, cross] at h
    norm_num at h
    rcases h with ⟨a, b, c, d⟩ | ⟨a, b, c, d⟩
    · rw [if_neg (by linarith), if_neg (by linarith), if_pos ⟨by linarith, by linarith⟩]
    · exfalso; linarith
  · rw [poly4, edges3] at h
    simp only [List.forall_mem_cons, List.not_mem_nil, false_imp_iff, implies_true, and_true, cross] at h
    norm_num at h
    rcases h with ⟨a, b, c⟩ | ⟨a, b, c⟩
    · rw [if_neg (by linarith), if_neg (by linarith), if_neg (by intro hh; linarith [hh.1, hh.2]), if_neg (by linarith)]
    · exfalso; linarith
  · rw [poly5, edges3] at h
    simp only [List.forall_mem_cons, List.not_mem_nil, false_imp_iff, implies_true, and_true, cross] at h
    norm_num at h
    rcases h with ⟨a, b, c⟩ | ⟨a, b, c⟩
    · rw [if_neg (by linarith), if_neg (by linarith), if_neg (by intro hh; linarith [hh.1, hh.2]), if_pos (by linarith)]
    · exfalso; linarith

/-- the five polygons cover the composition simplex (every admissible (f+, f−) lies in one of them) -/
theorem polygons_cover_simplex (x y : Rat) (hx : 0 ≤ x) (hy : 0 ≤ y) (h1 : x + y ≤ 1) :
    ∃ k, 1 ≤ k ∧ k ≤ 5 ∧ inPoly (poly k) (x, y) := by
  refine ⟨regionXY x y, ?_, ?_, region_in_polygon x y hx hy h1⟩ <;> (unfold regionXY; split_ifs <;> omega)

/-- the region function of C08 on counts is `regionXY` of (f+, f−) -/
theorem regionDef_eq_regionXY (np nn N : Nat) (hN : 0 < N) :
    Spec.regionDef np nn N = regionXY ((np : Rat) / N) ((nn : Rat) / N) := by
  have hNq : (0 : Rat) < (N : Rat) := by exact_mod_cast hN
  have e1 : (((np + nn : Nat) : Rat)) / (N : Rat) = (np : Rat) / N + (nn : Rat) / N := by push_cast; ring
  have e2 : ((np : Rat) - (nn : Rat)) / (N : Rat) = (np : Rat) / N - (nn : Rat) / N := by ring
  have e3 : (nn < np) ↔ ((nn : Rat) / (N : Rat) < (np : Rat) / (N : Rat)) := by
    rw [div_lt_div_iff_of_pos_right hNq]; exact_mod_cast Iff.rfl
  unfold Spec.regionDef regionXY
  simp only [e1, e2, e3]

/-- the two Uversky patches cover the unit square of (mean net charge, hydropathy) -/
theorem uversky_polygons_cover (x y : Rat) (hx : 0 ≤ x) (hx1 : x ≤ 1) (hy : 0 ≤ y) (hy1 : y ≤ 1) :
    inPoly ((Spec.uverskyPolygons.getD 0 []).map toPt) (x, y) ∨ inPoly ((Spec.uverskyPolygons.getD 1 []).map toPt) (x, y) := by
  have p0 : (Spec.uverskyPolygons.getD 0 []).map toPt = [(0, 1), (0, 413/1000), (193/250, 1)] := by
    simp [Spec.uverskyPolygons, toPt]
  have p1 : (Spec.uverskyPolygons.getD 1 []).map toPt = [(0, 0), (0, 413/1000), (193/250, 1), (1, 1), (1, 0)] := by
    simp [Spec.uverskyPolygons, toPt]
  rw [p0, p1]
  unfold inPoly
  rw [edges3, edges5]
  simp only [List.forall_mem_cons, List.not_mem_nil, false_imp_iff, implies_true, and_true, cross]
  norm_num
  by_cases hline : (1 - 413/1000) * x ≤ (193/250) * (y - 413/1000)
  · left; right
    refine ⟨?_, ?_, ?_⟩ <;> nlinarith
  · right; left
    refine ⟨?_, ?_, ?_, ?_, ?_⟩ <;> nlinarith

end Cider.C19
