/-
  Cider.Props.C10Src — source-text tie for C10: the integer bookkeeping at the head of each of the six
  sliding-window profile functions (`nblobs`, `flank`, `flank_start`, `flank_end`), translated from the
  live SOURCE on every run, is the model's `flanks` / window count for every legal window — all six
  copies of that code, separately.
-/
import Cider.Gen.Decisions
import Cider.Model.Profiles
import Mathlib.Tactic.Push
namespace Cider.C10Src
open Cider

/-- what the model says the prefix computes -/
def expected (w N : Nat) : Except Unit (Int × Int × Int) :=
  .ok (((flanks w N).1 : Int), ((flanks w N).2 : Int), ((N + 1 - w : Nat) : Int))

theorem tdiv_two (w : Nat) : Int.tdiv (w : Int) 2 = ((w / 2 : Nat) : Int) := by
  rw [Int.tdiv_eq_ediv_of_nonneg (by omega)]; omega

/-- the shape all six copies have today -/
def shape (bloblen len : Int) : Except Unit (Int × Int × Int) :=
  let nblobs : Int := ((len - bloblen) + (1 : Int))
  let flank : Int := (Int.tdiv bloblen (2 : Int))
  if ((((2 : Int) * flank) + nblobs) = len) then .ok (flank, flank, nblobs) else .ok (flank - 1, flank, nblobs)

theorem shape_eq (w N : Nat) (hw : 1 ≤ w) (hN : w ≤ N) : shape w N = expected w N := by
  unfold shape expected flanks
  simp only [tdiv_two]
  by_cases h : 2 * (w / 2) + (N + 1 - w) = N
  · have h' : (2 : Int) * ((w / 2 : Nat) : Int) + ((N : Int) - (w : Int) + 1) = (N : Int) := by omega
    rw [if_pos h', if_pos h]
    congr 2; congr 1; omega
  · have h' : ¬ (2 : Int) * ((w / 2 : Nat) : Int) + ((N : Int) - (w : Int) + 1) = (N : Int) := by omega
    rw [if_neg h', if_neg h]
    congr 2
    · simp only; omega
    · congr 1; omega

theorem flanksNCPR_eq (w N : Nat) (hw : 1 ≤ w) (hN : w ≤ N) : Gen.flanksNCPR w N = expected w N :=
  (show Gen.flanksNCPR w N = shape w N from rfl).trans (shape_eq w N hw hN)
theorem flanksFCR_eq (w N : Nat) (hw : 1 ≤ w) (hN : w ≤ N) : Gen.flanksFCR w N = expected w N :=
  (show Gen.flanksFCR w N = shape w N from rfl).trans (shape_eq w N hw hN)
theorem flanksSigma_eq (w N : Nat) (hw : 1 ≤ w) (hN : w ≤ N) : Gen.flanksSigma w N = expected w N :=
  (show Gen.flanksSigma w N = shape w N from rfl).trans (shape_eq w N hw hN)
theorem flanksHydro_eq (w N : Nat) (hw : 1 ≤ w) (hN : w ≤ N) : Gen.flanksHydro w N = expected w N :=
  (show Gen.flanksHydro w N = shape w N from rfl).trans (shape_eq w N hw hN)
theorem flanksHydro2_eq (w N : Nat) (hw : 1 ≤ w) (hN : w ≤ N) : Gen.flanksHydro2 w N = expected w N :=
  (show Gen.flanksHydro2 w N = shape w N from rfl).trans (shape_eq w N hw hN)
theorem flanksDensity_eq (w N : Nat) (x : Int) (hw : 1 ≤ w) (hN : w ≤ N) : Gen.flanksDensity w x N = expected w N :=
  (show Gen.flanksDensity w x N = shape w N from rfl).trans (shape_eq w N hw hN)

/-- consequence used by C10: leading flank ⌊(w-1)/2⌋, trailing flank ⌊w/2⌋, N-w+1 windows — from the source text -/
theorem source_flanks (w N : Nat) (hw : 1 ≤ w) (hN : w ≤ N) :
    Gen.flanksNCPR w N = .ok ((((w - 1) / 2 : Nat) : Int), ((w / 2 : Nat) : Int), ((N - w + 1 : Nat) : Int)) := by
  rw [flanksNCPR_eq w N hw hN]
  unfold expected flanks
  by_cases h : 2 * (w / 2) + (N + 1 - w) = N
  · rw [if_pos h]; congr 2
    · congr 1; simp only; omega
    · congr 1; omega
  · rw [if_neg h]; congr 2
    · congr 1; simp only; omega
    · congr 1; omega

end Cider.C10Src
