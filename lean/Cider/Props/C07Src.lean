/-
  Cider.Props.C07Src — source-text tie for C07: the index arithmetic of the double loop of
  `Sequence.sequence_charge_decoration` (range bounds, the two subscripts into `chargePattern`, the distance under
  the root, the exponent, the final denominator), as `tools/pyexpr2lean.py` translates it from the live SOURCE on
  every run (Gen/Decisions.lean), enumerates for EVERY length exactly the (index, index, distance) triples the model
  `scdLoop` (Real/Scd.lean, the object of the C07 theorems) enumerates, in the same order, with exponent 1/2 and
  denominator N.  A changed bound (`range(1, self.len+1)`, `range(1, m+1)`, `range(0, m)`), subscript (`m`, `n`),
  distance (`m-n+1`), exponent or denominator (`self.len-1`) breaks a proof here.
  `scd_of_source_triples`: `scdLoop p` IS the sum of q[i]·q[j]·√dist over the triples the SOURCE's nest visits, over the source's denominator.
-/
import Cider.Gen.Decisions
import Cider.Real.Scd
namespace Cider.C07Src
open Cider

/-- Python's `range(lo, hi)` for a non-negative `lo` -/
def pyRange (lo hi : Int) : List Int := (List.range' lo.toNat (hi - lo).toNat).map Int.ofNat

/-- the triples (first subscript, second subscript, distance) the SOURCE's loop nest visits, in order -/
def srcTriples (N : Nat) : List (Int × Int × Int) :=
  (pyRange (Gen.scdNestOuterLo N) (Gen.scdNestOuterHi N)).flatMap (fun m =>
    (pyRange (Gen.scdNestInnerLo m N) (Gen.scdNestInnerHi m N)).map (fun n =>
      (Gen.scdNestIdxA m n N, Gen.scdNestIdxB m n N, Gen.scdNestDist m n N)))

/-- the triples `scdLoop` visits: `m` over `range' 2 (N-1)`, `n` over `range' 1 (m-1)`, factors `q[m-1] q[n-1] √(m-n)` -/
def modelTriples (N : Nat) : List (Int × Int × Int) :=
  (List.range' 2 (N - 1)).flatMap (fun m =>
    (List.range' 1 (m - 1)).map (fun (n : Nat) => ((m : Int) - 1, (n : Int) - 1, (m : Int) - (n : Int))))

theorem pyRange_nat (lo : Nat) (hi : Nat) : pyRange lo hi = (List.range' lo (hi - lo)).map Int.ofNat := by
  unfold pyRange
  congr 2
  omega

/-- the source's loop nest visits exactly the model's triples, for every length -/
theorem triples_eq (N : Nat) : srcTriples N = modelTriples N := by
  unfold srcTriples modelTriples Gen.scdNestOuterLo Gen.scdNestOuterHi Gen.scdNestInnerLo Gen.scdNestInnerHi
    Gen.scdNestIdxA Gen.scdNestIdxB Gen.scdNestDist
  have h1 : pyRange (2 : Int) ((N : Int) + 1) = (List.range' 2 (N - 1)).map Int.ofNat := by
    have := pyRange_nat 2 (N + 1)
    simpa using this
  rw [h1, List.flatMap_map]
  congr 1
  funext m
  have h2 : pyRange (1 : Int) (Int.ofNat m) = (List.range' 1 (m - 1)).map Int.ofNat := by
    have := pyRange_nat 1 m
    simpa using this
  rw [h2, List.map_map]
  rfl

/-- all visited subscripts are inside the sequence and every distance is positive: no wrap-around through a negative
    Python index, no `sqrt` of a non-positive number -/
theorem triples_in_range (N : Nat) : ∀ t ∈ srcTriples N, 0 ≤ t.2.1 ∧ t.2.1 < t.1 ∧ t.1 < N ∧ t.2.2 = t.1 - t.2.1 ∧ 0 < t.2.2 := by
  rw [triples_eq]
  unfold modelTriples
  intro t ht
  simp only [List.mem_flatMap, List.mem_map, List.mem_range'_1] at ht
  obtain ⟨m, hm, n, hn, rfl⟩ := ht
  simp only
  omega

/-- exponent 1/2 (a square root) and the final division by the sequence length -/
theorem exp_denom_eq : Gen.scdNestExp = 1 / 2 ∧ ∀ N : Int, Gen.scdNestDenom N = N := ⟨rfl, fun _ => rfl⟩

/-- non-vacuity: a five-residue chain visits ten pairs, the last one (4, 3, 1) -/
example : (srcTriples 5).length = 10 ∧ (srcTriples 5).getLast? = some (4, 3, 1) := by decide

/-! ### closing the chain source text → `scdLoop` (the object of every C07 theorem) -/

/-- one term of the sum, from a visited triple -/
noncomputable def term (p : Pattern) (t : Int × Int × Int) : ℝ :=
  qAt p t.1.toNat * qAt p t.2.1.toNat * Real.sqrt ((t.2.2.toNat : ℝ))

theorem sum_map_flatMap {α β : Type} (L : List α) (f : α → List β) (G : β → ℝ) :
    ((L.flatMap f).map G).sum = (L.map (fun a => ((f a).map G).sum)).sum := by
  induction L with
  | nil => simp
  | cons a L ih => simp [List.flatMap_cons, ih]

/-- `scdLoop` is the sum over `modelTriples` -/
theorem scdLoop_eq_sum_modelTriples (p : Pattern) :
    scdLoop p = ((modelTriples p.length).map (term p)).sum / (p.length : ℝ) := by
  unfold scdLoop modelTriples
  congr 1
  have inner : ∀ (m : Nat) (tot : ℝ),
      (List.range' 1 (m - 1)).foldl (fun t n => t + qAt p (m - 1) * qAt p (n - 1) * Real.sqrt (((m - n : Nat) : ℝ))) tot
      = tot + ((List.range' 1 (m - 1)).map (fun n => qAt p (m - 1) * qAt p (n - 1) * Real.sqrt (((m - n : Nat) : ℝ)))).sum := by
    intro m tot
    rw [foldl_add_real (fun n => qAt p (m - 1) * qAt p (n - 1) * Real.sqrt (((m - n : Nat) : ℝ)))]
  simp only [inner]
  rw [foldl_add_real (fun m => ((List.range' 1 (m - 1)).map (fun n => qAt p (m - 1) * qAt p (n - 1) * Real.sqrt (((m - n : Nat) : ℝ)))).sum),
    zero_add, sum_map_flatMap]
  congr 1
  apply List.map_congr_left
  intro m _
  rw [List.map_map]
  congr 1
  apply List.map_congr_left
  intro n _
  simp only [Function.comp, term]
  have h1 : ((m : Int) - 1).toNat = m - 1 := by omega
  have h2 : ((n : Int) - 1).toNat = n - 1 := by omega
  have h3 : ((m : Int) - (n : Int)).toNat = m - n := by omega
  rw [h1, h2, h3]

/-- SCD, as every C07 theorem knows it, is determined by the loop nest the SOURCE TEXT spells out today -/
theorem scd_of_source_triples (p : Pattern) :
    scdLoop p = ((srcTriples p.length).map (term p)).sum / ((Gen.scdNestDenom p.length : Int) : ℝ) := by
  rw [triples_eq, scdLoop_eq_sum_modelTriples]
  simp [Gen.scdNestDenom]


end Cider.C07Src
