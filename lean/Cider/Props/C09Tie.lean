/-
  C09 (tie) — the pKa table, the titration classes and the half-titration points probed from the live
  `charge_at_pH` on this run are the documented EMBOSS values.
-/
import Cider.Spec.Published
import Cider.Gen.Tables
namespace Cider.C09
open Cider

/-- documented EMBOSS pKa values: C 8.5, Y 10.1, H 6.5, E 4.1, D 3.9, K 10.0, R 12.5 -/
def embossPKa : AA → Option (Int × Nat)
  | .C => some (17, 2) | .Y => some (101, 10) | .H => some (13, 2) | .E => some (41, 10)
  | .D => some (39, 10) | .K => some (10, 1) | .R => some (25, 2) | _ => none

theorem gen_pKa_eq_emboss :
    Gen.pKaND = embossPKa ∧ Spec.pKaND = embossPKa ∧ Gen.halfPointND = embossPKa := by
  refine ⟨?_, ?_, ?_⟩ <;> (funext a; cases a <;> rfl)

/-- K, R, H titrate as bases (+1 → 0), D, E, C, Y as acids (0 → −1), nothing else titrates —
    as probed from the live `charge_at_pH` at the two ends of the pH axis -/
theorem gen_titration_classes :
    Gen.titrClass = Spec.titrClass ∧
    ∀ a, Spec.titrClass a = (if a = .K ∨ a = .R ∨ a = .H then 1 else if a = .D ∨ a = .E ∨ a = .C ∨ a = .Y then -1 else 0) := by
  constructor
  · funext a; cases a <;> rfl
  · intro a; cases a <;> rfl

end Cider.C09
