/-
  Cider.Props.C16Src — source-text tie for C16: the per-site decision in the loop of `Sequence.setPhosPhoSites`
  (index shift, range test, S/T/Y test, duplicate test, what gets appended) and the letter lists of
  `setPhosPhoSites` / `get_STY_residues`, as `tools/pyexpr2lean.py` translates them from the live SOURCE on every
  run (Gen/Decisions.lean), are the model's `Obj.setSite` / `isSTY` for EVERY object and EVERY requested site.
  A changed range test (`idx > len`, `idx <= 0`), index shift, letter set, dropped duplicate test or an append of
  `site` instead of `idx` breaks a proof here.
-/
import Cider.Gen.Decisions
import Cider.Model.Object
namespace Cider.C16Src
open Cider

/-- both letter lists are exactly the phosphorylatable residues S/T/Y (order irrelevant) -/
theorem letters_eq (a : AA) :
    decide (a.toChar ∈ Gen.setSiteSrcLetters) = isSTY a ∧ decide (a.toChar ∈ Gen.stySrcLetters) = isSTY a := by
  cases a <;> decide

/-- apply what the translated loop body decided -/
def applyDecision (o : Obj) (r : Except Unit (Option Int)) : Obj :=
  match r with
  | .ok (some i) => { o with phos := o.phos ++ [i.toNat] }
  | _ => o

/-- one pass of the source's loop body IS `Obj.setSite`, for every object and every integer site -/
theorem setSite_eq (o : Obj) (site : Int) :
    Obj.setSite o site =
      applyDecision o (Gen.setSiteSrc site o.seq.length (residueIsSTY o.seq (site - 1).toNat)
        (decide ((site - 1).toNat ∈ o.phos))) := by
  unfold Obj.setSite Gen.setSiteSrc applyDecision Obj.addSite
  by_cases h1 : site - 1 < 0 ∨ (o.seq.length : Int) ≤ site - 1
  · have h1' : (site - 1 ≥ (o.seq.length : Int)) ∨ (site - 1 < 0) := by omega
    simp [h1, h1']
  · have h1' : ¬ ((site - 1 ≥ (o.seq.length : Int)) ∨ (site - 1 < 0)) := by omega
    simp only [h1, h1', if_false]
    generalize hk : (site - 1).toNat = k
    cases hs : residueIsSTY o.seq k <;> by_cases hm : k ∈ o.phos <;> simp [hm]
    omega

/-- the whole call: folding the source's loop body over the requested sites is `Obj.setPhos` -/
theorem setPhos_eq (o : Obj) (sites : List Int) :
    Obj.setPhos o sites =
      sites.foldl (fun o site => applyDecision o (Gen.setSiteSrc site o.seq.length
        (residueIsSTY o.seq (site - 1).toNat) (decide ((site - 1).toNat ∈ o.phos)))) o := by
  unfold Obj.setPhos
  congr 1
  funext o site
  exact setSite_eq o site

/-- what the source appends is always an in-range, not yet listed index of an S/T/Y residue -/
theorem appended_ok (site len : Int) (b1 b2 : Bool) (i : Int) (h : Gen.setSiteSrc site len b1 b2 = .ok (some i)) :
    i = site - 1 ∧ 0 ≤ i ∧ i < len ∧ b1 = true ∧ b2 = false := by
  unfold Gen.setSiteSrc at h
  by_cases h1 : (site - 1 ≥ len) ∨ (site - 1 < 0)
  · simp [h1] at h
  · cases b1 <;> cases b2 <;> simp [h1] at h
    exact ⟨by omega, by omega, by omega, rfl, rfl⟩

end Cider.C16Src
