/-
  C09 (second part) — `get_isoelectric_point()` never raises.

  Part A is generic: for ANY charge function `f` that is antitone, has a point `r ∈ [0, 24]` with
  `|f r| ≤ thr/2` and varies by at most `thr/2` within `1/256` of `r`, the bisection with bracket
  widening returns a pH (it never reaches its "PLEASE report this error" exit and never runs out
  of fuel).  Part B shows that the normalised Henderson–Hasselbalch charge of EVERY sequence is
  such a function, whenever the basic pKa values are ≤ 13 and the acidic ones ≥ 2 (checked for the
  published EMBOSS table and for the table regenerated from the live code).

  ONLY property theorems and the invariant they need.
-/
import Cider.Props.C09
import Cider.Props.C09Tie
import Mathlib.Tactic.Ring
import Mathlib.Tactic.FieldSimp
import Mathlib.Tactic.NormNum
import Mathlib.Tactic.Push

namespace Cider.C09
open Cider PH

/-! ### Part A: the loop invariant -/

/-- invariant between two trips of the `while True` loop -/
def PiInv (thr r : ℝ) (st : PIState ℝ) : Prop :=
  st.lo ≤ r ∧ st.lo ≤ st.hi ∧ st.hi - st.lo ≤ 14 / 2 ^ st.breakcount ∧ st.breakcount ≤ 19 ∧ st.errorcount ≤ 10 ∧
  ((r ≤ st.hi ∧ st.breakcount ≤ 11) ∨
   (st.hi < r ∧ st.hi = 14 + (st.errorcount : ℝ) ∧ ((st.breakcount = 0 ∧ st.errorcount = 0) ∨ thr < st.last)))

/-- invariant between the escape clause and the bisection step of one trip -/
def PiMid (r : ℝ) (st : PIState ℝ) : Prop :=
  st.lo ≤ r ∧ st.lo ≤ st.hi ∧ st.hi - st.lo ≤ 28 / 2 ^ st.breakcount ∧ st.breakcount ≤ 19 ∧ st.errorcount ≤ 10 ∧
  ((r ≤ st.hi ∧ st.breakcount ≤ 12) ∨ (st.hi < r ∧ st.hi = 14 + (st.errorcount : ℝ)))

theorem piInit_inv (thr r : ℝ) (h0 : 0 ≤ r) : PiInv thr r (piInit : PIState ℝ) := by
  unfold PiInv piInit
  simp only [RealLike.ofRat, zero]
  refine ⟨by simpa using h0, by norm_num, by norm_num, by norm_num, by norm_num, ?_⟩
  by_cases h : r ≤ 14
  · left; exact ⟨by simpa using h, by norm_num⟩
  · right; push Not at h; exact ⟨by simpa using h, by norm_num, Or.inl (by simp)⟩

theorem two_pow_succ_div (n : Nat) : (28 : ℝ) / 2 ^ (n + 1) = 14 / 2 ^ n := by
  rw [pow_succ]; field_simp; ring

/-- the escape clause never raises under the invariant, and establishes the mid-trip invariant -/
theorem piEscape_inv (thr r : ℝ) (hthr : 0 < thr) (hr : r ≤ 24) (st : PIState ℝ) (h : PiInv thr r st) :
    ∃ st1, piEscape st = .inl st1 ∧ PiMid r st1 := by
  obtain ⟨hlo, hlh, hw, hb, he, hd⟩ := h
  unfold piEscape
  by_cases h20 : st.breakcount + 1 = 20
  · rw [if_pos h20]
    have hbc : st.breakcount = 19 := by omega
    rcases hd with ⟨_, hb11⟩ | ⟨hlt, hhi, hlast⟩
    · omega
    · have hlast' : thr < st.last := by
        rcases hlast with ⟨hb0, _⟩ | hl
        · omega
        · exact hl
      have herr : st.errorcount ≠ 10 := by
        intro h10
        rw [h10] at hhi
        have : st.hi = 24 := by rw [hhi]; norm_num
        linarith
      rw [if_neg herr]
      have hpos : RealLike.ltB (zero : ℝ) st.last = true := by
        simp only [RealLike.ltB, zero, RealLike.ofRat]
        have : (0 : ℝ) < st.last := lt_trans hthr hlast'
        simpa using this
      rw [if_pos hpos]
      refine ⟨_, rfl, ?_⟩
      unfold PiMid
      simp only [one, RealLike.ofRat]
      have hw19 : st.hi - st.lo ≤ 14 := by
        have : (14 : ℝ) / 2 ^ st.breakcount ≤ 14 := by
          apply div_le_self (by norm_num)
          exact one_le_pow₀ (by norm_num)
        linarith
      refine ⟨hlo, by push_cast; linarith, by push_cast; norm_num; linarith, by norm_num, by omega, ?_⟩
      by_cases hbr : r ≤ st.hi + 1
      · left; exact ⟨by push_cast; linarith, by norm_num⟩
      · right; push Not at hbr
        refine ⟨by push_cast; linarith, ?_⟩
        push_cast; rw [hhi]; ring
  · rw [if_neg h20]
    refine ⟨_, rfl, ?_⟩
    unfold PiMid
    simp only []
    refine ⟨hlo, hlh, by rw [two_pow_succ_div]; exact hw, by omega, he, ?_⟩
    rcases hd with ⟨hbr, hb11⟩ | ⟨hlt, hhi, _⟩
    · left; exact ⟨hbr, by omega⟩
    · right; exact ⟨hlt, hhi⟩

/-- the bisection step returns a pH or re-establishes the loop invariant -/
theorem piBisect_inv (f : ℝ → ℝ) (thr r : ℝ) (hthr : 0 < thr) (hanti : Antitone f)
    (hfr : |f r| ≤ thr / 2) (hmod : ∀ x, |x - r| ≤ 1 / 256 → |f x - f r| ≤ thr / 2)
    (st1 : PIState ℝ) (h : PiMid r st1) :
    (∃ x, piBisect f thr st1 = .inr (.ok x)) ∨ (∃ st2, piBisect f thr st1 = .inl st2 ∧ PiInv thr r st2) := by
  obtain ⟨hlo, hlh, hw, hb, he, hd⟩ := h
  have hfr' := abs_le.mp hfr
  unfold piBisect
  simp only [RealLike.ofRat, RealLike.ltB, decide_eq_true_eq]
  set mid : ℝ := ((1 / 2 : ℚ) : ℝ) * (st1.hi + st1.lo) with hmid
  have hmid' : mid = (st1.hi + st1.lo) / 2 := by rw [hmid]; push_cast; ring
  have hpow : (0 : ℝ) < 2 ^ st1.breakcount := by positivity
  have hhalf : (28 : ℝ) / 2 ^ st1.breakcount / 2 = 14 / 2 ^ st1.breakcount := by field_simp; ring
  by_cases h1 : thr < f mid
  · -- lo := mid
    rw [if_pos h1]
    right
    refine ⟨_, rfl, ?_⟩
    have hmr : mid < r := by
      by_contra hc
      push Not at hc
      have := hanti hc
      linarith
    unfold PiInv
    simp only []
    refine ⟨le_of_lt hmr, by rw [hmid']; linarith, by rw [hmid', ← hhalf]; linarith, hb, he, ?_⟩
    rcases hd with ⟨hbr, hb12⟩ | ⟨hlt, hhi⟩
    · left
      refine ⟨hbr, ?_⟩
      by_contra hc
      have hb12' : st1.breakcount = 12 := by omega
      -- the bracket is so small that mid is within 1/256 of r: contradiction with thr < f mid
      rw [hb12'] at hw
      have hclose : |mid - r| ≤ 1 / 256 := by
        rw [abs_le]; constructor
        · rw [hmid']; norm_num at hw; linarith
        · linarith
      have := abs_le.mp (hmod mid hclose)
      linarith
    · right; exact ⟨hlt, hhi, Or.inr h1⟩
  · rw [if_neg h1]
    by_cases h2 : f mid < -thr
    · -- hi := mid
      rw [if_pos h2]
      right
      refine ⟨_, rfl, ?_⟩
      have hmr : r < mid := by
        by_contra hc
        push Not at hc
        have := hanti hc
        linarith
      unfold PiInv
      simp only []
      refine ⟨hlo, by rw [hmid']; linarith, by rw [hmid', ← hhalf]; linarith, hb, he, ?_⟩
      rcases hd with ⟨hbr, hb12⟩ | ⟨hlt, hhi⟩
      · left
        refine ⟨le_of_lt hmr, ?_⟩
        by_contra hc
        have hb12' : st1.breakcount = 12 := by omega
        rw [hb12'] at hw
        have hclose : |mid - r| ≤ 1 / 256 := by
          rw [abs_le]; constructor
          · linarith
          · rw [hmid']; norm_num at hw; linarith
        have := abs_le.mp (hmod mid hclose)
        linarith
      · -- impossible: mid ≤ hi < r
        exfalso
        have : mid ≤ st1.hi := by rw [hmid']; linarith
        linarith
    · rw [if_neg h2]
      left; exact ⟨_, rfl⟩

/-- one trip: returns a pH, or continues under the invariant — never the error exit -/
theorem piStep_inv (f : ℝ → ℝ) (thr r : ℝ) (hthr : 0 < thr) (hr : r ≤ 24) (hanti : Antitone f)
    (hfr : |f r| ≤ thr / 2) (hmod : ∀ x, |x - r| ≤ 1 / 256 → |f x - f r| ≤ thr / 2)
    (st : PIState ℝ) (h : PiInv thr r st) :
    (∃ x, piStep f thr st = .inr (.ok x)) ∨ (∃ st', piStep f thr st = .inl st' ∧ PiInv thr r st') := by
  obtain ⟨st1, he1, hm1⟩ := piEscape_inv thr r hthr hr st h
  unfold piStep
  rw [he1]
  exact piBisect_inv f thr r hthr hanti hfr hmod st1 hm1

theorem piLoop_no_error (f : ℝ → ℝ) (thr r : ℝ) (hthr : 0 < thr) (hr : r ≤ 24) (hanti : Antitone f)
    (hfr : |f r| ≤ thr / 2) (hmod : ∀ x, |x - r| ≤ 1 / 256 → |f x - f r| ≤ thr / 2)
    (fuel : Nat) (st : PIState ℝ) (h : PiInv thr r st) (e : Err) :
    piLoop f thr fuel st ≠ some (.error e) := by
  induction fuel generalizing st with
  | zero => simp [piLoop]
  | succ n ih =>
    unfold piLoop
    rcases piStep_inv f thr r hthr hr hanti hfr hmod st h with ⟨x, hx⟩ | ⟨st', hs, hi⟩
    · rw [hx]; simp
    · rw [hs]; exact ih st' hi

/-- **Part A**: for every antitone charge function with a near-neutral point in [0, 24] around which it
    varies slowly, the pI search returns a pH at which the charge is within the threshold of zero. -/
theorem pi_returns_of (f : ℝ → ℝ) (thr r : ℝ) (hthr : 0 < thr) (h0 : 0 ≤ r) (hr : r ≤ 24) (hanti : Antitone f)
    (hfr : |f r| ≤ thr / 2) (hmod : ∀ x, |x - r| ≤ 1 / 256 → |f x - f r| ≤ thr / 2) :
    ∃ x, piLoop f thr 230 piInit = some (.ok x) ∧ |f x| ≤ thr := by
  have hne := pi_fuel_suffices f thr
  have hinv := piInit_inv thr r h0
  cases hres : piLoop f thr 230 (piInit : PIState ℝ) with
  | none => exact absurd hres hne
  | some res =>
    cases res with
    | error e => exact absurd hres (piLoop_no_error f thr r hthr hr hanti hfr hmod 230 piInit hinv e)
    | ok x =>
      refine ⟨x, rfl, ?_⟩
      exact pi_result_sound f thr 230 piInit (by simp [piInit]) (by simp [piInit]) x hres


/-! ### Part B: the Henderson–Hasselbalch charge of every sequence satisfies the hypotheses of Part A -/

/-- what Part B needs from the pKa table: basic groups have pKa ≤ 13, acidic groups pKa ≥ 2 -/
def TableOK (tt : Titration) : Prop :=
  ∀ a, (tt.cls a = 1 → tt.pKa a ≤ 13) ∧ (tt.cls a = -1 → 2 ≤ tt.pKa a)

theorem ten_rpow_small : (10 : ℝ) ^ ((1 : ℝ) / 256) ≤ 101 / 100 := by
  have h1 : (10 : ℝ) ≤ ((101 : ℝ) / 100) ^ (256 : ℕ) := by norm_num
  have h2 : (10 : ℝ) ^ ((1 : ℝ) / 256) ≤ (((101 : ℝ) / 100) ^ (256 : ℕ)) ^ ((1 : ℝ) / 256) :=
    Real.rpow_le_rpow (by norm_num) h1 (by norm_num)
  have h3 : (((101 : ℝ) / 100) ^ (256 : ℕ)) ^ ((1 : ℝ) / 256) = 101 / 100 := by
    have := Real.pow_rpow_inv_natCast (x := (101 : ℝ) / 100) (by norm_num) (n := 256) (by norm_num)
    simpa using this
  linarith [h3 ▸ h2]

/-- a logistic titration curve moves by at most 1/100 over a pH step of 1/256 -/
theorem sigma_mod (u v : ℝ) (h : |u - v| ≤ 1 / 256) :
    |1 / (1 + (10 : ℝ) ^ u) - 1 / (1 + (10 : ℝ) ^ v)| ≤ 1 / 100 := by
  wlog huv : u ≤ v generalizing u v
  · rw [abs_sub_comm]
    exact this v u (by rwa [abs_sub_comm]) (by linarith)
  have h10 : (1 : ℝ) < 10 := by norm_num
  set A : ℝ := (10 : ℝ) ^ u with hA
  set t : ℝ := (10 : ℝ) ^ (v - u) with ht
  have hApos : 0 < A := by positivity
  have hB : (10 : ℝ) ^ v = A * t := by
    rw [hA, ht, ← Real.rpow_add (by norm_num)]; congr 1; ring
  have ht1 : 1 ≤ t := Real.one_le_rpow (by norm_num) (by linarith)
  have ht2 : t ≤ 101 / 100 := by
    have hd : v - u ≤ 1 / 256 := by
      have := (abs_le.mp h).1; linarith
    exact le_trans ((Real.rpow_le_rpow_left_iff h10).mpr hd) ten_rpow_small
  rw [hB]
  have hpos1 : 0 < 1 + A := by linarith
  have hpos2 : 0 < 1 + A * t := by nlinarith
  have hdiff : 1 / (1 + A) - 1 / (1 + A * t) = A * (t - 1) / ((1 + A) * (1 + A * t)) := by
    field_simp; ring
  rw [hdiff, abs_le]
  constructor
  · have : 0 ≤ A * (t - 1) / ((1 + A) * (1 + A * t)) := by
      apply div_nonneg
      · nlinarith
      · positivity
    linarith
  · rw [div_le_iff₀ (by positivity)]
    nlinarith [mul_pos hApos hpos2, mul_pos hpos1 hpos2]

theorem term_mod (tt : Titration) (a : AA) (x y : ℝ) (h : |x - y| ≤ 1 / 256) :
    |term tt false x a - term tt false y a| ≤ if titratable tt a then 1 / 100 else 0 := by
  by_cases h1 : tt.cls a = 1
  · have ht : titratable tt a = true := by simp [titratable, h1]
    unfold term
    rw [ht, if_pos h1, if_pos h1]
    simp only [if_true]
    apply sigma_mod
    have : x - (tt.pKa a : ℝ) - (y - (tt.pKa a : ℝ)) = x - y := by ring
    rw [this]; exact h
  · by_cases h2 : tt.cls a = -1
    · have ht : titratable tt a = true := by simp [titratable, h2]
      unfold term
      rw [ht, if_neg h1, if_pos h2, if_neg h1, if_pos h2]
      simp only [if_true, Bool.false_eq_true, if_false]
      have hs := sigma_mod ((tt.pKa a : ℝ) - x) ((tt.pKa a : ℝ) - y) (by
        have : (tt.pKa a : ℝ) - x - ((tt.pKa a : ℝ) - y) = -(x - y) := by ring
        rw [this, abs_neg]; exact h)
      have : -1 / (1 + (10 : ℝ) ^ ((tt.pKa a : ℝ) - x)) - -1 / (1 + (10 : ℝ) ^ ((tt.pKa a : ℝ) - y))
          = -(1 / (1 + (10 : ℝ) ^ ((tt.pKa a : ℝ) - x)) - 1 / (1 + (10 : ℝ) ^ ((tt.pKa a : ℝ) - y))) := by ring
      rw [this, abs_neg]; exact hs
    · have ht : titratable tt a = false := by simp [titratable, h1, h2]
      unfold term
      rw [ht, if_neg h1, if_neg h2, if_neg h1, if_neg h2]
      simp

theorem map_neg_sum (s : Seq) (f : AA → ℝ) : (s.map (fun a => -(f a))).sum = -(s.map f).sum := by
  induction s with
  | nil => simp
  | cons a s ih => simp only [List.map_cons, List.sum_cons, ih]; ring

/-- a sum over the sequence of a per-residue quantity that vanishes off the titratable residues and is
    at most `c` on them is at most `c` times their number -/
theorem sum_le_count (tt : Titration) (h : AA → ℝ) (c : ℝ)
    (hb : ∀ a, h a ≤ if titratable tt a then c else 0) (s : Seq) :
    (s.map h).sum ≤ c * (s.countP (titratable tt) : ℝ) := by
  induction s with
  | nil => simp
  | cons a s ih =>
    simp only [List.map_cons, List.sum_cons, List.countP_cons]
    have := hb a
    by_cases ht : titratable tt a = true
    · simp only [ht, if_true] at this ⊢
      push_cast; linarith
    · simp only [ht] at this ⊢
      simp only [Bool.false_eq_true, if_false] at this ⊢
      push_cast; linarith

/-- the mean charge per titratable residue as a plain sum -/
theorem chargeNormalized_eq (tt : Titration) (pH : ℝ) (s : Seq) :
    chargeNormalized tt pH s =
      if s.countP (titratable tt) = 0 then 0 else (s.map (term tt false pH)).sum / (s.countP (titratable tt) : ℝ) := by
  unfold chargeNormalized
  rw [charge_loop_eq_counts]
  simp only [zero, RealLike.ofRat]
  split_ifs <;> simp

theorem chargeNormalized_antitone (tt : Titration) (s : Seq) : Antitone (fun pH : ℝ => chargeNormalized tt pH s) := by
  intro p q hpq
  simp only [chargeNormalized_eq]
  split_ifs with h0
  · exact le_refl _
  · apply div_le_div_of_nonneg_right _ (by positivity)
    exact sum_le_sum_of_forall s _ _ (fun a => term_net_antitone tt a p q hpq)

theorem map_sub_sum (s : Seq) (f g : AA → ℝ) : (s.map f).sum - (s.map g).sum = (s.map (fun a => f a - g a)).sum := by
  induction s with
  | nil => simp
  | cons a s ih => simp only [List.map_cons, List.sum_cons]; linarith

theorem chargeNormalized_mod (tt : Titration) (s : Seq) (x y : ℝ) (h : |x - y| ≤ 1 / 256) :
    |chargeNormalized tt x s - chargeNormalized tt y s| ≤ 1 / 100 := by
  simp only [chargeNormalized_eq]
  split_ifs with h0
  · norm_num
  · have hn : (0 : ℝ) < (s.countP (titratable tt) : ℝ) := by
      exact_mod_cast Nat.pos_of_ne_zero h0
    rw [← sub_div, map_sub_sum, abs_le]
    have hup := sum_le_count tt (fun a => term tt false x a - term tt false y a) (1 / 100)
      (fun a => le_trans (le_abs_self _) (term_mod tt a x y h)) s
    have hdn := sum_le_count tt (fun a => -(term tt false x a - term tt false y a)) (1 / 100)
      (fun a => le_trans (neg_le_abs _) (term_mod tt a x y h)) s
    have hneg := map_neg_sum s (fun a => term tt false x a - term tt false y a)
    rw [hneg] at hdn
    constructor
    · rw [le_div_iff₀ hn]; linarith
    · rw [div_le_iff₀ hn]; linarith

/-- at pH 0 the acidic groups are (almost) fully protonated: the chain is not negative beyond 1/100 -/
theorem chargeNormalized_at_zero (tt : Titration) (hok : TableOK tt) (s : Seq) :
    -(1 / 100) ≤ chargeNormalized tt (0 : ℝ) s := by
  simp only [chargeNormalized_eq]
  split_ifs with h0
  · norm_num
  · have hn : (0 : ℝ) < (s.countP (titratable tt) : ℝ) := by exact_mod_cast Nat.pos_of_ne_zero h0
    have hb : ∀ a, -(term tt false 0 a) ≤ if titratable tt a then (1 : ℝ) / 100 else 0 := by
      intro a
      by_cases h1 : tt.cls a = 1
      · have ht : titratable tt a = true := by simp [titratable, h1]
        unfold term
        rw [ht, if_pos h1]
        simp only [if_true]
        have : (0 : ℝ) ≤ 1 / (1 + (10 : ℝ) ^ ((0 : ℝ) - (tt.pKa a : ℝ))) := by positivity
        linarith
      · by_cases h2 : tt.cls a = -1
        · have ht : titratable tt a = true := by simp [titratable, h2]
          unfold term
          rw [ht, if_neg h1, if_pos h2]
          simp only [if_true, Bool.false_eq_true, if_false]
          have hp : (2 : ℝ) ≤ (tt.pKa a : ℝ) := by exact_mod_cast (hok a).2 h2
          have h100 : (100 : ℝ) ≤ (10 : ℝ) ^ ((tt.pKa a : ℝ) - 0) := by
            have : (10 : ℝ) ^ (2 : ℝ) ≤ (10 : ℝ) ^ ((tt.pKa a : ℝ) - 0) :=
              (Real.rpow_le_rpow_left_iff (by norm_num)).mpr (by linarith)
            have h2' : (10 : ℝ) ^ (2 : ℝ) = 100 := by
              rw [show (2 : ℝ) = ((2 : ℕ) : ℝ) by norm_num, Real.rpow_natCast]; norm_num
            linarith
          rw [neg_div, neg_neg, div_le_div_iff₀ (by positivity) (by norm_num)]
          linarith
        · have ht : titratable tt a = false := by simp [titratable, h1, h2]
          unfold term
          rw [ht, if_neg h1, if_neg h2]
          simp
    have hs := sum_le_count tt (fun a => -(term tt false 0 a)) (1 / 100) hb s
    have hneg := map_neg_sum s (term tt false 0)
    rw [hneg] at hs
    rw [le_div_iff₀ hn]; linarith

/-- at pH 24 the basic groups are (almost) fully deprotonated: the chain is not positive beyond 1/100 -/
theorem chargeNormalized_at_24 (tt : Titration) (hok : TableOK tt) (s : Seq) :
    chargeNormalized tt (24 : ℝ) s ≤ 1 / 100 := by
  simp only [chargeNormalized_eq]
  split_ifs with h0
  · norm_num
  · have hn : (0 : ℝ) < (s.countP (titratable tt) : ℝ) := by exact_mod_cast Nat.pos_of_ne_zero h0
    have hb : ∀ a, term tt false 24 a ≤ if titratable tt a then (1 : ℝ) / 100 else 0 := by
      intro a
      by_cases h1 : tt.cls a = 1
      · have ht : titratable tt a = true := by simp [titratable, h1]
        unfold term
        rw [ht, if_pos h1]
        simp only [if_true]
        have hp : (tt.pKa a : ℝ) ≤ 13 := by exact_mod_cast (hok a).1 h1
        have h100 : (100 : ℝ) ≤ (10 : ℝ) ^ ((24 : ℝ) - (tt.pKa a : ℝ)) := by
          have : (10 : ℝ) ^ (2 : ℝ) ≤ (10 : ℝ) ^ ((24 : ℝ) - (tt.pKa a : ℝ)) :=
            (Real.rpow_le_rpow_left_iff (by norm_num)).mpr (by linarith)
          have h2' : (10 : ℝ) ^ (2 : ℝ) = 100 := by
            rw [show (2 : ℝ) = ((2 : ℕ) : ℝ) by norm_num, Real.rpow_natCast]; norm_num
          linarith
        rw [div_le_div_iff₀ (by positivity) (by norm_num)]
        linarith
      · by_cases h2 : tt.cls a = -1
        · have ht : titratable tt a = true := by simp [titratable, h2]
          unfold term
          rw [ht, if_neg h1, if_pos h2]
          simp only [if_true, Bool.false_eq_true, if_false]
          have : (0 : ℝ) ≤ 1 / (1 + (10 : ℝ) ^ ((tt.pKa a : ℝ) - 24)) := by positivity
          rw [neg_div]; linarith
        · have ht : titratable tt a = false := by simp [titratable, h1, h2]
          unfold term
          rw [ht, if_neg h1, if_neg h2]
          simp
    have hs := sum_le_count tt (term tt false 24) (1 / 100) hb s
    rw [div_le_iff₀ hn]; linarith

/-- a point of [0, 24] where the chain is neutral to within 1/100 (no continuity needed: walk a grid of
    step 1/256 from 0 until the charge first drops to 1/100 or below) -/
theorem exists_near_neutral (tt : Titration) (hok : TableOK tt) (s : Seq) :
    ∃ r : ℝ, 0 ≤ r ∧ r ≤ 24 ∧ |chargeNormalized tt r s| ≤ 1 / 100 := by
  set f := fun pH : ℝ => chargeNormalized tt pH s with hf
  by_cases h0 : f 0 ≤ 1 / 100
  · exact ⟨0, le_refl _, by norm_num, abs_le.mpr ⟨chargeNormalized_at_zero tt hok s, h0⟩⟩
  · push Not at h0
    have hP : ∃ k : ℕ, f ((k : ℝ) / 256) ≤ 1 / 100 := ⟨24 * 256, by
      have : (((24 * 256 : ℕ) : ℝ)) / 256 = 24 := by push_cast; norm_num
      rw [this]; exact chargeNormalized_at_24 tt hok s⟩
    classical
    let k0 := Nat.find hP
    have hk0 : f ((k0 : ℝ) / 256) ≤ 1 / 100 := Nat.find_spec hP
    have hk0ne : k0 ≠ 0 := by
      intro h
      have : f ((k0 : ℝ) / 256) = f 0 := by rw [h]; simp
      linarith
    have hk0le : k0 ≤ 24 * 256 := Nat.find_min' hP (by
      have : (((24 * 256 : ℕ) : ℝ)) / 256 = 24 := by push_cast; norm_num
      rw [this]; exact chargeNormalized_at_24 tt hok s)
    have hprev : ¬ f (((k0 - 1 : ℕ) : ℝ) / 256) ≤ 1 / 100 := Nat.find_min hP (by omega)
    push Not at hprev
    have hstep : |(k0 : ℝ) / 256 - ((k0 - 1 : ℕ) : ℝ) / 256| ≤ 1 / 256 := by
      have : ((k0 - 1 : ℕ) : ℝ) = (k0 : ℝ) - 1 := by
        rw [Nat.cast_sub (by omega)]; simp
      rw [this, abs_le]; constructor <;> (ring_nf; norm_num)
    have hm := abs_le.mp (chargeNormalized_mod tt s _ _ hstep)
    refine ⟨(k0 : ℝ) / 256, by positivity, ?_, ?_⟩
    · rw [div_le_iff₀ (by norm_num)]
      have : (k0 : ℝ) ≤ ((24 * 256 : ℕ) : ℝ) := by exact_mod_cast hk0le
      push_cast at this; linarith
    · rw [abs_le]; constructor
      · simp only [hf] at hprev hm ⊢; linarith [hm.1]
      · exact hk0

/-- **get_isoelectric_point() returns for every sequence** (it never reaches its error exit), and the
    returned pH has mean charge per titratable residue within 0.02 of zero. -/
theorem pi_never_raises (tt : Titration) (hok : TableOK tt) (s : Seq) :
    ∃ x : ℝ, (isoelectricPoint tt s : Option (Except Err ℝ)) = some (.ok x) ∧ |chargeNormalized tt x s| ≤ 1 / 50 := by
  obtain ⟨r, hr0, hr24, hfr⟩ := exists_near_neutral tt hok s
  unfold isoelectricPoint
  have hthr : (RealLike.ofRat (1 / 50) : ℝ) = 1 / 50 := by simp [RealLike.ofRat]
  rw [hthr]
  have := pi_returns_of (fun pH : ℝ => chargeNormalized tt pH s) (1 / 50) r (by norm_num) hr0 hr24
    (chargeNormalized_antitone tt s) (by norm_num; linarith [hfr])
    (fun x hx => by
      have := chargeNormalized_mod tt s x r hx
      norm_num; linarith [this])
  exact this

/-- the published EMBOSS table, and the table regenerated from the live code on this run, satisfy `TableOK` -/
theorem spec_table_ok : TableOK (titrOf Spec.titrClass Spec.pKaND) := by
  intro a; cases a <;> (constructor <;> intro h <;> first | (exfalso; revert h; decide) | (simp only [titrOf, Spec.pKaND]; norm_num))

theorem gen_table_ok : TableOK (titrOf Gen.titrClass Gen.pKaND) := by
  rw [gen_titration_classes.1, gen_pKa_eq_emboss.1, ← gen_pKa_eq_emboss.2.1]
  exact spec_table_ok

/-- **C09, last clause, for the code's own tables**: `get_isoelectric_point()` returns a pH for EVERY sequence -/
theorem pi_never_raises_spec (s : Seq) :
    ∃ x : ℝ, (isoelectricPoint (titrOf Spec.titrClass Spec.pKaND) s : Option (Except Err ℝ)) = some (.ok x) ∧
      |chargeNormalized (titrOf Spec.titrClass Spec.pKaND) x s| ≤ 1 / 50 :=
  pi_never_raises _ spec_table_ok s

theorem pi_never_raises_gen (s : Seq) :
    ∃ x : ℝ, (isoelectricPoint (titrOf Gen.titrClass Gen.pKaND) s : Option (Except Err ℝ)) = some (.ok x) ∧
      |chargeNormalized (titrOf Gen.titrClass Gen.pKaND) x s| ≤ 1 / 50 :=
  pi_never_raises _ gen_table_ok s

/-- non-vacuity: a concrete extreme composition (only arginine) is covered -/
example : ∃ x : ℝ, (isoelectricPoint (titrOf Spec.titrClass Spec.pKaND) [AA.R, AA.R, AA.R] : Option (Except Err ℝ)) = some (.ok x) :=
  let ⟨x, hx, _⟩ := pi_never_raises_spec [AA.R, AA.R, AA.R]; ⟨x, hx⟩

end Cider.C09
