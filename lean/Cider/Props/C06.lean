/-
  C06 — Omega and kappa_X are kappa of the recoded sequence.   ONLY property theorems.
-/
import Cider.Props.C05

namespace Cider.C06
open Cider

def mem (c : Char) : PyMember := .str [c]

/-- get_Omega is the kappa of the two-letter recoding (P,E,D,K,R versus everything else) -/
theorem omega_eq_kappa_recode (s : Seq) :
    omega specTables s = kappa (recode1 [.P, .E, .D, .K, .R] s) := by
  unfold omega omegaPattern recode1
  congr 1
  apply List.map_congr_left
  intro a _
  cases a <;> rfl

/-- … and equals get_kappa_X(['P','E','D','K','R']) -/
theorem omega_eq_kappaX_PEDKR (s : Seq) :
    kappaX [mem 'P', mem 'E', mem 'D', mem 'K', mem 'R'] none s = .ok (omega specTables s) := by
  rw [omega_eq_kappa_recode]; rfl

/-- get_kappa equals get_kappa_X(['E','D'],['K','R']) -/
theorem kappa_eq_kappaX_ED_KR (s : Seq) :
    kappaX [mem 'E', mem 'D'] (some [mem 'K', mem 'R']) s = .ok (seqKappa specTables s) := by
  have : recode2 [.E, .D] [.K, .R] s = patternOf specTables s := by
    unfold recode2 patternOf
    apply List.map_congr_left
    intro a _
    cases a <;> rfl
  unfold seqKappa; rw [← this]; rfl

/-- recoding only looks at membership: groups that are equal as sets recode identically -/
theorem recode_set_ext (a a' b b' : List AA) (s : Seq)
    (h1 : ∀ x, x ∈ a ↔ x ∈ a') (h2 : ∀ x, x ∈ b ↔ x ∈ b') :
    recode1 a s = recode1 a' s ∧ recode2 a b s = recode2 a' b' s := by
  constructor
  · unfold recode1; apply List.map_congr_left; intro x _; simp only [h1 x]
  · unfold recode2; apply List.map_congr_left; intro x _; simp only [h1 x, h2 x]

/-- member order, repetition and letter case do not matter: if the two group arguments parse to the
    same sets the result is the same (upper-casing is part of parsing) -/
theorem kappaX_member_order_case (g1 g1' : List PyMember) (g2 g2' : Option (List PyMember)) (s : Seq)
    (a a' : List AA) (h1 : parseGroup g1 = .ok a) (h1' : parseGroup g1' = .ok a') (ha : ∀ x, x ∈ a ↔ x ∈ a')
    (hshape : (g2 = none ∨ g2 = some []) ∧ (g2' = none ∨ g2' = some []) ∨
      (∃ m m' b b', g2 = some m ∧ g2' = some m' ∧ m ≠ [] ∧ m' ≠ [] ∧
        parseGroup m = .ok b ∧ parseGroup m' = .ok b' ∧ ∀ x, x ∈ b ↔ x ∈ b')) :
    kappaX g1 g2 s = kappaX g1' g2' s := by
  rcases hshape with ⟨hA, hB⟩ | ⟨m, m', b, b', e, e', hm, hm', hb, hb', hbb⟩
  · have r := (recode_set_ext a a' [] [] s ha (fun _ => Iff.rfl)).1
    rcases hA with rfl | rfl <;> rcases hB with rfl | rfl <;> simp [kappaX, h1, h1', r]
  · subst e e'
    have r := (recode_set_ext a a' b b' s ha hbb).2
    cases m with
    | nil => exact absurd rfl hm
    | cons x xs =>
      cases m' with
      | nil => exact absurd rfl hm'
      | cons y ys => simp [kappaX, h1, h1', hb, hb', r]

theorem asciiUpper_examples : asciiUpper 'k' = 'K' ∧ asciiUpper 'K' = 'K' ∧ asciiUpper 'z' = 'Z' ∧ asciiUpper '1' = '1' := by
  decide

/-- swapping two DISJOINT groups inverts the recoded pattern, so kappa_X is unchanged
    (for overlapping groups the first group wins in the code, and the swap is not an inversion) -/
theorem kappaX_swap (a b : List AA) (s : Seq) (hdisj : ∀ x, x ∈ a → x ∉ b) :
    kappa (recode2 b a s) = kappa (recode2 a b s) := by
  have : recode2 b a s = neg (recode2 a b s) := by
    unfold recode2 neg
    rw [List.map_map]
    apply List.map_congr_left
    intro x _
    by_cases h1 : x ∈ a
    · have h2 : x ∉ b := hdisj x h1
      simp [h1, h2]
    · by_cases h2 : x ∈ b <;> simp [h1, h2]
  rw [this, Cider.C05.kappa_negate]

/-- a one-group call equals the call with the complementary group -/
theorem kappaX_complement (a a' : List AA) (s : Seq) (hc : ∀ x, x ∈ a' ↔ x ∉ a) :
    kappa (recode1 a' s) = kappa (recode1 a s) := by
  have : recode1 a' s = neg (recode1 a s) := by
    unfold recode1 neg
    rw [List.map_map]
    apply List.map_congr_left
    intro x _
    by_cases h1 : x ∈ a
    · have : x ∉ a' := fun h => (hc x).mp h h1
      simp [h1, this]
    · have : x ∈ a' := (hc x).mpr h1
      simp [h1, this]
  rw [this, Cider.C05.kappa_negate]

/-- a group is rejected exactly when some member is not (after upper-casing) one of the 20 letters -/
theorem kappaX_rejects (g : List PyMember) :
    (∃ e, parseGroup g = .error e) ↔ ∃ m ∈ g, memberAA? m = none := by
  unfold parseGroup
  induction g with
  | nil => simp
  | cons x xs ih =>
    simp only [List.mapM_cons, List.mem_cons, exists_eq_or_imp]
    cases hx : memberAA? x with
    | none => simp
    | some v =>
      simp only [Option.bind_eq_bind, Option.bind_some, reduceCtorEq, false_or]
      cases hxs : List.mapM memberAA? xs with
      | none =>
        rw [hxs] at ih; simp at ih ⊢; exact ih
      | some r =>
        rw [hxs] at ih; simp at ih ⊢; exact ih

/-- get_Omega_sequence has X at exactly the P/E/D/K/R positions and O elsewhere, same length -/
theorem omegaSeq_spec (s : Seq) :
    (omegaSeq specTables s).toList = s.map (fun a => if a = .P ∨ a = .E ∨ a = .D ∨ a = .K ∨ a = .R then 'X' else 'O') := by
  unfold omegaSeq
  rw [String.toList_ofList]
  apply List.map_congr_left
  intro a _
  cases a <;> rfl

/-! non-vacuity: mixed case and order; an invalid member -/
example : parseGroup [.str ['k'], .str ['R']] = .ok [.K, .R] := by decide
example : parseGroup [.str ['B']] = .error .badGroup ∧ parseGroup [.str ['A', 'B']] = .error .badGroup ∧
    parseGroup [.nonStr] = .error .badGroup := by decide

end Cider.C06
