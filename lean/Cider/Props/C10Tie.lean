/- C10 (tie) — the Uversky-normalised hydropathy table used by the hydropathy profile, regenerated on this run -/
import Cider.Spec.Published
import Cider.Gen.Tables
namespace Cider.C10
theorem gen_kdUversky_eq_published : Gen.kdUverskyND = Spec.kdUverskyND ∧ Gen.charge = Spec.charge := by
  constructor <;> (funext a; cases a <;> rfl)
end Cider.C10
