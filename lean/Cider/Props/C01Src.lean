/-
  Cider.Props.C01Src — source-text tie for C01: `Sequence.kappa / Sequence.sigma` as `tools/pyexpr2lean.py` translates it
  from the live SOURCE on every run (Gen/Decisions.lean) agrees, for ALL rational arguments, with the
  hand-written model the C01 theorems are about.  A changed threshold, comparison direction, branch
  order or returned value in the source breaks a proof here.
-/
import Cider.Gen.Decisions
import Cider.Model.SeqParams
import Cider.Model.Profiles
import Cider.Model.WL
import Mathlib.Tactic.Linarith
import Mathlib.Tactic.Ring
import Mathlib.Tactic.NormNum
import Mathlib.Tactic.Push
import Mathlib.Algebra.Order.Field.Rat
namespace Cider.C01Src
open Cider

/-- `Sequence.kappa`'s guard / rounding band as written today IS `kappaOf` (C01). -/
theorem kappaDecision_eq (dm d : Rat) : Gen.kappaDecision dm d = .ok (kappaOf d dm) := by
  unfold Gen.kappaDecision kappaOf
  simp only [gt_iff_lt, div_one]
  split_ifs <;> simp_all

/-- `Sequence.sigma` as written today IS `sigmaOf` on counts (C02/C07 use sigma through delta). -/
theorem sigmaDecision_eq (a b len : Nat) (hlen : a + b ≤ len) (h0 : 0 < len) :
    Gen.sigmaDecision ((len - (a + b) : Nat) : Rat) (len : Rat)
        (((a : Rat) - (b : Rat)) / (len : Rat)) (((a : Rat) + (b : Rat)) / (len : Rat))
      = .ok (sigmaOf a b len) := by
  unfold Gen.sigmaDecision sigmaOf
  by_cases hab : a + b = 0
  · have : ((len - (a + b) : Nat) : Rat) = (len : Rat) := by simp [hab]
    simp [hab]
  · have hne : ((len - (a + b) : Nat) : Rat) ≠ (len : Rat) := by
      intro h
      have : len - (a + b) = len := by exact_mod_cast h
      omega
    rw [if_neg hne, if_neg hab]

end Cider.C01Src
