/-
  C04 — Composition parameters equal their published per-residue definitions.
  ONLY property theorems (+ non-vacuity examples); helper lemmas live in Cider.Lemmas.*.
-/
import Cider.Lemmas.Sums
import Cider.Model.TablesSpec
import Mathlib.Data.List.Perm.Basic
import Mathlib.Data.List.Count

namespace Cider.C04
open Cider

/-- the published classes: expanding = D,E,K,R,P; disorder-promoting = T,A,G,R,D,H,Q,K,S,E,P -/
theorem published_classes :
    AA.all.filter Spec.expanding = [.D, .E, .K, .P, .R] ∧
    AA.all.filter Spec.disorderPromoting = [.A, .D, .E, .G, .H, .K, .P, .Q, .R, .S, .T] ∧
    AA.all.filter (fun a => decide (0 < Spec.charge a)) = [.K, .R] ∧
    AA.all.filter (fun a => decide (Spec.charge a < 0)) = [.D, .E] := by
  refine ⟨rfl, rfl, rfl, rfl⟩

/-- the accumulation loop `ans += table(res)/len` is the mean of the per-residue values -/
theorem meanOf_eq_spec (tab : AA → Int × Nat) (s : Seq) :
    meanOf tab s = (s.map (fun a => ndToRat (tab a))).sum / (s.length : Rat) := by
  unfold meanOf; rw [foldl_add_div]; simp

theorem ppii_eq_spec (tab : AA → Int × Nat) (s : Seq) :
    ppii tab s = (s.map (fun a => ndToRat (tab a))).sum / (s.length : Rat) := by
  unfold ppii; rw [foldl_add]; simp

/-- molecular weight: the sum of residue masses minus 18 Da per peptide bond -/
theorem molWeight_eq_spec (T : Tables) (s : Seq) :
    molWeight T s = (s.map (fun a => ndToRat (T.mw a))).sum - 18 * ((s.length : Rat) - 1) := by
  unfold molWeight; rw [foldl_add]; simp

/-- counts are `countP` of the published classes -/
theorem nPos_eq_spec (s : Seq) : nPos specTables s = s.countP (fun a => a = AA.K ∨ a = AA.R) := by
  unfold nPos countPos patternOf; rw [List.countP_map]; congr 1; funext a; cases a <;> rfl

theorem nNeg_eq_spec (s : Seq) : nNeg specTables s = s.countP (fun a => a = AA.D ∨ a = AA.E) := by
  unfold nNeg countNeg patternOf; rw [List.countP_map]; congr 1; funext a; cases a <;> rfl

theorem nNeut_eq_spec (s : Seq) :
    nNeut specTables s = s.countP (fun a => ¬ (a = AA.K ∨ a = AA.R ∨ a = AA.D ∨ a = AA.E)) := by
  unfold nNeut countNeut patternOf; rw [List.countP_map]; congr 1; funext a; cases a <;> rfl

/-- the pattern only takes the values +1, −1, 0 -/
theorem chargeSign_cases (c : Int) : chargeSign c = 1 ∨ chargeSign c = -1 ∨ chargeSign c = 0 := by
  unfold chargeSign; split <;> [simp; (split <;> simp)]

/-- counts sum to the length (any tables) -/
theorem counts_sum (T : Tables) (s : Seq) : nPos T s + nNeg T s + nNeut T s = s.length := by
  unfold nPos nNeg nNeut countPos countNeg countNeut
  generalize hp : patternOf T s = p
  have hl : p.length = s.length := by rw [← hp]; simp [patternOf]
  rw [← hl]
  clear hp hl
  induction p with
  | nil => simp
  | cons x xs ih =>
    simp only [List.countP_cons, List.length_cons]
    rcases lt_trichotomy x 0 with h | h | h
    · have h1 : ¬ (0 < x) := by omega
      have h2 : ¬ (x = 0) := by omega
      simp [h, h1, h2]; omega
    · subst h; simp; omega
    · have h1 : ¬ (x < 0) := by omega
      have h2 : ¬ (x = 0) := by omega
      simp [h, h1, h2]; omega

theorem fcr_eq_fplus_add_fminus (T : Tables) (s : Seq) : fcr T s = fPlus T s + fMinus T s := by
  unfold fcr fPlus fMinus; push_cast; ring

theorem ncpr_eq_fplus_sub_fminus (T : Tables) (s : Seq) : ncpr T s = fPlus T s - fMinus T s := by
  unfold ncpr fPlus fMinus; push_cast; ring

theorem meanNetCharge_eq_abs (T : Tables) (s : Seq) : meanNetCharge T s = |ncpr T s| := by
  unfold meanNetCharge
  split
  · rename_i h; rw [abs_of_neg h]
  · rename_i h; rw [abs_of_nonneg (not_lt.mp h)]

/-- |NCPR| ≤ FCR ≤ 1 for a non-empty sequence -/
theorem abs_ncpr_le_fcr_le_one (T : Tables) (s : Seq) (hs : s ≠ []) :
    |ncpr T s| ≤ fcr T s ∧ fcr T s ≤ 1 := by
  have hN : (0 : Rat) < (s.length : Rat) := by
    have : 0 < s.length := List.length_pos_iff.mpr hs
    exact_mod_cast this
  have hsum := counts_sum T s
  have hp : (0 : Rat) ≤ fPlus T s := by unfold fPlus; exact div_nonneg (Nat.cast_nonneg _) (Nat.cast_nonneg _)
  have hm : (0 : Rat) ≤ fMinus T s := by unfold fMinus; exact div_nonneg (Nat.cast_nonneg _) (Nat.cast_nonneg _)
  constructor
  · rw [fcr_eq_fplus_add_fminus, ncpr_eq_fplus_sub_fminus, abs_le]; constructor <;> linarith
  · unfold fcr
    rw [div_le_one hN]
    have : nPos T s + nNeg T s ≤ s.length := by omega
    exact_mod_cast this

/-- FER = FCR + fraction of proline -/
theorem fer_eq_fcr_add_fP (T : Tables) (s : Seq) : fer T s = fcr T s + aaFraction s AA.P := by
  unfold fer fcr aaFraction; push_cast; ring

/-- the 20 amino-acid fractions sum to 1 for a non-empty sequence -/
theorem aaFractions_sum_one (s : Seq) (hs : s ≠ []) : (AA.all.map (aaFraction s)).sum = 1 := by
  have hN : (s.length : Rat) ≠ 0 := by
    have : 0 < s.length := List.length_pos_iff.mpr hs
    exact_mod_cast this.ne'
  have h1 : (AA.all.map (aaFraction s)) = AA.all.map (fun a => ((s.count a : Nat) : Rat) / (s.length : Rat)) := rfl
  rw [h1, sum_map_div (fun a => ((s.count a : Nat) : Rat)), ← natCast_sum_map, sum_count_all]
  exact div_self hN

/-- Uversky-normalised hydropathy is the shifted Kyte–Doolittle mean divided by 9 -/
theorem uversky_eq_kd_div_9 (s : Seq) : uverskyHydropathy specTables s = meanHydropathy specTables s / 9 := by
  unfold uverskyHydropathy meanHydropathy
  rw [meanOf_eq_spec, meanOf_eq_spec]
  have : ∀ a, ndToRat (specTables.kdU a) = ndToRat (specTables.kd a) / 9 := by
    intro a; cases a <;> (simp [specTables, Spec.kdUverskyND, Spec.kdND, ndToRat]; try norm_num)
  simp only [this]
  rw [sum_map_div]; ring

/-- every composition parameter is unchanged by permuting the sequence -/
theorem perm_invariant (T : Tables) (s t : Seq) (h : s.Perm t) :
    nPos T s = nPos T t ∧ nNeg T s = nNeg T t ∧ nNeut T s = nNeut T t ∧
    fPlus T s = fPlus T t ∧ fMinus T s = fMinus T t ∧ fcr T s = fcr T t ∧ ncpr T s = ncpr T t ∧
    meanNetCharge T s = meanNetCharge T t ∧ fer T s = fer T t ∧ fracDisorder T s = fracDisorder T t ∧
    (∀ a, aaFraction s a = aaFraction t a) ∧
    meanHydropathy T s = meanHydropathy T t ∧ uverskyHydropathy T s = uverskyHydropathy T t ∧
    meanWW T s = meanWW T t ∧
    ppii T.ppiiH s = ppii T.ppiiH t ∧ ppii T.ppiiC s = ppii T.ppiiC t ∧ ppii T.ppiiK s = ppii T.ppiiK t ∧
    molWeight T s = molWeight T t := by
  have hl : s.length = t.length := h.length_eq
  have hpat : (patternOf T s).Perm (patternOf T t) := h.map _
  have hp : nPos T s = nPos T t := hpat.countP_eq _
  have hn : nNeg T s = nNeg T t := hpat.countP_eq _
  have h0 : nNeut T s = nNeut T t := hpat.countP_eq _
  have hc : ∀ a, s.count a = t.count a := fun a => h.count_eq a
  have hsum : ∀ tab : AA → Int × Nat,
      (s.map (fun a => ndToRat (tab a))).sum = (t.map (fun a => ndToRat (tab a))).sum :=
    fun tab => (h.map _).sum_eq
  have hncpr : ncpr T s = ncpr T t := by unfold ncpr; rw [hp, hn, hl]
  refine ⟨hp, hn, h0, ?_, ?_, ?_, hncpr, ?_, ?_, ?_, ?_, ?_, ?_, ?_, ?_, ?_, ?_, ?_⟩
  · unfold fPlus; rw [hp, hl]
  · unfold fMinus; rw [hn, hl]
  · unfold fcr; rw [hp, hn, hl]
  · unfold meanNetCharge; rw [hncpr]
  · unfold fer; rw [hp, hn, hl, hc]
  · unfold fracDisorder; rw [h.countP_eq, hl]
  · intro a; unfold aaFraction; rw [hc, hl]
  · unfold meanHydropathy; rw [meanOf_eq_spec, meanOf_eq_spec, hsum, hl]
  · unfold uverskyHydropathy; rw [meanOf_eq_spec, meanOf_eq_spec, hsum, hl]
  · unfold meanWW; rw [meanOf_eq_spec, meanOf_eq_spec, hsum, hl]
  · rw [ppii_eq_spec, ppii_eq_spec, hsum, hl]
  · rw [ppii_eq_spec, ppii_eq_spec, hsum, hl]
  · rw [ppii_eq_spec, ppii_eq_spec, hsum, hl]
  · rw [molWeight_eq_spec, molWeight_eq_spec, hsum, hl]

/-! non-vacuity: concrete values on a sequence containing C, R, W (absent from the pinned test protein) -/
example : fcr specTables [.K, .E, .C, .R, .W] = 3 / 5 ∧ ncpr specTables [.K, .E, .C, .R, .W] = 1 / 5 := by
  constructor <;> decide +kernel
example : meanHydropathy specTables [.C, .R, .W] = (7 + 0 + 18 / 5) / 3 := by decide +kernel

end Cider.C04
