/-
  Cider.Props.C06Src — source-text tie for C06: the per-residue recoding decision inside the loops of
  `Sequence.Omega`, `Sequence.Omega_seq` and `Sequence.kappa_X`, as `tools/pyexpr2lean.py` translates it from the
  live SOURCE on every run (Gen/Decisions.lean), is the recoding the C06 theorems are about, for EVERY residue
  and every group membership; and what surrounds the loop (empty initial string; the recoded string goes to
  `Sequence(newseq).kappa()`, resp. is returned) is what the model assumes.  A changed letter set, a changed
  appended letter, a swapped branch, a different initial value or a different method on the recoded object
  breaks a proof here.
-/
import Cider.Gen.Decisions
import Cider.Model.SeqParams
import Cider.Model.TablesSpec
namespace Cider.C06Src
open Cider

/-- the charge class the recoded object gives a letter ('E' → −1, 'K' → +1, 'G' → 0 in the published table) -/
def cls (r : Except Unit Char) : Option Int :=
  match r with
  | .ok c => (AA.ofChar? c).map (fun a => chargeSign (Spec.charge a))
  | .error _ => none

/-- `Omega`'s loop appends 'E' for exactly the published Omega class and 'K' otherwise, and the recoded letter's
    charge class is the entry of the model's `omegaPattern` -/
theorem omegaChar_eq (a : AA) :
    Gen.omegaCharSrc a.toChar = .ok (if Spec.omegaX a then 'E' else 'K') ∧
    cls (Gen.omegaCharSrc a.toChar) = some (if specTables.omegaX a then (-1 : Int) else 1) := by
  cases a <;> first | exact ⟨rfl, rfl⟩ | rfl

/-- `Omega_seq`'s loop appends 'X' for exactly the published Omega class and 'O' otherwise (`omegaSeq`) -/
theorem omegaSeqChar_eq (a : AA) :
    Gen.omegaSeqCharSrc a.toChar = .ok (if Spec.omegaX a then 'X' else 'O') := by
  cases a <;> first | exact ⟨rfl, rfl⟩ | rfl

/-- the whole recoded strings, for every sequence: mapping the translated loop body over the residues gives the
    model's `omegaSeq` text and the model's `omegaPattern` -/
theorem omega_strings (s : Seq) :
    String.ofList (s.map (fun a => match Gen.omegaSeqCharSrc a.toChar with | .ok c => c | .error _ => '?')) = omegaSeq specTables s ∧
    s.map (fun a => cls (Gen.omegaCharSrc a.toChar)) = (omegaPattern specTables s).map some := by
  constructor
  · unfold omegaSeq
    congr 1
    apply List.map_congr_left
    intro a _
    rw [omegaSeqChar_eq a]; rfl
  · unfold omegaPattern
    rw [List.map_map]
    apply List.map_congr_left
    intro a _
    exact (omegaChar_eq a).2

/-- `kappa_X` with two groups: first group wins ('E', −1), else second group ('K', +1), else 'G' (0): `recode2` -/
theorem kappaX2Char_eq (b1 b2 : Bool) :
    Gen.kappaX2CharSrc b1 b2 = .ok (if b1 then 'E' else if b2 then 'K' else 'G') ∧
    cls (Gen.kappaX2CharSrc b1 b2) = some (if b1 then (-1 : Int) else if b2 then 1 else 0) := by
  cases b1 <;> cases b2 <;> exact ⟨rfl, rfl⟩

/-- `kappa_X` with one group: member → 'E' (−1), other → 'K' (+1): `recode1` -/
theorem kappaX1Char_eq (b1 : Bool) :
    Gen.kappaX1CharSrc b1 = .ok (if b1 then 'E' else 'K') ∧
    cls (Gen.kappaX1CharSrc b1) = some (if b1 then (-1 : Int) else 1) := by
  cases b1 <;> exact ⟨rfl, rfl⟩

/-- the recodings of whole sequences are `recode1` / `recode2` -/
theorem kappaX_patterns (g1 g2 : List AA) (s : Seq) :
    s.map (fun a => cls (Gen.kappaX1CharSrc (decide (a ∈ g1)))) = (recode1 g1 s).map some ∧
    s.map (fun a => cls (Gen.kappaX2CharSrc (decide (a ∈ g1)) (decide (a ∈ g2)))) = (recode2 g1 g2 s).map some := by
  constructor
  · unfold recode1
    rw [List.map_map]
    apply List.map_congr_left
    intro a _
    rw [(kappaX1Char_eq _).2]
    by_cases h : a ∈ g1 <;> simp [h]
  · unfold recode2
    rw [List.map_map]
    apply List.map_congr_left
    intro a _
    rw [(kappaX2Char_eq _ _).2]
    by_cases h : a ∈ g1 <;> by_cases h2 : a ∈ g2 <;> simp [h, h2]

/-- what surrounds the loops: the accumulator starts empty; `Omega` and both arms of `kappa_X` hand the recoded
    string to a fresh `Sequence` and return its `kappa()`; `Omega_seq` returns the recoded string itself -/
theorem frames_eq :
    Gen.omegaCharSrcFrame = "''|Sequence(newseq).kappa()" ∧ Gen.omegaSeqCharSrcFrame = "''|newseq" ∧
    Gen.kappaX2CharSrcFrame = "''|Sequence(newseq).kappa()" ∧ Gen.kappaX1CharSrcFrame = "''|Sequence(newseq).kappa()" := by
  decide

end Cider.C06Src
