/-
  C19 (tie) — the vertices of the coloured patches of the figures the live code draws on this run
  (read back from matplotlib under Agg by tools/extract.py) are the published polygons.
-/
import Cider.Spec.PublishedPolygons
import Cider.Gen.Polygons
namespace Cider.C19
theorem gen_polygons_eq_published :
    Gen.phasePolygons = Spec.phasePolygons ∧ Gen.uverskyPolygons = Spec.uverskyPolygons := by
  constructor <;> decide
end Cider.C19
