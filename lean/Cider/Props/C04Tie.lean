/-
  C04 (tie) — the per-residue tables tabulated from the live code on this run are the published ones.
-/
import Cider.Model.TablesSpec
import Cider.Model.TablesGen
namespace Cider.C04
open Cider
/-! (G) every per-residue table tabulated from the live code equals the frozen published table,
    all 20 residues, re-checked by the kernel on every run. -/
theorem gen_charge_eq_published : Gen.charge = Spec.charge := by funext a; cases a <;> rfl
theorem gen_kd_eq_published : Gen.kdND = Spec.kdND := by funext a; cases a <;> rfl
theorem gen_kdUversky_eq_published : Gen.kdUverskyND = Spec.kdUverskyND := by funext a; cases a <;> rfl
theorem gen_ww_eq_published : Gen.wwND = Spec.wwND := by funext a; cases a <;> rfl
theorem gen_ppiiHilser_eq_published : Gen.ppiiHilserND = Spec.ppiiHilserND := by funext a; cases a <;> rfl
theorem gen_ppiiCreamer_eq_published : Gen.ppiiCreamerND = Spec.ppiiCreamerND := by funext a; cases a <;> rfl
theorem gen_ppiiKallenbach_eq_published : Gen.ppiiKallenbachND = Spec.ppiiKallenbachND := by funext a; cases a <;> rfl
theorem gen_mw_eq_published : Gen.mwND = Spec.mwND := by funext a; cases a <;> rfl
theorem gen_disorder_eq_published : Gen.disorderPromoting = Spec.disorderPromoting := by funext a; cases a <;> rfl
theorem gen_expanding_eq_published : Gen.expanding = Spec.expanding := by funext a; cases a <;> rfl
theorem gen_omegaX_eq_published : Gen.omegaX = Spec.omegaX := by funext a; cases a <;> rfl

/-- hence the model instantiated with the live tables IS the model instantiated with the published ones -/
theorem gen_tables_eq_published : genTables = specTables := by
  unfold genTables specTables
  rw [gen_charge_eq_published, gen_kd_eq_published, gen_kdUversky_eq_published, gen_ww_eq_published,
    gen_ppiiHilser_eq_published, gen_ppiiCreamer_eq_published, gen_ppiiKallenbach_eq_published,
    gen_mw_eq_published, gen_disorder_eq_published, gen_expanding_eq_published, gen_omegaX_eq_published]

end Cider.C04
