/-
  C13 (tie) — the concrete `upper` / `isspace` the driver runs with (ASCII rules + the interpreter's
  Unicode tables regenerated on this run) satisfy the hypotheses of the C13 theorems.
-/
import Cider.Props.C13
import Cider.Model.TextOps
namespace Cider.C13
open Cider

theorem ofChar?_some (c : Char) (a : AA) (h : AA.ofChar? c = some a) : c = a.toChar := by
  unfold AA.ofChar? at h
  split at h <;> first | (injection h with h; subst h; rfl) | cases h

/-- the 20 letters are not white space … -/
theorem pyOps_letters_not_space : ∀ c, (AA.ofChar? c).isSome → pyOps.isspace c = false := by
  intro c h
  obtain ⟨a, ha⟩ := Option.isSome_iff_exists.mp h
  rw [ofChar?_some c a ha]
  cases a <;> decide

/-- … and are fixed by upper-casing; lower-case letters map to their capitals -/
theorem pyOps_upper_letters : ∀ a : AA, pyOps.upper a.toChar = [a.toChar] := by
  intro a; cases a <;> decide

theorem pyOps_upper_lowercase :
    pyOps.upper 'a' = ['A'] ∧ pyOps.upper 'k' = ['K'] ∧ pyOps.upper 'y' = ['Y'] ∧ pyOps.upper 'b' = ['B'] ∧
    pyOps.isspace ' ' = true ∧ pyOps.isspace '\t' = true ∧ pyOps.isspace '\n' = true ∧ pyOps.isspace '-' = false := by
  decide

/-- so for Python's own upper/isspace: construction succeeds iff the normalised string is a non-empty
    word over the 20 letters -/
theorem construct_py_ok_iff (cs : List Char) (w : Seq) :
    construct pyOps (.str cs) = .ok w ↔
      w ≠ [] ∧ Seq.ofChars? ((cs.flatMap pyOps.upper).filter (fun c => !pyOps.isspace c)) = some w :=
  construct_ok_iff pyOps pyOps_letters_not_space cs w

theorem construct_py_idempotent (w : Seq) (hw : w ≠ []) : construct pyOps (.str (w.map AA.toChar)) = .ok w :=
  construct_idempotent pyOps pyOps_upper_letters w hw

/-! non-vacuity -/
example : construct pyOps (.str ['k', ' ', 'e', '\n', 'G']) = .ok [.K, .E, .G] := by decide
example : construct pyOps (.str ['k', '1']) = .error .invalidResidue := by decide
example : construct pyOps (.str [' ', '\t']) = .error .zeroDivision := by decide

end Cider.C13
