/-
  C10 — sliding-window profiles report each window's statistic at its centre position.
  ONLY property theorems.
-/
import Cider.Lemmas.Blobs
import Cider.Model.Profiles
import Cider.Model.TablesSpec

namespace Cider.C10
open Cider

/-- the code's `flank = int(w/2)` arithmetic gives floor((w−1)/2) leading and ceil((w−1)/2) = floor(w/2)
    trailing empty positions, for every 1 ≤ w ≤ N -/
theorem flanks_eq (w N : Nat) (h1 : 1 ≤ w) (h2 : w ≤ N) : flanks w N = ((w - 1) / 2, w / 2) := by
  unfold flanks
  simp only []
  split
  · rename_i h
    have : w % 2 = 1 := by omega
    congr 1; omega
  · rename_i h
    have : w % 2 = 0 := by omega
    congr 1; omega

theorem wins_length {α : Type} (w : Nat) (l : List α) : (wins w l).length = l.length + 1 - w := by
  unfold wins; simp

/-- a profile is answered iff the window fits; the value row is then zeros / window statistics / zeros -/
theorem profile_ok_iff {α : Type} (stat : List α → Rat) (w : Nat) (l : List α) (v : List Rat) :
    profile stat w l = .ok v ↔
      w ≤ l.length ∧ v = zerosQ (flanks w l.length).1 ++ (wins w l).map stat ++ zerosQ (flanks w l.length).2 := by
  unfold profile
  by_cases h : l.length < w
  · rw [if_pos h]; simp; omega
  · rw [if_neg h]; simp only [Except.ok.injEq]
    constructor
    · intro e; exact ⟨by omega, e.symm⟩
    · intro ⟨_, e⟩; exact e.symm

/-- a window longer than the sequence is rejected with an error instead of being answered -/
theorem window_guard {α : Type} (stat : List α → Rat) (w : Nat) (l : List α) (h : l.length < w) :
    profile stat w l = .error .windowTooLong := by
  unfold profile; rw [if_pos h]

/-- one column per residue: the value row has length N (so the `vstack` with positions 1..N is well shaped) -/
theorem profile_length {α : Type} (stat : List α → Rat) (w : Nat) (l : List α) (v : List Rat)
    (h1 : 1 ≤ w) (h : profile stat w l = .ok v) : v.length = l.length ∧ (positions1N l.length).length = l.length := by
  obtain ⟨hw, rfl⟩ := (profile_ok_iff stat w l v).mp h
  rw [flanks_eq w l.length h1 hw]
  simp [zerosQ, wins_length, positions1N]
  omega

/-- the entry at (0-based) index i + floor((w−1)/2) is the statistic of the window starting at residue i -/
theorem profile_entry {α : Type} (stat : List α → Rat) (w : Nat) (l : List α) (v : List Rat)
    (h1 : 1 ≤ w) (h : profile stat w l = .ok v) (i : Nat) (hi : i + w ≤ l.length) :
    v[i + (w - 1) / 2]? = some (stat ((l.drop i).take w)) := by
  obtain ⟨hw, rfl⟩ := (profile_ok_iff stat w l v).mp h
  rw [flanks_eq w l.length h1 hw]
  simp only [zerosQ]
  generalize hk : (w - 1) / 2 = k
  have hM : ((wins w l).map stat).length = l.length + 1 - w := by simp [wins_length]
  rw [List.append_assoc, List.getElem?_append_right (by simp)]
  have e : i + k - (List.replicate k (0 : Rat)).length = i := by simp
  rw [e, List.getElem?_append_left (by rw [hM]; omega)]
  have hi' : i < l.length + 1 - w := by omega
  simp [wins, hi']

/-- the floor((w−1)/2) leading and ceil((w−1)/2) trailing positions hold 0 -/
theorem profile_flanks_zero {α : Type} (stat : List α → Rat) (w : Nat) (l : List α) (v : List Rat)
    (h1 : 1 ≤ w) (h : profile stat w l = .ok v) (j : Nat) (hj : j < l.length)
    (hout : j < (w - 1) / 2 ∨ l.length - w / 2 ≤ j) : v[j]? = some 0 := by
  obtain ⟨hw, rfl⟩ := (profile_ok_iff stat w l v).mp h
  rw [flanks_eq w l.length h1 hw]
  simp only [zerosQ]
  generalize hk : (w - 1) / 2 = k at hout
  generalize hk2 : w / 2 = k2 at hout
  have hkk : k + k2 + 1 = w := by omega
  have hM : ((wins w l).map stat).length = l.length + 1 - w := by simp [wins_length]
  rcases hout with hlt | hge
  · rw [List.append_assoc, List.getElem?_append_left (by simp; exact hlt)]
    simp [hlt]
  · rw [List.getElem?_append_right (by simp [hM]; omega)]
    have hlt2 : j - (k + (wins w l).length) < k2 := by
      rw [wins_length]; omega
    simp only [List.length_append, List.length_replicate, List.length_map]
    rw [List.getElem?_replicate]; simp [hlt2]

/-! ### w = N: the single window value is the whole-sequence parameter -/

theorem wins_full {α : Type} (l : List α) (h : l ≠ []) : wins l.length l = [l] := by
  unfold wins
  have : l.length + 1 - l.length = 1 := by omega
  rw [this]; simp

theorem full_window_ncpr (T : Tables) (s : Seq) (hs : s ≠ []) :
    (wins s.length (patternOf T s)).map (statNCPR s.length) = [ncpr T s] := by
  have hl : (patternOf T s).length = s.length := by simp [patternOf]
  have hne : patternOf T s ≠ [] := by intro e; rw [e] at hl; simp at hl; exact hs (List.length_eq_zero_iff.mp hl.symm)
  rw [← hl, wins_full _ hne]; simp [statNCPR, ncpr, nPos, nNeg, hl]

theorem full_window_fcr (T : Tables) (s : Seq) (hs : s ≠ []) :
    (wins s.length (patternOf T s)).map (statFCR s.length) = [fcr T s] := by
  have hl : (patternOf T s).length = s.length := by simp [patternOf]
  have hne : patternOf T s ≠ [] := by intro e; rw [e] at hl; simp at hl; exact hs (List.length_eq_zero_iff.mp hl.symm)
  rw [← hl, wins_full _ hne]; simp [statFCR, fcr, nPos, nNeg, hl]

theorem full_window_sigma (T : Tables) (s : Seq) (hs : s ≠ []) :
    (wins s.length (patternOf T s)).map (statSigma s.length) = [seqSigma T s] := by
  have hl : (patternOf T s).length = s.length := by simp [patternOf]
  have hne : patternOf T s ≠ [] := by intro e; rw [e] at hl; simp at hl; exact hs (List.length_eq_zero_iff.mp hl.symm)
  rw [← hl, wins_full _ hne]; simp [statSigma, seqSigma, sigma, hl]

theorem full_window_hydropathy (T : Tables) (s : Seq) (hs : s ≠ []) :
    (wins s.length s).map (statHydro T s.length) = [uverskyHydropathy T s] := by
  rw [wins_full _ hs]
  simp only [List.map_cons, List.map_nil, statHydro, uverskyHydropathy, meanOf]
  rw [foldl_add (fun a => ndToRat (T.kdU a)), foldl_add_div (fun a => ndToRat (T.kdU a))]
  simp

theorem full_window_density (g : List AA) (s : Seq) (hs : s ≠ []) :
    (wins s.length s).map (statDensity g s.length) = [((s.countP (fun a => decide (a ∈ g)) : Nat) : Rat) / (s.length : Rat)] := by
  rw [wins_full _ hs]
  simp only [List.map_cons, List.map_nil, statDensity]
  rw [foldl_add (fun a => if a ∈ g then (1 : Rat) else 0)]
  congr 2
  rw [zero_add]
  induction s with
  | nil => simp
  | cons a rest ih =>
    by_cases hr : rest = []
    · subst hr; by_cases ha : a ∈ g <;> simp [ha]
    · have := ih hr
      by_cases ha : a ∈ g <;> simp [List.countP_cons, ha, this] <;> ring

/-- delta is the mean over w = 5, 6 of the mean squared deviation of the window values of the sigma
    profile from the whole-sequence sigma -/
theorem delta_from_sigma_windows (p : Pattern) :
    delta p = ((((wins 5 p).map (fun b => (sigma p - statSigma 5 b) * (sigma p - statSigma 5 b))).sum / ((wins 5 p).length : Rat)) +
               (((wins 6 p).map (fun b => (sigma p - statSigma 6 b) * (sigma p - statSigma 6 b))).sum / ((wins 6 p).length : Rat))) / 2 := by
  unfold delta
  rw [deltaForm_sum, deltaForm_sum]
  rfl

theorem mapExcept_length {α β : Type} (f : α → Except Err β) (l : List α) (r : List β)
    (h : mapExcept f l = .ok r) : r.length = l.length := by
  induction l generalizing r with
  | nil => simp [mapExcept] at h; subst h; rfl
  | cons x xs ih =>
    unfold mapExcept at h
    cases hx : f x with
    | error e => rw [hx] at h; cases h
    | ok y =>
      rw [hx] at h
      cases hr : mapExcept f xs with
      | error e => rw [hr] at h; cases h
      | ok ys => rw [hr] at h; simp at h; subst h; simp [ih ys hr]

/-- composition: one value row per group, in the order given (seven rows for the default groups) -/
theorem composition_rows (w : Nat) (grps : List (List PyMember)) (s : Seq) (rows : List (List Rat))
    (h : linComposition w grps s = .ok rows) :
    rows.length = (if grps.isEmpty then 7 else grps.length) := by
  unfold linComposition at h
  by_cases hg : grps.isEmpty = true
  · rw [if_pos hg] at h ⊢
    simp only [] at h
    have := mapExcept_length _ _ _ h
    rw [this]; rfl
  · rw [if_neg hg] at h ⊢
    cases hp : mapExcept parseGroup grps with
    | error e => rw [hp] at h; cases h
    | ok gs =>
      rw [hp] at h
      simp only [] at h
      rw [mapExcept_length _ _ _ h, mapExcept_length _ _ _ hp]

/-! non-vacuity -/
example : linNCPR specTables 5 [.K, .E, .G, .G, .K, .E] = .ok [0, 0, 1/5, -1/5, 0, 0] := by decide +kernel
example : linNCPR specTables 4 [.K, .E, .G, .G, .K, .E] = .ok [0, 0, 0, 0, 0, 0] := by decide +kernel
example : linNCPR specTables 7 [.K, .E, .G, .G, .K, .E] = .error .windowTooLong := by decide +kernel

end Cider.C10
