/-
  C15 — read-only queries are history-independent and never change the object.
  ONLY property theorems.
-/
import Cider.Model.Object
import Cider.Model.Profiles
import Mathlib.Tactic.Basic
import Mathlib.Data.List.Basic

namespace Cider.C15
open Cider

/-- the read-only queries: the three that touch the delta-max cache, and every other getter, which is
    a function of the stored sequence, phosphosite list and palette only -/
inductive Query
  | kappa
  | deltaMax (ret : Bool)
  | kappaAfterPhos
  | pure (f : Seq → List Nat → Palette → String)

inductive QOut
  | rat (q : Rat)
  | dmax (d : Rat) (p : Option Seq)
  | str (s : String)
  deriving DecidableEq

/-- one read-only API call on one object: new object state (cache!) and the value returned -/
def query (T : Tables) (o : Obj) : Query → Obj × QOut
  | .kappa => let r := o.kappa T; (r.1, .rat r.2)
  | .deltaMax ret => let r := o.deltaMax T ret; (r.1, .dmax r.2.1 r.2.2)
  | .kappaAfterPhos => let r := o.kappaAfterPhos T; (r.1, .rat r.2)
  | .pure f => (o, .str (f o.seq o.phos o.pal))

/-- the invariant that makes the cache unobservable: a cached delta-max is the true one, a cached
    permutant is the one a fresh search returns -/
def CacheOK (T : Tables) (o : Obj) : Prop :=
  (o.dmaxC = none ∨ o.dmaxC = some (seqDmax T o.seq)) ∧
  (o.permC = none ∨ (o.permC = some (dmaxPermutant T o.seq) ∧ o.dmaxC = some (seqDmax T o.seq)))

/-- the object a user would get by constructing it anew with the same sequence, sites and palette -/
def freshOf (o : Obj) : Obj := { o with dmaxC := none, permC := none }

theorem cacheOK_fresh (T : Tables) (pal : Palette) (s : Seq) : CacheOK T (Obj.fresh pal s) := by
  unfold CacheOK Obj.fresh; simp

theorem deltaMax_spec (T : Tables) (o : Obj) (h : CacheOK T o) (ret : Bool) :
    let r := o.deltaMax T ret
    r.2.1 = seqDmax T o.seq ∧ r.2.2 = (if ret then some (dmaxPermutant T o.seq) else none) ∧
    r.1.seq = o.seq ∧ r.1.phos = o.phos ∧ r.1.pal = o.pal ∧ CacheOK T r.1 := by
  obtain ⟨h1, h2⟩ := h
  unfold Obj.deltaMax CacheOK
  cases ret with
  | false =>
    simp only [Bool.false_eq_true, false_and, if_false]
    rcases h1 with h1 | h1
    · rcases h2 with h2 | ⟨h2, h3⟩
      · simp [h1, h2]
      · rw [h1] at h3; cases h3
    · rcases h2 with h2 | ⟨h2, _⟩
      · simp [h1, h2]
      · simp [h1, h2]
  | true =>
    rcases h2 with h2 | ⟨h2, h3⟩
    · simp [h2]
    · simp [h2, h3]

/-- every query keeps the invariant and never touches sequence, phosphosites or palette -/
theorem query_preserves (T : Tables) (o : Obj) (h : CacheOK T o) (q : Query) :
    CacheOK T (query T o q).1 ∧ (query T o q).1.seq = o.seq ∧ (query T o q).1.phos = o.phos ∧
    (query T o q).1.pal = o.pal := by
  cases q with
  | kappa =>
    obtain ⟨_, _, a, b, c, d⟩ := deltaMax_spec T o h false
    exact ⟨d, a, b, c⟩
  | deltaMax ret =>
    obtain ⟨_, _, a, b, c, d⟩ := deltaMax_spec T o h ret
    exact ⟨d, a, b, c⟩
  | kappaAfterPhos =>
    unfold query Obj.kappaAfterPhos
    by_cases hp : o.phos = []
    · simp only [hp, if_true]
      obtain ⟨_, _, a, b, c, d⟩ := deltaMax_spec T o h false
      exact ⟨d, a, by rw [← hp]; exact b, c⟩
    · simp only [hp, if_false]; exact ⟨h, trivial, trivial, trivial⟩
  | pure f => exact ⟨h, rfl, rfl, rfl⟩

/-- **the value returned does not depend on what was asked before**: under the invariant every query
    returns what it returns on a freshly constructed object -/
theorem query_out_eq_fresh (T : Tables) (o : Obj) (h : CacheOK T o) (q : Query) :
    (query T o q).2 = (query T (freshOf o) q).2 := by
  have hf : CacheOK T (freshOf o) := by unfold CacheOK freshOf; simp
  cases q with
  | kappa =>
    obtain ⟨a, _⟩ := deltaMax_spec T o h false
    obtain ⟨a', _⟩ := deltaMax_spec T (freshOf o) hf false
    simp only [query, Obj.kappa]
    rw [a, a']; rfl
  | deltaMax ret =>
    obtain ⟨a, b, _⟩ := deltaMax_spec T o h ret
    obtain ⟨a', b', _⟩ := deltaMax_spec T (freshOf o) hf ret
    simp only [query]
    rw [a, a', b, b']; rfl
  | kappaAfterPhos =>
    simp only [query, Obj.kappaAfterPhos]
    by_cases hp : o.phos = []
    · have hp' : (freshOf o).phos = [] := hp
      simp only [hp, hp', if_true, Obj.kappa]
      obtain ⟨a, _⟩ := deltaMax_spec T o h false
      obtain ⟨a', _⟩ := deltaMax_spec T (freshOf o) hf false
      rw [a, a']; rfl
    · have hp' : ¬ (freshOf o).phos = [] := hp
      simp only [hp, hp', if_false]; rfl
  | pure f => rfl

/-- a world of live objects; a history is a list of (object index, query) -/
def stepWorld (T : Tables) (w : List Obj) (iq : Nat × Query) : List Obj × Option QOut :=
  match w[iq.1]? with
  | none => (w, none)
  | some o => let r := query T o iq.2; (w.set iq.1 r.1, some r.2)

def runWorld (T : Tables) : List Obj → List (Nat × Query) → List Obj × List (Option QOut)
  | w, [] => (w, [])
  | w, iq :: rest =>
    let r := stepWorld T w iq
    let r' := runWorld T r.1 rest
    (r'.1, r.2 :: r'.2)

def WorldOK (T : Tables) (w : List Obj) : Prop := ∀ o ∈ w, CacheOK T o

/-- what a history returns if every call is made on a brand-new copy of the object it addresses -/
def freshAnswers (T : Tables) (w : List Obj) (hist : List (Nat × Query)) : List (Option QOut) :=
  hist.map (fun iq => (w[iq.1]?).map (fun o => (query T (freshOf o) iq.2).2))

theorem stepWorld_ok (T : Tables) (w : List Obj) (hw : WorldOK T w) (iq : Nat × Query) :
    WorldOK T (stepWorld T w iq).1 ∧ (stepWorld T w iq).1.map freshOf = w.map freshOf ∧
    (stepWorld T w iq).2 = (w[iq.1]?).map (fun o => (query T (freshOf o) iq.2).2) := by
  unfold stepWorld
  cases ho : w[iq.1]? with
  | none => exact ⟨hw, rfl, rfl⟩
  | some o =>
    have hmem : o ∈ w := List.mem_of_getElem? ho
    have hok := hw o hmem
    obtain ⟨p1, p2, p3, p4⟩ := query_preserves T o hok iq.2
    refine ⟨?_, ?_, ?_⟩
    · intro x hx
      rcases List.mem_or_eq_of_mem_set hx with hx | hx
      · exact hw x hx
      · rw [hx]; exact p1
    · simp only []
      rw [List.map_set]
      have hi : iq.1 < w.length := (List.getElem?_eq_some_iff.mp ho).1
      have : freshOf (query T o iq.2).1 = freshOf o := by
        unfold freshOf
        cases hq : (query T o iq.2).1
        rw [hq] at p2 p3 p4
        simp only at p2 p3 p4
        cases o
        simp_all
      rw [this]
      apply List.ext_getElem?
      intro j
      by_cases hj : j = iq.1
      · subst hj
        have ho' : w[iq.1] = o := (List.getElem?_eq_some_iff.mp ho).2
        simp [hi, ho']
      · rw [List.getElem?_set_ne (Ne.symm hj)]
    · simp only [Option.map_some]
      rw [query_out_eq_fresh T o hok]

/-- **history independence**: for every finite history of read-only calls on any number of live objects
    (started from objects satisfying the invariant, e.g. freshly constructed ones), every call returns
    exactly what it returns on a freshly constructed object — whatever was called before, on the same or
    on other objects — and sequences, phosphosite lists and palettes are unchanged at the end -/
theorem history_independent (T : Tables) (w : List Obj) (hw : WorldOK T w) (hist : List (Nat × Query)) :
    (runWorld T w hist).2 = freshAnswers T w hist ∧
    (runWorld T w hist).1.map freshOf = w.map freshOf ∧ WorldOK T (runWorld T w hist).1 := by
  induction hist generalizing w with
  | nil => exact ⟨rfl, rfl, hw⟩
  | cons iq rest ih =>
    obtain ⟨s1, s2, s3⟩ := stepWorld_ok T w hw iq
    obtain ⟨i1, i2, i3⟩ := ih (stepWorld T w iq).1 s1
    unfold runWorld
    simp only []
    refine ⟨?_, by rw [i2, s2], i3⟩
    rw [i1, s3]
    unfold freshAnswers
    simp only [List.map_cons, List.cons.injEq, true_and]
    apply List.map_congr_left
    intro jq _
    -- the fresh copy of the addressed object is the same before and after the step
    have : ((stepWorld T w iq).1.map freshOf)[jq.1]? = (w.map freshOf)[jq.1]? := by rw [s2]
    simp only [List.getElem?_map] at this
    cases h1 : (stepWorld T w iq).1[jq.1]? with
    | none =>
      cases h2 : w[jq.1]? with
      | none => rfl
      | some o2 => rw [h1, h2] at this; cases this
    | some o1 =>
      cases h2 : w[jq.1]? with
      | none => rw [h1, h2] at this; cases this
      | some o2 =>
        rw [h1, h2] at this
        simp only [Option.map_some, Option.some.injEq] at this ⊢
        rw [this]

/-- read-only frame: whatever the history, the stored sequence and phosphosite list of every object are
    what they were -/
theorem readonly_frame (T : Tables) (w : List Obj) (hw : WorldOK T w) (hist : List (Nat × Query)) :
    (runWorld T w hist).1.map (fun o => (o.seq, o.phos)) = w.map (fun o => (o.seq, o.phos)) := by
  have h := (history_independent T w hw hist).2.1
  have e : ∀ l : List Obj, l.map (fun o => (o.seq, o.phos)) = (l.map freshOf).map (fun o => (o.seq, o.phos)) := by
    intro l; rw [List.map_map]; rfl
  rw [e (runWorld T w hist).1, h, ← e]

/-- the shared mutable default argument is unobservable: after its first use the default list holds the
    seven default groups as strings, and passing those explicitly gives the same answer as the default -/
theorem default_groups_unobservable (w : Nat) (s : Seq) :
    linComposition w (defaultGroups.map (fun g => g.map (fun a => PyMember.str [a.toChar]))) s
      = linComposition w [] s := by
  unfold linComposition
  have : mapExcept parseGroup (defaultGroups.map (fun g => g.map (fun a => PyMember.str [a.toChar]))) = .ok defaultGroups := by
    decide
  simp only [this]
  rfl

end Cider.C15
