/-
  C12 — reduced alphabets implement the documented residue partitions.   ONLY property theorems.
  The per-residue facts quantify over the REGENERATED table (all 26 probed sizes × 20 residues).
-/
import Cider.Model.Profiles
import Cider.Spec.Partitions
import Cider.Gen.Tables
import Mathlib.Tactic.Basic
import Mathlib.Data.List.Basic

namespace Cider.C12
open Cider

/-- the group of the documented partition that contains `a` -/
def groupOf (P : List (List AA)) (a : AA) : Option (List AA) := P.find? (fun g => g.contains a)

/-- everything the statement says about one predefined size, as a decidable check -/
def sizeOK (k : Nat) : Bool :=
  match Gen.reduceTab k, Gen.alphabetTab k, Spec.partitions k with
  | some f, some al, some P =>
    -- exactly k groups, a partition of the 20 residues
    P.length == k && AA.all.all (fun a => (P.filter (fun g => g.contains a)).length == 1) &&
    -- every residue is mapped to a member of its own documented group, the same one for the whole group
    AA.all.all (fun a => match groupOf P a with
      | some g => g.contains (f a) && g.all (fun b => f b == f a)
      | none => false) &&
    -- reducing twice changes nothing
    AA.all.all (fun a => f (f a) == f a) &&
    -- the alphabet lists exactly the representatives, each once
    al.length == k && AA.all.all (fun a => al.contains (f a)) && al.all (fun x => (al.filter (· == x)).length == 1 && AA.all.any (fun a => f a == x))
  | none, none, none => true
  | _, _, _ => false

/-- **all 12 predefined sizes implement the documented partitions** (and no other size is accepted):
    checked by the kernel against the table regenerated from the live code, sizes 0..25 × 20 residues -/
theorem sizes_implement_documented_partitions : (List.range 26).all sizeOK = true := by decide +kernel

/-- a size is accepted iff it is one of the twelve documented ones (among all sizes 0..25 probed) -/
theorem sizes_accepted_iff :
    ∀ k ∈ List.range 26, (Gen.reduceTab k).isSome = Spec.documentedSizes.contains k := by decide +kernel

theorem probed_sizes : Gen.probedSizes = List.range 26 := by decide

/-! ### sequence-level laws: the reduction is applied residue by residue -/

theorem reduce_ok (rt : Nat → Option (AA → AA)) (at' : Nat → Option (List AA)) (k : Nat) (f : AA → AA) (al : List AA)
    (h1 : rt k = some f) (h2 : at' k = some al) (s : Seq) :
    reduceSeq rt at' (some k) none s = .ok (s.map f, al) := by
  unfold reduceSeq; simp [h1, h2]

/-- same length -/
theorem reduce_length (f : AA → AA) (s : Seq) : (s.map f).length = s.length := List.length_map _

/-- reducing a concatenation = concatenating the reductions -/
theorem reduce_append (f : AA → AA) (s t : Seq) : (s ++ t).map f = s.map f ++ t.map f := List.map_append

/-- reducing twice changes nothing (given the per-residue idempotence proved above for every size) -/
theorem reduce_idempotent (f : AA → AA) (hf : ∀ a, f (f a) = f a) (s : Seq) : (s.map f).map f = s.map f := by
  rw [List.map_map]; apply List.map_congr_left; intro a _; exact hf a

theorem reduce_entrywise (f : AA → AA) (s : Seq) (i : Nat) : (s.map f)[i]? = (s[i]?).map f := by simp

/-- a size outside the table is rejected -/
theorem reduce_rejects_size (rt : Nat → Option (AA → AA)) (at' : Nat → Option (List AA)) (k : Nat)
    (h : rt k = none) (s : Seq) : reduceSeq rt at' (some k) none s = .error .badAlphabetSize := by
  unfold reduceSeq; simp [h]

/-! ### user alphabets -/

theorem imageOf_some_iff (u : UserAlphabet) (a b : AA) :
    imageOf u a = some b ↔ ∃ c, u a = some [c] ∧ AA.ofChar? c = some b := by
  unfold imageOf
  cases hu : u a with
  | none => simp
  | some cs =>
    match cs with
    | [] => simp
    | [c] => simp
    | c :: d :: r => simp

/-- a user alphabet is accepted exactly when it maps every one of the 20 residues to a single
    upper-case amino-acid letter -/
theorem user_accepted_iff (u : UserAlphabet) :
    (userAlphabetMap u).isSome ↔ ∀ a : AA, ∃ c b, u a = some [c] ∧ AA.ofChar? c = some b := by
  unfold userAlphabetMap
  have hall : ∀ a : AA, a ∈ AA.all := by intro a; cases a <;> decide
  split
  · rename_i h
    simp only [Option.isSome_some, true_iff]
    intro a
    have := (List.all_eq_true.mp h) a (hall a)
    obtain ⟨b, hb⟩ := Option.isSome_iff_exists.mp this
    obtain ⟨c, h1, h2⟩ := (imageOf_some_iff u a b).mp hb
    exact ⟨c, b, h1, h2⟩
  · rename_i h
    simp only [Option.isSome_none, Bool.false_eq_true, false_iff]
    intro hex
    apply h
    rw [List.all_eq_true]
    intro a _
    obtain ⟨c, b, h1, h2⟩ := hex a
    rw [(imageOf_some_iff u a b).mpr ⟨c, h1, h2⟩]; rfl

/-- … and is then applied residue by residue: every residue is replaced by the letter it is bound to -/
theorem user_applied_residuewise (rt : Nat → Option (AA → AA)) (at' : Nat → Option (List AA)) (size : Option Nat)
    (u : UserAlphabet) (f : AA → AA) (h : userAlphabetMap u = some f) (s : Seq) :
    reduceSeq rt at' size (some u) s = .ok (s.map f, userAlphabetLetters f) ∧
    ∀ a, ∃ c, u a = some [c] ∧ AA.ofChar? c = some (f a) := by
  constructor
  · unfold reduceSeq; simp [h]
  · intro a
    have hs : (userAlphabetMap u).isSome := by rw [h]; rfl
    obtain ⟨c, b, h1, h2⟩ := (user_accepted_iff u).mp hs a
    refine ⟨c, h1, ?_⟩
    unfold userAlphabetMap at h
    split at h
    · injection h with h
      rw [← h]; simp only []
      rw [(imageOf_some_iff u a b).mpr ⟨c, h1, h2⟩, h2]; rfl
    · cases h

theorem user_rejected (rt : Nat → Option (AA → AA)) (at' : Nat → Option (List AA)) (size : Option Nat)
    (u : UserAlphabet) (h : userAlphabetMap u = none) (s : Seq) :
    reduceSeq rt at' size (some u) s = .error .badAlphabet := by
  unfold reduceSeq; simp [h]

end Cider.C12
