/-
  C03 — delta-max is attained, composition-only, and matches the documented search.
  ONLY property theorems (+ non-vacuity examples).
-/
import Cider.Lemmas.Dmax
import Cider.Props.C02
import Cider.Model.TablesSpec

namespace Cider.C03
open Cider

/-- whenever a charged residue exists the documented family is non-empty … -/
theorem candidates_nonempty (np nn n0 : Nat) (h : 0 < np + nn) : candidates np nn n0 ≠ [] :=
  Cider.candidates_nonempty np nn n0 h

/-- … and every member is an arrangement of exactly that composition (so the code's
    "Error in DeltaMax calculation" raises are dead) -/
theorem candidates_composition (np nn n0 : Nat) :
    ∀ c ∈ candidates np nn n0, countPos c = np ∧ countNeg c = nn ∧ countNeut c = n0 := by
  intro c hc
  unfold candidates at hc
  split_ifs at hc with h1 h2 h3 h4 h5
  · simp at hc
  · subst h2
    unfold candOneType at hc
    split_ifs at hc <;>
      (simp only [List.mem_map, List.mem_range] at hc; obtain ⟨i, hi, rfl⟩ := hc; simp; omega)
  · subst h3
    unfold candOneType at hc
    split_ifs at hc <;>
      (simp only [List.mem_map, List.mem_range] at hc; obtain ⟨i, hi, rfl⟩ := hc; simp; omega)
  · subst h4
    unfold candNoNeut at hc
    split_ifs at hc <;>
      (simp only [List.mem_map, List.mem_range] at hc; obtain ⟨i, hi, rfl⟩ := hc; simp; omega)
  · unfold candManyNeut at hc
    simp only [List.mem_flatMap, List.mem_map, List.mem_range] at hc
    obtain ⟨s, hs, e, he, rfl⟩ := hc
    simp; omega
  · unfold candGeneral at hc
    simp only [List.mem_flatMap, List.mem_map, List.mem_range] at hc
    obtain ⟨m, hm, s, hs, rfl⟩ := hc
    simp; omega

theorem dmax_nonneg (np nn n0 : Nat) : 0 ≤ dmaxComp np nn n0 := by
  by_cases h : np + nn = 0
  · unfold dmaxComp; rw [if_pos h]
  · obtain ⟨_, c, _, e, _⟩ := dmaxComp_spec np nn n0 (by omega)
    rw [← e]; exact Cider.delta_nonneg c

/-- **delta-max is the largest delta of the documented family**: an upper bound of every candidate's
    delta, attained by a candidate — for every composition with a charged residue; 0 otherwise -/
theorem dmax_eq_family_max (np nn n0 : Nat) :
    (np + nn = 0 → dmaxComp np nn n0 = 0) ∧
    (0 < np + nn →
      (∀ c ∈ candidates np nn n0, delta c ≤ dmaxComp np nn n0) ∧
      (∃ c ∈ candidates np nn n0, delta c = dmaxComp np nn n0 ∧ dmaxArgComp np nn n0 = some c)) := by
  constructor
  · intro h; unfold dmaxComp; rw [if_pos h]
  · intro h; exact dmaxComp_spec np nn n0 h

/-- delta-max depends only on the numbers of positive, negative and neutral residues -/
theorem dmax_composition_only (T : Tables) (s t : Seq) (h : s.Perm t) : seqDmax T s = seqDmax T t := by
  have hpat : (patternOf T s).Perm (patternOf T t) := h.map _
  unfold seqDmax dmax countPos countNeg countNeut
  rw [hpat.countP_eq, hpat.countP_eq, hpat.countP_eq]

/-- … and is unchanged by replacing residues by others of the same charge class -/
theorem dmax_respelling (T : Tables) (s t : Seq)
    (h : List.Forall₂ (fun a b => T.charge a = T.charge b) s t) : seqDmax T s = seqDmax T t := by
  have : patternOf T s = patternOf T t := by
    unfold patternOf
    induction h with
    | nil => rfl
    | cons hab _ ih => simp only [List.map_cons, hab, ih]
  unfold seqDmax; rw [this]

theorem filter_pos_length (s : Seq) :
    (s.filter (fun a => a = AA.R ∨ a = AA.K)).length = nPos specTables s := by
  unfold nPos countPos patternOf
  rw [List.countP_map, ← List.countP_eq_length_filter]
  congr 1; funext a; cases a <;> rfl

theorem filter_neg_length (s : Seq) :
    (s.filter (fun a => a = AA.D ∨ a = AA.E)).length = nNeg specTables s := by
  unfold nNeg countNeg patternOf
  rw [List.countP_map, ← List.countP_eq_length_filter]
  congr 1; funext a; cases a <;> rfl

theorem filter_neut_length (s : Seq) :
    (s.filter (fun a => ¬ (a = AA.D ∨ a = AA.E ∨ a = AA.R ∨ a = AA.K))).length = nNeut specTables s := by
  unfold nNeut countNeut patternOf
  rw [List.countP_map, ← List.countP_eq_length_filter]
  congr 1; funext a; cases a <;> rfl

/-- the sequence returned with delta-max is made of exactly the input's residues -/
theorem permutant_perm (s : Seq) (c : Pattern)
    (h1 : countPos c = nPos specTables s) (h2 : countNeg c = nNeg specTables s)
    (h3 : countNeut c = nNeut specTables s) : (permutantFromReduced c s).Perm s := by
  unfold permutantFromReduced
  exact (dealOut_perm c _ _ _ (by rw [filter_pos_length, h1]) (by rw [filter_neg_length, h2])
    (by rw [filter_neut_length, h3])).trans (three_way_perm s)

/-- … and its charge pattern is the candidate it was built from -/
theorem permutant_pattern (s : Seq) (c : Pattern)
    (h1 : countPos c = nPos specTables s) (h2 : countNeg c = nNeg specTables s)
    (h3 : countNeut c = nNeut specTables s) (hc : ∀ x ∈ c, x = 1 ∨ x = -1 ∨ x = 0) :
    patternOf specTables (permutantFromReduced c s) = c := by
  unfold permutantFromReduced
  apply dealOut_pattern specTables c _ _ _ (by rw [filter_pos_length, h1]) (by rw [filter_neg_length, h2])
    (by rw [filter_neut_length, h3]) hc
  · intro a ha; simp only [List.mem_filter] at ha; revert ha; cases a <;> simp [specTables, Spec.charge, chargeSign]
  · intro a ha; simp only [List.mem_filter] at ha; revert ha; cases a <;> simp [specTables, Spec.charge, chargeSign]
  · intro a ha; simp only [List.mem_filter] at ha; revert ha; cases a <;> simp [specTables, Spec.charge, chargeSign]

/-- **delta-max is attained**: `get_deltaMax(True)`'s sequence is a rearrangement of the input
    whose delta equals the value returned — for every sequence -/
theorem dmax_attained (s : Seq) :
    (dmaxPermutant specTables s).Perm s ∧
    seqDelta specTables (dmaxPermutant specTables s) = seqDmax specTables s := by
  unfold dmaxPermutant seqDmax dmax dmaxArg seqDelta
  by_cases h0 : countPos (patternOf specTables s) + countNeg (patternOf specTables s) = 0
  · -- no charged residue: the sequence itself, delta = 0 = dmax
    have e : dmaxArgComp (countPos (patternOf specTables s)) (countNeg (patternOf specTables s))
        (countNeut (patternOf specTables s)) = none := by unfold dmaxArgComp; rw [if_pos h0]
    rw [e]
    refine ⟨List.Perm.refl _, ?_⟩
    unfold dmaxComp; rw [if_pos h0]
    -- delta of an uncharged pattern is 0
    rw [Cider.C02.delta_eq_spec]
    have hz : ∀ w, 0 < w → Spec.deltaW w (patternOf specTables s) = 0 := by
      intro w hw
      · rw [← Cider.C02.deltaForm_eq_spec w hw]
        unfold deltaForm
        simp only []
        have hs : sigma (patternOf specTables s) = 0 := by
          unfold sigma sigmaOf; rw [if_pos h0]
        rw [foldl_add_div]
        have : ∀ b ∈ blobs w (patternOf specTables s),
            (sigma (patternOf specTables s) - sigmaOf (countPos b) (countNeg b) w) *
            (sigma (patternOf specTables s) - sigmaOf (countPos b) (countNeg b) w) = 0 := by
          intro b hb
          have hb0 : countPos b + countNeg b = 0 := by
            unfold blobs at hb
            simp only [List.mem_map, List.mem_range] at hb
            obtain ⟨i, _, rfl⟩ := hb
            have hsub : ((List.drop i (patternOf specTables s)).take w).Sublist (patternOf specTables s) :=
              (List.take_sublist _ _).trans (List.drop_sublist _ _)
            have a1 := hsub.countP_le (p := fun x => decide (0 < x))
            have a2 := hsub.countP_le (p := fun x => decide (x < 0))
            unfold countPos countNeg at h0 ⊢
            omega
          rw [hs]; unfold sigmaOf; rw [if_pos hb0]; ring
        rw [List.map_congr_left this]
        simp
    unfold Spec.delta; rw [hz 5 (by norm_num), hz 6 (by norm_num)]; norm_num
  · have hpos : 0 < countPos (patternOf specTables s) + countNeg (patternOf specTables s) := by omega
    obtain ⟨_, c, hc, e1, e2⟩ := (dmax_eq_family_max _ _ (countNeut (patternOf specTables s))).2 hpos
    rw [e2]
    obtain ⟨c1, c2, c3⟩ := candidates_composition _ _ _ c hc
    have hent := candidates_entries _ _ _ c hc
    refine ⟨permutant_perm s c c1 c2 c3, ?_⟩
    rw [permutant_pattern s c c1 c2 c3 hent, e1]

/-! non-vacuity: the pinned witness of the cache defect, on a fresh object -/
example : dmaxPermutant specTables [.E,.E,.E,.E,.E,.K,.K,.K,.K,.K,.G,.G,.G,.G]
    = [.G,.K,.K,.K,.K,.K,.G,.G,.E,.E,.E,.E,.E,.G] := by decide +kernel
example : seqDmax specTables [.E,.E,.E,.E,.E,.K,.K,.K,.K,.K,.G,.G,.G,.G] = 3817 / 8100 := by decide +kernel

end Cider.C03
