/-
  Cider.Props.C04Src — source-text tie for C04: the no-pH forms of `Sequence.Fplus / Fminus / FCR / NCPR /
  FER / mean_net_charge` as `tools/pyexpr2lean.py` translates them from the live SOURCE on every run
  (Gen/Decisions.lean) are, for ALL arguments, the fractions the C04 theorems are about, and the
  identities FCR = f+ + f-, NCPR = f+ - f-, |NCPR| <= FCR hold of the source text itself.
-/
import Cider.Gen.Decisions
import Cider.Model.SeqParams
import Mathlib.Tactic.Linarith
import Mathlib.Tactic.Ring
import Mathlib.Tactic.FieldSimp
import Mathlib.Tactic.NormNum
import Mathlib.Tactic.Push
import Mathlib.Algebra.Order.Field.Rat
import Mathlib.Algebra.Order.Field.Basic
namespace Cider.C04Src
open Cider

/-- the translated getters are the model's fractions of the same sequence -/
theorem fractions_eq (T : Tables) (s : Seq) :
    Gen.fplusSrc (nPos T s) s.length = .ok (fPlus T s) ∧
    Gen.fminusSrc (nNeg T s) s.length = .ok (fMinus T s) ∧
    Gen.fcrSrc (nPos T s) (nNeg T s) s.length = .ok (fcr T s) ∧
    Gen.ncprSrc (nPos T s) (nNeg T s) s.length = .ok (ncpr T s) ∧
    Gen.ferSrc (nPos T s) (nNeg T s) (s.count AA.P) s.length = .ok (fer T s) ∧
    Gen.mncSrc (ncpr T s) = .ok (meanNetCharge T s) := by
  unfold Gen.fplusSrc Gen.fminusSrc Gen.fcrSrc Gen.ncprSrc Gen.ferSrc Gen.mncSrc fPlus fMinus fcr ncpr fer meanNetCharge
  refine ⟨?_, ?_, ?_, ?_, ?_, rfl⟩ <;> (congr 1; push_cast; ring)

/-- FCR = f+ + f- and NCPR = f+ - f- as identities of the SOURCE TEXT (any counts, any length) -/
theorem source_identities (cp cn len : Rat) :
    (do let a ← Gen.fplusSrc cp len; let b ← Gen.fminusSrc cn len; pure (a + b)) = Gen.fcrSrc cp cn len ∧
    (do let a ← Gen.fplusSrc cp len; let b ← Gen.fminusSrc cn len; pure (a - b)) = Gen.ncprSrc cp cn len := by
  unfold Gen.fplusSrc Gen.fminusSrc Gen.fcrSrc Gen.ncprSrc
  constructor <;> (simp only [bind, Except.bind, pure, Except.pure]; congr 1; ring)

/-- |NCPR| <= FCR <= 1 for the source text, for non-negative counts that fit in the length -/
theorem source_bounds (cp cn len : Rat) (hp : 0 ≤ cp) (hn : 0 ≤ cn) (hl : 0 < len) (hfit : cp + cn ≤ len) :
    ∃ n f m, Gen.ncprSrc cp cn len = .ok n ∧ Gen.fcrSrc cp cn len = .ok f ∧ Gen.mncSrc n = .ok m ∧ m ≤ f ∧ f ≤ 1 ∧ 0 ≤ m := by
  unfold Gen.ncprSrc Gen.fcrSrc Gen.mncSrc
  refine ⟨_, _, _, rfl, rfl, rfl, ?_, ?_, ?_⟩
  · have hl' : 0 < len + 0 / 1 := by simpa using hl
    split_ifs with h
    · rw [← neg_div, div_le_div_iff_of_pos_right hl']; linarith
    · rw [div_le_div_iff_of_pos_right hl']; linarith
  · have hl' : 0 < len + 0 / 1 := by simpa using hl
    rw [div_le_one hl']; linarith
  · split_ifs with h
    · linarith
    · push Not at h; exact h

end Cider.C04Src
