/-
  C20 — HTML rendering shows each residue once, in order, in its palette colour; palette updates
  are all-or-nothing.   ONLY property theorems.
-/
import Cider.Model.Object
import Cider.Spec.Published
import Mathlib.Tactic.Basic
import Mathlib.Data.List.Basic

namespace Cider.C20
open Cider

/-- **structure of the rendering**: prefix, then for the residues in order (numbered from 0) a space
    iff the number is a multiple of 10, a `<br>` iff it is a multiple of 50, and one span carrying the
    residue letter in the palette colour of that residue; then the suffix.  Nothing else. -/
theorem render_structure (pal : AA → List Char) (s : Seq) :
    renderC pal s = htmlPrefixC ++
      (((List.range s.length).zip s).flatMap (fun ia => sepC ia.1 ++ spanC (pal ia.2) ia.2)) ++ htmlSuffixC := by
  unfold renderC
  congr 2
  have gen : ∀ (i : Nat), renderFromC pal i s =
      (((List.range s.length).map (· + i)).zip s).flatMap (fun ia => sepC ia.1 ++ spanC (pal ia.2) ia.2) := by
    induction s with
    | nil => intro i; rfl
    | cons a rest ih =>
      intro i
      simp only [renderFromC, List.length_cons, List.range_succ_eq_map, List.map_cons, List.zip_cons_cons,
        List.flatMap_cons, Nat.zero_add, List.map_map, ih (i + 1), List.append_assoc]
      congr 4
      apply List.map_congr_left
      intro x _
      simp [Function.comp]; omega
  have := gen 0
  simpa using this

theorem sep_blocks (i : Nat) :
    sepC i = (if i % 10 = 0 then [' '] else []) ++ (if i % 50 = 0 then brC else []) := rfl

/-- inside a tag everything up to the closing '>' is dropped -/
theorem strip_in_tag (l tl : List Char) (hl : ∀ c ∈ l, c ≠ '>') :
    stripMarkup (l ++ '>' :: tl) true = stripMarkup tl false := by
  induction l with
  | nil => simp [stripMarkup]
  | cons c cs ih =>
    have hc := hl c List.mem_cons_self
    have := ih (fun x hx => hl x (List.mem_cons_of_mem _ hx))
    rw [List.cons_append, stripMarkup]
    by_cases h1 : c = '<'
    · rw [if_pos h1]; exact this
    · rw [if_neg h1, if_neg (by simp [hc]), if_pos (Or.inl rfl)]; exact this

/-- stripping one span leaves exactly the residue letter -/
theorem strip_span (col : List Char) (a : AA) (hcol : ∀ c ∈ col, c ≠ '>') (rest : List Char) :
    stripMarkup (spanC col a ++ rest) false = a.toChar :: stripMarkup rest false := by
  unfold spanC spanOpenC spanMidC spanCloseC
  simp only [List.cons_append, List.append_assoc, List.nil_append]
  rw [stripMarkup, if_pos rfl]
  have h1 := strip_in_tag (['s','p','a','n',' ','s','t','y','l','e','=','"','c','o','l','o','r',':'] ++ col ++ ['"'])
    (a.toChar :: '<' :: '/' :: 's' :: 'p' :: 'a' :: 'n' :: '>' :: rest) (by
      intro c hc
      simp only [List.mem_append, List.mem_singleton] at hc
      rcases hc with (hc | hc) | hc
      · revert c; decide
      · exact hcol c hc
      · subst hc; decide)
  simp only [List.cons_append, List.append_assoc, List.nil_append] at h1
  rw [h1]
  have hl : a.toChar ≠ '<' ∧ a.toChar ≠ '>' ∧ a.toChar ≠ ' ' := by cases a <;> decide
  have h3 : stripMarkup ('<' :: '/' :: 's' :: 'p' :: 'a' :: 'n' :: '>' :: rest) false = stripMarkup rest false := by
    rw [stripMarkup, if_pos rfl]
    have h2 := strip_in_tag ['/','s','p','a','n'] rest (by decide)
    simpa using h2
  rw [stripMarkup, if_neg hl.1, if_neg (by simp [hl.2.1]), if_neg (by simp [hl.2.2]), h3]

theorem strip_sep (i : Nat) (rest : List Char) : stripMarkup (sepC i ++ rest) false = stripMarkup rest false := by
  unfold sepC brC
  by_cases h10 : i % 10 = 0 <;> by_cases h50 : i % 50 = 0 <;>
    simp only [h10, h50, if_true, if_false, List.nil_append, List.cons_append, List.append_nil] <;>
    first
      | rfl
      | (repeat (first | rw [stripMarkup, if_pos rfl] | (rw [stripMarkup, if_neg (by decide), if_neg (by decide), if_pos (by decide)]) | (rw [stripMarkup, if_neg (by decide), if_pos (by decide)])))

/-- **stripping the markup recovers the sequence** (palette colours never contain '>') -/
theorem strip_render (pal : AA → List Char) (hpal : ∀ a, ∀ c ∈ pal a, c ≠ '>') (s : Seq) :
    stripMarkup (renderC pal s) false = s.map AA.toChar := by
  unfold renderC
  have hpre : ∀ rest, stripMarkup (htmlPrefixC ++ rest) false = stripMarkup rest false := by
    intro rest
    unfold htmlPrefixC
    rw [List.cons_append, stripMarkup, if_pos rfl]
    have := strip_in_tag ['p',' ','s','t','y','l','e','=','"','f','o','n','t','-','f','a','m','i','l','y',':','C','o','u','r','i','e','r',';','"'] rest (by decide)
    simpa using this
  rw [List.append_assoc, hpre]
  have gen : ∀ i, stripMarkup (renderFromC pal i s ++ htmlSuffixC) false = s.map AA.toChar := by
    induction s with
    | nil =>
      intro i
      simp only [renderFromC, List.nil_append, List.map_nil]
      unfold htmlSuffixC
      rw [stripMarkup, if_pos rfl]
      have := strip_in_tag ['/','p'] [] (by decide)
      simpa [stripMarkup] using this
    | cons a rest ih =>
      intro i
      simp only [renderFromC, List.append_assoc, List.map_cons]
      rw [strip_sep, strip_span _ _ (hpal a), ih (i + 1)]
  exact gen 0

/-! ### palette updates -/

/-- a dictionary is accepted exactly when each of the 20 one-letter codes is bound to one of the 17
    standard HTML colour names -/
theorem checkPalette_ok_iff (d : PyDict) :
    (checkPalette d).isSome ↔
      ∀ a ∈ AA.all, ∃ c, d.get? (String.singleton a.toChar) = some c ∧ c ∈ htmlColours := by
  unfold checkPalette
  split
  · rename_i h
    simp only [Option.isSome_some, true_iff]
    intro a ha
    have := (List.all_eq_true.mp h) a ha
    cases hg : d.get? (String.singleton a.toChar) with
    | none => rw [hg] at this; cases this
    | some c => rw [hg] at this; exact ⟨c, rfl, by simpa using this⟩
  · rename_i h
    simp only [Option.isSome_none, Bool.false_eq_true, false_iff]
    intro hall
    apply h
    rw [List.all_eq_true]
    intro a ha
    obtain ⟨c, hc, hm⟩ := hall a ha
    rw [hc]; simpa using hm

/-- the accepted palette gives every residue the colour bound to it -/
theorem checkPalette_value (d : PyDict) (p : Palette) (h : checkPalette d = some p) (a : AA) :
    ∃ c, d.get? (String.singleton a.toChar) = some c ∧ c ∈ htmlColours ∧ p a = c := by
  have hs : (checkPalette d).isSome := by rw [h]; rfl
  have ha : a ∈ AA.all := by cases a <;> decide
  obtain ⟨c, hc, hm⟩ := (checkPalette_ok_iff d).mp hs a ha
  refine ⟨c, hc, hm, ?_⟩
  unfold checkPalette at h
  split at h
  · injection h with h
    rw [← h]
    simp only [hc, Option.getD_some]
  · cases h

/-- a rejected dictionary leaves the palette unchanged; an accepted one replaces it -/
theorem setPalette_frame (cur : Palette) (d : PyDict) :
    ((setPalette cur d).2 = false → (setPalette cur d).1 = cur) ∧
    ((setPalette cur d).2 = true → checkPalette d = some (setPalette cur d).1) := by
  unfold setPalette
  cases h : checkPalette d <;> simp

/-- after any series of updates the palette is the last accepted one, or the initial one if none was
    accepted; rendering uses exactly that palette -/
theorem palette_history (init : Palette) (ds : List PyDict) :
    ds.foldl (fun p d => (setPalette p d).1) init =
      match (ds.filterMap checkPalette).getLast? with
      | some p => p
      | none => init := by
  induction ds generalizing init with
  | nil => rfl
  | cons d rest ih =>
    rw [List.foldl_cons, ih]
    unfold setPalette
    cases h : checkPalette d with
    | none => simp [List.filterMap_cons_none h]
    | some p =>
      simp only [List.filterMap_cons_some h]
      cases hr : (rest.filterMap checkPalette).getLast? with
      | none =>
        have : rest.filterMap checkPalette = [] := List.getLast?_eq_none_iff.mp hr
        simp [this]
      | some q =>
        have hne : rest.filterMap checkPalette ≠ [] := by intro e; rw [e] at hr; cases hr
        rw [List.getLast?_cons_of_ne_nil hne] <;> simp [hr]

/-- the documented list has 17 distinct names, none containing '>' -/
theorem htmlColours_facts :
    htmlColours.length = 17 ∧ htmlColours.Nodup ∧ ∀ c ∈ htmlColours, ∀ x ∈ c.toList, x ≠ '>' := by
  refine ⟨rfl, by decide, by decide⟩

end Cider.C20
