/-
  C18 — the Wang–Landau bookkeeping obeys the WL update rule (every configuration, every sequence of
  proposals = every schedule, every acceptance decision function).   ONLY property theorems.
-/
import Cider.Model.WL
import Mathlib.Tactic.Ring
import Mathlib.Tactic.Linarith
import Mathlib.Tactic.FieldSimp
import Mathlib.Algebra.Order.Field.Rat
import Mathlib.Algebra.Order.Field.Basic
import Mathlib.Tactic.Positivity
import Mathlib.Data.List.Basic

namespace Cider.C18
open Cider

/-- a proposal whose bin lies outside the requested range is never moved to, and nothing is counted:
    occupied bin, g and H are unchanged -/
theorem never_moves_outside (cfg : WLCfg) (accept : Rat → Bool) (st : WLState) (idxNew : Nat)
    (h : cfg.inside idxNew = false) :
    (wlMove cfg accept st idxNew).2 = false ∧ (wlMove cfg accept st idxNew).1.cur = st.cur ∧
    (wlMove cfg accept st idxNew).1.g = st.g ∧ (wlMove cfg accept st idxNew).1.H = st.H := by
  unfold wlMove; simp [h]

/-- once inside the range, always inside (the flat check never moves the state) -/
theorem stays_inside (cfg : WLCfg) (accept : Rat → Bool) (st : WLState) (idxNew : Nat)
    (h : cfg.inside st.cur = true) : cfg.inside (wlStep cfg accept st idxNew).1.cur = true := by
  have hflat : ∀ s : WLState, (wlFlat cfg s).cur = s.cur := by
    intro s; unfold wlFlat; split_ifs <;> rfl
  unfold wlStep
  simp only [hflat]
  unfold wlMove
  by_cases hi : cfg.inside idxNew = true
  · simp only [hi, if_true]
    split_ifs <;> assumption
  · have : cfg.inside idxNew = false := by simpa using hi
    simp [this, h]

/-- an in-range proposal is accepted exactly when the acceptance decision for Δ = g_old − g_new says so
    (in the driver: `r < min(1, exp Δ)` with `r` from the tape) -/
theorem accept_rule (cfg : WLCfg) (accept : Rat → Bool) (st : WLState) (idxNew : Nat)
    (h : cfg.inside idxNew = true) :
    (wlMove cfg accept st idxNew).2 = accept (st.g.getD st.cur 0 - st.g.getD idxNew 0) ∧
    (wlMove cfg accept st idxNew).1.cur =
      (if accept (st.g.getD st.cur 0 - st.g.getD idxNew 0) then idxNew else st.cur) := by
  unfold wlMove; simp [h]

theorem bump_getD {α : Type} (l : List α) (i j : Nat) (f : α → α) (d : α) (hi : i < l.length) :
    (bump l i f).getD j d = if j = i then f (l.getD i d) else l.getD j d := by
  unfold bump
  simp only [List.getD_eq_getElem?_getD, List.getElem?_modify]
  by_cases hj : j = i
  · subst hj; simp [hi]
  · have : ¬ i = j := fun e => hj e.symm
    simp [hj, this]

/-- after every counted step exactly the occupied bin gains ln f in g and 1 in H -/
theorem counted_step_update (cfg : WLCfg) (accept : Rat → Bool) (st : WLState) (idxNew : Nat)
    (h : cfg.inside idxNew = true) (j : Nat)
    (hcur : (wlMove cfg accept st idxNew).1.cur < st.g.length) (hcurH : (wlMove cfg accept st idxNew).1.cur < st.H.length) :
    let st' := (wlMove cfg accept st idxNew).1
    st'.g.getD j 0 = (if j = st'.cur then st.g.getD j 0 + st.lnf else st.g.getD j 0) ∧
    st'.H.getD j 0 = (if j = st'.cur then st.H.getD j 0 + 1 else st.H.getD j 0) := by
  have hc := (accept_rule cfg accept st idxNew h).2
  unfold wlMove at hcur hcurH ⊢
  simp only [h, if_true] at hcur hcurH ⊢
  constructor
  · rw [bump_getD _ _ _ _ _ hcur]; split_ifs with hj <;> simp_all
  · rw [bump_getD _ _ _ _ _ hcurH]; split_ifs with hj <;> simp_all

theorem sum_modify_succ (l : List Nat) (i : Nat) (hi : i < l.length) :
    (l.modify i (fun h => h + 1)).foldl (fun a b => a + b) 0 = l.foldl (fun a b => a + b) 0 + 1 := by
  have gen : ∀ (l : List Nat) (i acc : Nat), i < l.length →
      (l.modify i (fun h => h + 1)).foldl (fun a b => a + b) acc = l.foldl (fun a b => a + b) acc + 1 := by
    intro l
    induction l with
    | nil => intro i acc h; simp at h
    | cons x xs ih =>
      intro i acc h
      cases i with
      | zero =>
        simp only [List.modify_zero_cons, List.foldl_cons]
        have : ∀ (ys : List Nat) (a : Nat), ys.foldl (fun a b => a + b) (a + 1) = ys.foldl (fun a b => a + b) a + 1 := by
          intro ys; induction ys with
          | nil => intro a; rfl
          | cons y ys ih2 => intro a; simp only [List.foldl_cons]; rw [show a + 1 + y = a + y + 1 by omega]; exact ih2 _
        rw [show acc + (x + 1) = acc + x + 1 by omega]; exact this xs _
      | succ i' =>
        simp only [List.modify_succ_cons, List.foldl_cons]
        exact ih i' _ (by simpa using h)
  exact gen l i 0 hi

/-- the histogram counts exactly the counted steps: a counted step adds one, any other step nothing -/
theorem H_sum (cfg : WLCfg) (accept : Rat → Bool) (st : WLState) (idxNew : Nat)
    (hb : (wlMove cfg accept st idxNew).1.cur < st.H.length) :
    ((wlMove cfg accept st idxNew).1.H).foldl (fun a b => a + b) 0 =
      st.H.foldl (fun a b => a + b) 0 + (if cfg.inside idxNew then 1 else 0) := by
  unfold wlMove at hb ⊢
  by_cases h : cfg.inside idxNew = true
  · simp only [h, if_true] at hb ⊢
    exact sum_modify_succ _ _ hb
  · have : cfg.inside idxNew = false := by simpa using h
    simp [this]

/-- f ← √f (exponent + 1), H ← 0 and the iteration counter advance exactly when a scheduled check finds
    every bin of the range at or above the flatness criterion; otherwise f, H, niter are untouched; the
    step counter restarts at every scheduled check -/
theorem flat_rule (cfg : WLCfg) (st : WLState) (hs : st.nstep % cfg.nflatchk = 0) :
    (isFlat cfg st.H = true →
      (wlFlat cfg st).fexp = st.fexp + 1 ∧ (wlFlat cfg st).H = List.replicate cfg.nbins 0 ∧
      (wlFlat cfg st).niter = st.niter + 1 ∧ (wlFlat cfg st).nstep = 0 ∧ (wlFlat cfg st).g = st.g) ∧
    (isFlat cfg st.H = false →
      (wlFlat cfg st).fexp = st.fexp ∧ (wlFlat cfg st).H = st.H ∧ (wlFlat cfg st).niter = st.niter ∧
      (wlFlat cfg st).nstep = 0 ∧ (wlFlat cfg st).g = st.g) := by
  unfold wlFlat
  rw [if_pos hs]
  constructor
  · intro h; rw [if_pos h]; exact ⟨rfl, rfl, rfl, rfl, rfl⟩
  · intro h; rw [if_neg (by simp [h])]; exact ⟨rfl, rfl, rfl, rfl, rfl⟩

/-- between scheduled checks nothing happens -/
theorem flat_only_at_schedule (cfg : WLCfg) (st : WLState) (hs : st.nstep % cfg.nflatchk ≠ 0) : wlFlat cfg st = st := by
  unfold wlFlat; rw [if_neg hs]

/-- what "flat" means: the range holds all target bins, at least one count, and every bin h satisfies
    h / mean ≥ flatcrit, i.e. flatcrit · Σh ≤ h · (number of bins) -/
theorem isFlat_iff (cfg : WLCfg) (H : List Nat) :
    isFlat cfg H = true ↔
      0 < (localH cfg H).foldl (fun a b => a + b) 0 ∧ (localH cfg H).length = cfg.ntarget ∧
      ∀ h ∈ localH cfg H, cfg.flatcrit * (((localH cfg H).foldl (fun a b => a + b) 0 : Nat) : Rat) ≤ (h : Rat) * ((localH cfg H).length : Rat) := by
  unfold isFlat
  simp only [Bool.and_eq_true, decide_eq_true_eq, List.all_eq_true]
  tauto

/-- the loop runs exactly while f > convergence, i.e. ln f = 2^(−fexp) > ln(convergence) -/
theorem stop_rule (cfg : WLCfg) (st : WLState) : wlRunning cfg st = true ↔ cfg.convLn < 1 / (2 : Rat) ^ st.fexp := by
  unfold wlRunning WLState.lnf; simp

/-- **per-iteration bookkeeping**: within an iteration g = (g at the start of the iteration) + ln f · H,
    bin by bin; the relation is preserved by every move, and a successful flat check starts the next
    iteration from the current g with H = 0 -/
def Bookkept (base : List Rat) (st : WLState) : Prop :=
  st.g.length = st.H.length ∧ base.length = st.g.length ∧
  ∀ j, st.g.getD j 0 = base.getD j 0 + st.lnf * ((st.H.getD j 0 : Nat) : Rat)

theorem g_bookkeeping (cfg : WLCfg) (accept : Rat → Bool) (base : List Rat) (st : WLState) (idxNew : Nat)
    (hb : Bookkept base st) (hcur : st.cur < st.g.length) (hnew : idxNew < st.g.length) :
    Bookkept base (wlMove cfg accept st idxNew).1 := by
  obtain ⟨h1, h2, h3⟩ := hb
  by_cases h : cfg.inside idxNew = true
  · have hc := (accept_rule cfg accept st idxNew h).2
    have hlt : (wlMove cfg accept st idxNew).1.cur < st.g.length := by rw [hc]; split_ifs <;> assumption
    have hu := counted_step_update cfg accept st idxNew h
    have hlnf : (wlMove cfg accept st idxNew).1.lnf = st.lnf := by unfold wlMove; simp [h, WLState.lnf]
    refine ⟨?_, ?_, ?_⟩
    · unfold wlMove; simp [h, bump, h1]
    · unfold wlMove; simp [h, bump, h2]
    · intro j
      obtain ⟨u1, u2⟩ := hu j hlt (by rw [← h1]; exact hlt)
      rw [u1, u2, hlnf]
      split_ifs with hj
      · rw [h3 j]; push_cast; ring
      · exact h3 j
  · have hf : cfg.inside idxNew = false := by simpa using h
    obtain ⟨_, _, e1, e2⟩ := never_moves_outside cfg accept st idxNew hf
    have hlnf : (wlMove cfg accept st idxNew).1.lnf = st.lnf := by unfold wlMove; simp [hf, WLState.lnf]
    exact ⟨by rw [e1, e2]; exact h1, by rw [e1]; exact h2, by intro j; rw [e1, e2, hlnf]; exact h3 j⟩

theorem g_bookkeeping_flat (cfg : WLCfg) (base : List Rat) (st : WLState) (hb : Bookkept base st)
    (hn : st.g.length = cfg.nbins) :
    (isFlat cfg st.H = true ∧ st.nstep % cfg.nflatchk = 0 → Bookkept st.g (wlFlat cfg st)) ∧
    (¬ (isFlat cfg st.H = true ∧ st.nstep % cfg.nflatchk = 0) → Bookkept base (wlFlat cfg st)) := by
  obtain ⟨h1, h2, h3⟩ := hb
  constructor
  · rintro ⟨hf, hs⟩
    obtain ⟨_, eH, _, _, eg⟩ := (flat_rule cfg st hs).1 hf
    refine ⟨by rw [eg, eH]; simp [hn], by rw [eg], ?_⟩
    intro j
    rw [eg, eH]
    simp [List.getD_eq_getElem?_getD, List.getElem?_replicate]
    split_ifs <;> simp
  · intro hnot
    by_cases hs : st.nstep % cfg.nflatchk = 0
    · have hf : isFlat cfg st.H = false := by
        cases hfl : isFlat cfg st.H
        · rfl
        · exact absurd ⟨hfl, hs⟩ hnot
      obtain ⟨e1, eH, _, _, eg⟩ := (flat_rule cfg st hs).2 hf
      have hlnf : (wlFlat cfg st).lnf = st.lnf := by unfold WLState.lnf; rw [e1]
      exact ⟨by rw [eg, eH]; exact h1, by rw [eg]; exact h2, by intro j; rw [eg, eH, hlnf]; exact h3 j⟩
    · rw [flat_only_at_schedule cfg st hs]; exact ⟨h1, h2, h3⟩

/-- bin centres are the midpoints of an equal partition of [0,1] into n bins -/
theorem bin_centres (n i : Nat) (hn : 0 < n) (hi : i < n) :
    binCentre n i = ((i : Rat) / n + ((i : Rat) + 1) / n) / 2 ∧ 0 < binCentre n i ∧ binCentre n i < 1 := by
  have hnq : (0 : Rat) < n := by exact_mod_cast hn
  have hiq : (i : Rat) + 1 ≤ n := by exact_mod_cast hi
  unfold binCentre
  have h2n : (0 : Rat) < 2 * (n : Rat) := by linarith
  refine ⟨by field_simp; ring, div_pos (by positivity) h2n, ?_⟩
  rw [div_lt_one h2n]; linarith

end Cider.C18
