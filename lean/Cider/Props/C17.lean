/-
  C17 — shuffles and moves only rearrange, keep frozen sites, stay self-consistent.
  ONLY property theorems; every theorem quantifies over all sequences, all frozen sets and all
  well-formed outcomes of the internal random choices (the "tape").
-/
import Cider.Lemmas.Moves
import Cider.Props.C03

namespace Cider.C17
open Cider

/-- exchanging two non-overlapping blocks rearranges -/
theorem swapBlocks_perm (s : Seq) (a b L : Nat) (h1 : a + L ≤ b) : (swapBlocks s a b L).Perm s :=
  swapBlocks_perm' s a b L h1

/-- pair swap: always a rearrangement (no side condition) -/
theorem swapRes_perm (s : Seq) (i j : Nat) : (swapRes s i j).Perm s := by
  unfold swapRes
  split
  · exact List.Perm.refl _
  · split
    · exact List.Perm.refl _
    · apply swapBlocks_perm'; omega

/-- block swap: a rearrangement for every block size and every pair of sampled start indices -/
theorem blockSwap_perm (s : Seq) (bs a0 b0 : Nat) (h : a0 ≠ b0) : (blockSwap s bs a0 b0).Perm s := by
  unfold blockSwap
  apply swapBlocks_perm'
  rcases Nat.lt_or_gt_of_ne h with h | h
  · rw [Nat.min_eq_left (by omega), Nat.max_eq_right (by omega)]; omega
  · rw [Nat.min_eq_right (by omega), Nat.max_eq_left (by omega)]; omega

/-- picking by a predicate on positions and by its complement partitions the sequence -/
theorem pick_partition (s : Seq) (p : Nat → Bool) : (pick s p ++ pick s (fun i => !p i)).Perm s :=
  pick_partition2 s p

/-- **full shuffle**: for every frozen set and every outcome of `rand.shuffle` (a permutation of the
    movable positions) the child is a rearrangement of the parent -/
theorem fullShuffle_perm (s : Seq) (frozen order : List Nat) (h : shuffleTapeOK s frozen order = true) :
    (fullShuffle s frozen order).Perm s := by
  unfold shuffleTapeOK at h
  have hperm : order.Perm ((List.range s.length).filter (fun i => decide (i ∉ frozen))) := List.isPerm_iff.mp h
  unfold fullShuffle
  have hstack : (order.reverse.filterMap (fun k => s[k]?)).Perm (pick s (fun i => decide (i ∉ frozen))) :=
    filterMap_perm_pick s _ _ ((List.reverse_perm order).trans hperm)
  obtain ⟨c1, c2, c3⟩ := countPos_classPattern s.length (fun i => if i ∈ frozen then (0 : Int) else 1)
  have e1 : countPos (classPattern s.length (fun i => if i ∈ frozen then (0 : Int) else 1))
      = (order.reverse.filterMap (fun k => s[k]?)).length := by
    rw [c1, hstack.length_eq, pick_length]
    congr 1; apply List.filter_congr; intro i _; by_cases hi : i ∈ frozen <;> simp [hi]
  have e2 : countNeg (classPattern s.length (fun i => if i ∈ frozen then (0 : Int) else 1)) = ([] : List AA).length := by
    rw [c2]; simp only [List.length_nil, List.length_eq_zero_iff, List.filter_eq_nil_iff]
    intro i _; by_cases hi : i ∈ frozen <;> simp [hi]
  have e3 : countNeut (classPattern s.length (fun i => if i ∈ frozen then (0 : Int) else 1))
      = (pick s (fun i => decide (i ∈ frozen))).length := by
    rw [c3, pick_length]
    congr 1; apply List.filter_congr; intro i _; by_cases hi : i ∈ frozen <;> simp [hi]
  refine (dealOut_perm _ _ _ _ e1 e2 e3).trans ?_
  simp only [List.append_nil]
  refine (List.Perm.append_right _ hstack).trans ?_
  have := pick_partition2 s (fun i => decide (i ∉ frozen))
  refine List.Perm.trans ?_ this
  apply List.Perm.append_left
  apply List.Perm.of_eq
  unfold pick; congr 2; funext ia; simp

/-- **cluster move**: for every cluster window and every sample of outside positions the child is a
    rearrangement of the parent -/
theorem clusterSwap_perm (s : Seq) (cs center : Nat) (swapIdxs : List Nat)
    (h : clusterTapeOK s cs center swapIdxs = true) : (clusterSwap s cs center swapIdxs).Perm s := by
  unfold clusterTapeOK at h
  simp only [Bool.and_eq_true, decide_eq_true_eq, beq_iff_eq, List.all_eq_true, Bool.not_eq_true',
    decide_eq_false_iff_not] at h
  obtain ⟨⟨⟨⟨hcs, hlo⟩, hhi⟩, hlen⟩, hall⟩ := h
  unfold clusterSwap
  simp only []
  set lo := center - cs / 2
  set hi := center + (cs + 1) / 2
  set inWin : Nat → Bool := fun i => decide (lo ≤ i ∧ i < hi)
  set inSwap : Nat → Bool := fun i => decide (i ∈ swapIdxs)
  have hdisj : ∀ i, inSwap i = true → inWin i = false := by
    intro i hi'
    have hm : i ∈ swapIdxs := by simpa [inSwap] using hi'
    have := (hall i hm).1.2
    simpa [inWin] using this
  obtain ⟨c1, c2, c3⟩ := countPos_classPattern s.length (fun i => if inSwap i then (1 : Int) else if inWin i then -1 else 0)
  -- sizes: |swap positions| = cs = |window|
  have hswapcount : ((List.range s.length).filter inSwap).length = cs := by
    have hnd : swapIdxs.Nodup := by
      rw [List.nodup_iff_count]; intro a
      by_cases ha : a ∈ swapIdxs
      · rw [(hall a ha).2]
      · rw [List.count_eq_zero_of_not_mem ha]; omega
    have : ((List.range s.length).filter inSwap).Perm swapIdxs := by
      apply (List.perm_ext_iff_of_nodup ((List.nodup_range).filter _) hnd).mpr
      intro a
      simp only [List.mem_filter, List.mem_range, inSwap, decide_eq_true_eq]
      constructor
      · intro h; exact h.2
      · intro h; exact ⟨(hall a h).1.1, h⟩
    rw [this.length_eq, hlen]
  have hwincount : ((List.range s.length).filter (fun i => inWin i && !inSwap i)).length = cs := by
    have e : (List.range s.length).filter (fun i => inWin i && !inSwap i) = (List.range s.length).filter inWin := by
      apply List.filter_congr; intro i _
      cases hs : inSwap i
      · simp
      · simp [hdisj i hs]
    rw [e]
    have := window_count s.length lo hi (by omega) hhi
    rw [this]; omega
  have e1 : countPos (classPattern s.length (fun i => if inSwap i then (1 : Int) else if inWin i then -1 else 0))
      = (pick s (fun i => inWin i && !inSwap i)).length := by
    rw [c1, pick_length, hwincount, ← hswapcount]
    congr 1; apply List.filter_congr; intro i _
    cases hs : inSwap i <;> cases hw : inWin i <;> simp
  have e2 : countNeg (classPattern s.length (fun i => if inSwap i then (1 : Int) else if inWin i then -1 else 0))
      = (pick s inSwap).length := by
    rw [c2, pick_length, hswapcount, ← hwincount]
    congr 1; apply List.filter_congr; intro i _
    cases hs : inSwap i <;> cases hw : inWin i <;> simp
  have e3 : countNeut (classPattern s.length (fun i => if inSwap i then (1 : Int) else if inWin i then -1 else 0))
      = (pick s (fun i => !inSwap i && !inWin i)).length := by
    rw [c3, pick_length]
    congr 1; apply List.filter_congr; intro i _
    cases hs : inSwap i <;> cases hw : inWin i <;> simp
  refine (dealOut_perm _ _ _ _ e1 e2 e3).trans ?_
  apply pick_partition3
  intro i
  cases hs : inSwap i <;> cases hw : inWin i <;> simp

/-- the charge-type swap is a pair swap of two movable positions: a rearrangement that keeps every
    frozen position -/
theorem swapRandCharge_perm (T : Tables) (s : Seq) (frozen : List Nat) (drawn : Nat × Nat) (i j : Nat) (r : Seq)
    (h : swapRandCharge T s frozen drawn i j = some (some r)) : r.Perm s := by
  unfold swapRandCharge at h
  split at h
  · cases h
  · split_ifs at h
    simp only [Option.some.injEq] at h
    rw [← h]; exact swapRes_perm s i j

/-- **full shuffle keeps every frozen position**: for every frozen set and every shuffle outcome, each
    frozen in-range position of the child holds its original residue -/
theorem fullShuffle_frozen (s : Seq) (frozen order : List Nat) (h : shuffleTapeOK s frozen order = true)
    (i : Nat) (hi : i < s.length) (hf : i ∈ frozen) : (fullShuffle s frozen order)[i]? = s[i]? := by
  unfold shuffleTapeOK at h
  have hperm : order.Perm ((List.range s.length).filter (fun i => decide (i ∉ frozen))) := List.isPerm_iff.mp h
  unfold fullShuffle
  have hstack : (order.reverse.filterMap (fun k => s[k]?)).Perm (pick s (fun i => decide (i ∉ frozen))) :=
    filterMap_perm_pick s _ _ ((List.reverse_perm order).trans hperm)
  obtain ⟨c1, c2, c3⟩ := countPos_classPattern s.length (fun i => if i ∈ frozen then (0 : Int) else 1)
  have e1 : countPos (classPattern s.length (fun i => if i ∈ frozen then (0 : Int) else 1))
      = (order.reverse.filterMap (fun k => s[k]?)).length := by
    rw [c1, hstack.length_eq, pick_length]
    congr 1; apply List.filter_congr; intro i _; by_cases hi : i ∈ frozen <;> simp [hi]
  have e2 : countNeg (classPattern s.length (fun i => if i ∈ frozen then (0 : Int) else 1)) = ([] : List AA).length := by
    rw [c2]; simp only [List.length_nil, List.length_eq_zero_iff, List.filter_eq_nil_iff]
    intro i _; by_cases hi : i ∈ frozen <;> simp [hi]
  have e3 : countNeut (classPattern s.length (fun i => if i ∈ frozen then (0 : Int) else 1))
      = (pick s (fun i => decide (i ∈ frozen))).length := by
    rw [c3, pick_length]
    congr 1; apply List.filter_congr; intro i _; by_cases hi : i ∈ frozen <;> simp [hi]
  obtain ⟨_, g⟩ := dealOut_neut_pos _ _ _ _ e1 e2 e3
  have hlen : i < (classPattern s.length (fun i => if i ∈ frozen then (0 : Int) else 1)).length := by
    simp [classPattern, hi]
  have hcls : (classPattern s.length (fun i => if i ∈ frozen then (0 : Int) else 1))[i] = 0 := by
    simp [classPattern, hf]
  rw [g i hlen hcls, pick_eq_pickFrom]
  have htake : (classPattern s.length (fun i => if i ∈ frozen then (0 : Int) else 1)).take i
      = classPattern i (fun i => if i ∈ frozen then (0 : Int) else 1) := by
    unfold classPattern
    rw [← List.map_take, List.take_range, Nat.min_eq_left (by omega)]
  rw [htake, (countPos_classPattern i _).2.2]
  have := pickFrom_rank s 0 (fun i => decide (i ∈ frozen)) i hi (by simpa using hf)
  rw [← this]
  congr 2
  simp only [Nat.add_zero, List.map_id']
  apply List.filter_congr
  intro j _; by_cases hj : j ∈ frozen <;> simp [hj]

theorem swapBlocks_outside (s : Seq) (a b L : Nat) (h1 : a + L ≤ b) (h2 : b + L ≤ s.length) (k : Nat)
    (hk : k < a ∨ (a + L ≤ k ∧ k < b) ∨ b + L ≤ k) : (swapBlocks s a b L)[k]? = s[k]? := by
  unfold swapBlocks
  have la : (s.take a).length = a := by simp; omega
  have lb : ((s.drop b).take L).length = L := by simp; omega
  have lm : ((s.drop (a + L)).take (b - (a + L))).length = b - (a + L) := by simp; omega
  have lx : ((s.drop a).take L).length = L := by simp; omega
  rcases hk with hk | ⟨hk1, hk2⟩ | hk
  · rw [List.append_assoc, List.append_assoc, List.append_assoc, List.getElem?_append_left (by omega)]
    simp [hk]
  · rw [List.append_assoc, List.append_assoc, List.append_assoc, List.getElem?_append_right (by omega), la,
      List.getElem?_append_right (by omega), lb, List.getElem?_append_left (by omega)]
    simp only [List.getElem?_take, List.getElem?_drop]
    rw [if_pos (by omega)]
    congr 1; omega
  · rw [List.getElem?_append_right (by simp [la, lb, lm, lx]; omega)]
    simp only [List.length_append, la, lb, lm, lx, List.getElem?_drop]
    congr 1; omega

/-- a pair swap touches only the two positions swapped -/
theorem swapRes_outside (s : Seq) (i j k : Nat) (hi : k ≠ i) (hj : k ≠ j) : (swapRes s i j)[k]? = s[k]? := by
  unfold swapRes
  split
  · rfl
  · split
    · rfl
    · rename_i hne hlen
      apply swapBlocks_outside <;> omega

theorem mem_idxOf (T : Tables) (s : Seq) (frozen : List Nat) (sign : Int) (i : Nat) (h : i ∈ idxOf T s frozen sign) :
    i ∉ frozen := by
  unfold idxOf at h
  simp only [List.mem_filterMap] at h
  obtain ⟨ip, _, h2⟩ := h
  split_ifs at h2 with hc
  injection h2 with h2
  rw [← h2]; exact hc.2

/-- the charge-type swap keeps every frozen position (the two swapped positions are drawn from the
    non-frozen index sets) -/
theorem swapRandCharge_frozen (T : Tables) (s : Seq) (frozen : List Nat) (drawn : Nat × Nat) (i j : Nat) (r : Seq)
    (h : swapRandCharge T s frozen drawn i j = some (some r)) (k : Nat) (hk : k ∈ frozen) : r[k]? = s[k]? := by
  unfold swapRandCharge at h
  split at h
  · cases h
  · split_ifs at h with hok
    simp only [Option.some.injEq] at h
    rw [← h]
    unfold swapChargeOK at hok
    simp only [Bool.and_eq_true, decide_eq_true_eq] at hok
    obtain ⟨⟨⟨⟨⟨⟨hi, hj⟩, _⟩, _⟩, _⟩, _⟩, _⟩ := hok
    have hi' : i ∉ frozen := by
      split_ifs at hi <;> exact mem_idxOf T s frozen _ i hi
    have hj' : j ∉ frozen := by
      split_ifs at hj <;> exact mem_idxOf T s frozen _ j hj
    apply swapRes_outside
    · intro e; subst e; exact hi' hk
    · intro e; subst e; exact hj' hk

/-- chains: any sequence of moves, each a rearrangement of its input, yields a rearrangement of the
    original sequence -/
theorem chain_perm (s : Seq) (steps : List (Seq → Seq)) (h : ∀ f ∈ steps, ∀ x : Seq, (f x).Perm x) :
    (steps.foldl (fun acc f => f acc) s).Perm s := by
  induction steps generalizing s with
  | nil => exact List.Perm.refl _
  | cons f rest ih =>
    rw [List.foldl_cons]
    exact (ih (f s) (fun g hg => h g (List.mem_cons_of_mem _ hg))).trans (h f List.mem_cons_self s)

/-- a delta-max carried over from the parent is the child's own delta-max: it only depends on the
    composition, and every move is a rearrangement -/
theorem child_dmax_consistent (T : Tables) (parent child : Seq) (h : child.Perm parent) :
    seqDmax T child = seqDmax T parent ∧ child.length = parent.length ∧
    nPos T child = nPos T parent ∧ nNeg T child = nNeg T parent :=
  ⟨Cider.C03.dmax_composition_only T _ _ h, h.length_eq,
   (h.map _).countP_eq _, (h.map _).countP_eq _⟩

/-- **the frozen clause is FALSE of the pinned code for block swap** (known finding F-C17-1): the move never
    looks at `frozen`; with block size 3 and start indices {1, 0} position 0 of `SDRDNG` changes -/
theorem frozen_ignored_by_block_swap_witness :
    blockSwap [.S, .D, .R, .D, .N, .G] 3 1 0 = [.D, .N, .R, .S, .D, .G] := by decide

end Cider.C17
