/-
  C01/C02 (shortest inputs) — for EVERY sequence of at most five residues delta is 0, delta-max is 0
  and kappa is −1: a blob size longer than the sequence contributes 0 and the single blob of a
  five-residue sequence is the sequence itself.  (The "undefined" case of the property, stated for
  all patterns, not sampled.)
-/
import Cider.Props.C01
import Cider.Props.C02
import Cider.Props.C03
namespace Cider.C01
open Cider

/-- trichotomy: the three counts of any integer pattern add up to its length -/
theorem pattern_counts_sum (p : Pattern) : countPos p + countNeg p + countNeut p = p.length := by
  unfold countPos countNeg countNeut
  induction p with
  | nil => simp
  | cons x xs ih =>
    simp only [List.countP_cons, List.length_cons]
    rcases lt_trichotomy x 0 with h | h | h
    · have h1 : ¬ (0 < x) := by omega
      have h2 : ¬ (x = 0) := by omega
      simp [h, h1, h2]; omega
    · subst h; simp; omega
    · have h1 : ¬ (x < 0) := by omega
      have h2 : ¬ (x = 0) := by omega
      simp [h, h1, h2]; omega

theorem blobs_whole (p : Pattern) : blobs p.length p = [p] := by
  unfold blobs
  have : p.length + 1 - p.length = 1 := by omega
  rw [this]
  simp

/-- the only blob of size N of an N-residue sequence is the sequence: no deviation -/
theorem deltaForm_whole (p : Pattern) : deltaForm p.length p = 0 := by
  unfold deltaForm
  simp only []
  rw [blobs_whole]
  simp [sigma]

theorem delta_short (p : Pattern) (h : p.length ≤ 5) : delta p = 0 := by
  unfold delta
  have h6 : deltaForm 6 p = 0 := C02.deltaForm_short 6 p (by omega)
  have h5 : deltaForm 5 p = 0 := by
    by_cases hl : p.length = 5
    · have := deltaForm_whole p; rw [hl] at this; exact this
    · exact C02.deltaForm_short 5 p (by omega)
  rw [h5, h6]; norm_num

/-- **every sequence of at most five residues has delta-max 0** -/
theorem dmax_short (p : Pattern) (h : p.length ≤ 5) : dmax p = 0 := by
  unfold dmax
  by_cases h0 : countPos p + countNeg p = 0
  · unfold dmaxComp; rw [if_pos h0]
  · obtain ⟨c, hc, he, _⟩ := (dmaxComp_spec (countPos p) (countNeg p) (countNeut p) (by omega)).2
    rw [← he]
    apply delta_short
    have hcomp := C03.candidates_composition (countPos p) (countNeg p) (countNeut p) c hc
    have hlen := pattern_counts_sum c
    have hp3 := pattern_counts_sum p
    rw [hcomp.1, hcomp.2.1, hcomp.2.2] at hlen
    omega

/-- … and therefore kappa −1 -/
theorem kappa_short (p : Pattern) (h : p.length ≤ 5) : kappa p = -1 :=
  (kappa_neg_one_iff p).mpr (dmax_short p h)

/-- the same for real sequences with the published tables: at most five residues ⇒ get_kappa() = −1 -/
theorem kappa_short_seq (T : Tables) (s : Seq) (h : s.length ≤ 5) : kappa (patternOf T s) = -1 :=
  kappa_short _ (by simpa [patternOf] using h)

end Cider.C01
