/- helper lemmas for the delta-max search -/
import Cider.Lemmas.Blobs
import Cider.Model.SeqParams
import Mathlib.Data.List.Perm.Basic
import Mathlib.Data.List.Count

namespace Cider

/-! ### counts of blocks -/
@[simp] theorem countPos_append (p q : Pattern) : countPos (p ++ q) = countPos p + countPos q := by
  unfold countPos; simp
@[simp] theorem countNeg_append (p q : Pattern) : countNeg (p ++ q) = countNeg p + countNeg q := by
  unfold countNeg; simp
@[simp] theorem countNeut_append (p q : Pattern) : countNeut (p ++ q) = countNeut p + countNeut q := by
  unfold countNeut; simp

@[simp] theorem countPos_blk_one (n : Nat) : countPos (blk n 1) = n := by
  unfold countPos blk; induction n with
  | zero => rfl
  | succ k ih => simp [List.replicate_succ, ih]
@[simp] theorem countPos_blk_neg (n : Nat) : countPos (blk n (-1)) = 0 := by
  unfold countPos blk; induction n with
  | zero => rfl
  | succ k ih => simp [List.replicate_succ, ih]
@[simp] theorem countPos_blk_zero (n : Nat) : countPos (blk n 0) = 0 := by
  unfold countPos blk; induction n with
  | zero => rfl
  | succ k ih => simp [List.replicate_succ, ih]
@[simp] theorem countNeg_blk_one (n : Nat) : countNeg (blk n 1) = 0 := by
  unfold countNeg blk; induction n with
  | zero => rfl
  | succ k ih => simp [List.replicate_succ, ih]
@[simp] theorem countNeg_blk_neg (n : Nat) : countNeg (blk n (-1)) = n := by
  unfold countNeg blk; induction n with
  | zero => rfl
  | succ k ih => simp [List.replicate_succ, ih]
@[simp] theorem countNeg_blk_zero (n : Nat) : countNeg (blk n 0) = 0 := by
  unfold countNeg blk; induction n with
  | zero => rfl
  | succ k ih => simp [List.replicate_succ, ih]
@[simp] theorem countNeut_blk_one (n : Nat) : countNeut (blk n 1) = 0 := by
  unfold countNeut blk; induction n with
  | zero => rfl
  | succ k ih => simp [List.replicate_succ, ih]
@[simp] theorem countNeut_blk_neg (n : Nat) : countNeut (blk n (-1)) = 0 := by
  unfold countNeut blk; induction n with
  | zero => rfl
  | succ k ih => simp [List.replicate_succ, ih]
@[simp] theorem countNeut_blk_zero (n : Nat) : countNeut (blk n 0) = n := by
  unfold countNeut blk; induction n with
  | zero => rfl
  | succ k ih => simp [List.replicate_succ, ih]

/-! ### the running maximum -/

def dstep (acc : Rat × Option Pattern) (c : Pattern) : Rat × Option Pattern :=
  if acc.1 < delta c then (delta c, some c) else acc

theorem dmaxFold_eq (cs : List Pattern) : dmaxFold cs = cs.foldl dstep (-1, none) := rfl

theorem foldl_dstep_spec (cs : List Pattern) (init : Rat × Option Pattern) :
    let r := cs.foldl dstep init
    init.1 ≤ r.1 ∧ (∀ c ∈ cs, delta c ≤ r.1) ∧
    ((r = init) ∨ (∃ c ∈ cs, r.1 = delta c ∧ r.2 = some c ∧ init.1 < delta c)) := by
  induction cs generalizing init with
  | nil => simp
  | cons x xs ih =>
    simp only [List.foldl_cons]
    have h := ih (dstep init x)
    simp only [] at h ⊢
    obtain ⟨h1, h2, h3⟩ := h
    have hstep : init.1 ≤ (dstep init x).1 ∧ delta x ≤ (dstep init x).1 := by
      unfold dstep; split
      · rename_i hlt; exact ⟨le_of_lt hlt, le_refl _⟩
      · rename_i hlt; exact ⟨le_refl _, not_lt.mp hlt⟩
    refine ⟨le_trans hstep.1 h1, ?_, ?_⟩
    · intro c hc
      rcases List.mem_cons.mp hc with rfl | hc
      · exact le_trans hstep.2 h1
      · exact h2 c hc
    · rcases h3 with h3 | ⟨c, hc, e1, e2, e3⟩
      · by_cases hlt : init.1 < delta x
        · right; refine ⟨x, List.mem_cons_self, ?_, ?_, hlt⟩ <;> (rw [h3]; unfold dstep; rw [if_pos hlt])
        · left; rw [h3]; unfold dstep; rw [if_neg hlt]
      · right; exact ⟨c, List.mem_cons_of_mem _ hc, e1, e2, lt_of_le_of_lt hstep.1 e3⟩

end Cider

namespace Cider

/-- whenever a charged residue exists the documented family is non-empty -/
theorem candidates_nonempty (np nn n0 : Nat) (h : 0 < np + nn) : candidates np nn n0 ≠ [] := by
  unfold candidates
  have h0 : ¬ (np + nn = 0) := by omega
  rw [if_neg h0]
  split_ifs <;>
    simp [candOneType, candNoNeut, candManyNeut, candGeneral, List.range_succ] <;>
    split_ifs <;> simp [List.range_succ]

/-- delta-max of a charged composition bounds every candidate's delta and is attained by the first maximiser -/
theorem dmaxComp_spec (np nn n0 : Nat) (h : 0 < np + nn) :
    (∀ c ∈ candidates np nn n0, delta c ≤ dmaxComp np nn n0) ∧
    (∃ c ∈ candidates np nn n0, delta c = dmaxComp np nn n0 ∧ dmaxArgComp np nn n0 = some c) := by
  have h0 : ¬ (np + nn = 0) := by omega
  unfold dmaxComp dmaxArgComp
  rw [if_neg h0, if_neg h0, dmaxFold_eq]
  obtain ⟨_, h2, h3⟩ := foldl_dstep_spec (candidates np nn n0) (-1, none)
  refine ⟨h2, ?_⟩
  rcases h3 with h3 | ⟨c, hc, e1, e2, _⟩
  · exfalso
    obtain ⟨c, hc⟩ := List.exists_mem_of_ne_nil _ (candidates_nonempty np nn n0 h)
    have := h2 c hc
    rw [h3] at this
    have := delta_nonneg c
    simp at *; linarith
  · exact ⟨c, hc, e1.symm, e2⟩

/-! ### dealing residues out along a candidate -/

theorem dealOut_perm (cand : Pattern) : ∀ (ps ns us : List AA),
    countPos cand = ps.length → countNeg cand = ns.length → countNeut cand = us.length →
    (dealOut cand ps ns us).Perm (ps ++ ns ++ us) := by
  induction cand with
  | nil =>
    intro ps ns us h1 h2 h3
    have e1 : ps = [] := List.length_eq_zero_iff.mp (by simpa [countPos] using h1.symm)
    have e2 : ns = [] := List.length_eq_zero_iff.mp (by simpa [countNeg] using h2.symm)
    have e3 : us = [] := List.length_eq_zero_iff.mp (by simpa [countNeut] using h3.symm)
    subst e1 e2 e3; simp [dealOut]
  | cons c cs ih =>
    intro ps ns us h1 h2 h3
    unfold countPos at h1; unfold countNeg at h2; unfold countNeut at h3
    simp only [List.countP_cons] at h1 h2 h3
    by_cases hp : 0 < c
    · have hn : ¬ c < 0 := by omega
      have hz : ¬ c = 0 := by omega
      simp only [hp, hn, hz, decide_true, decide_false, if_true] at h1 h2 h3
      cases ps with
      | nil => simp at h1
      | cons x ps' =>
        simp only [dealOut, if_pos hp]
        simp only [List.length_cons] at h1
        have := ih ps' ns us (by unfold countPos; omega) (by unfold countNeg; simpa using h2) (by unfold countNeut; simpa using h3)
        simpa using this
    · by_cases hn : c < 0
      · have hz : ¬ c = 0 := by omega
        simp only [hp, hn, hz, decide_true, decide_false, if_true] at h1 h2 h3
        cases ns with
        | nil => simp at h2
        | cons x ns' =>
          simp only [dealOut, if_neg hp, if_pos hn]
          simp only [List.length_cons] at h2
          have := ih ps ns' us (by unfold countPos; simpa using h1) (by unfold countNeg; omega) (by unfold countNeut; simpa using h3)
          refine (List.Perm.cons x this).trans ?_
          simp only [List.append_assoc]
          exact (List.perm_middle (a := x) (l₁ := ps) (l₂ := ns' ++ us)).symm
      · have hz : c = 0 := by omega
        simp only [hp, hn, hz, decide_true, decide_false, if_true] at h1 h2 h3
        cases us with
        | nil => simp at h3
        | cons x us' =>
          simp only [dealOut, if_neg hp, if_neg hn]
          simp only [List.length_cons] at h3
          have := ih ps ns us' (by unfold countPos; simpa using h1) (by unfold countNeg; simpa using h2) (by unfold countNeut; omega)
          refine (List.Perm.cons x this).trans ?_
          exact (List.perm_middle (a := x) (l₁ := ps ++ ns) (l₂ := us')).symm

/-- three exclusive and exhaustive classes partition a list -/
theorem three_way_perm_gen {α : Type} (p q r : α → Bool)
    (h : ∀ a, (p a = true ∧ q a = false ∧ r a = false) ∨ (p a = false ∧ q a = true ∧ r a = false) ∨
              (p a = false ∧ q a = false ∧ r a = true)) (l : List α) :
    (l.filter p ++ l.filter q ++ l.filter r).Perm l := by
  induction l with
  | nil => simp
  | cons a rest ih =>
    rcases h a with ⟨h1, h2, h3⟩ | ⟨h1, h2, h3⟩ | ⟨h1, h2, h3⟩
    · rw [List.filter_cons_of_pos h1, List.filter_cons_of_neg (by simp [h2]), List.filter_cons_of_neg (by simp [h3])]
      simpa using ih
    · rw [List.filter_cons_of_neg (by simp [h1]), List.filter_cons_of_pos h2, List.filter_cons_of_neg (by simp [h3])]
      refine List.Perm.trans ?_ (List.Perm.cons a ih)
      simp only [List.append_assoc]
      exact List.perm_middle
    · rw [List.filter_cons_of_neg (by simp [h1]), List.filter_cons_of_neg (by simp [h2]), List.filter_cons_of_pos h3]
      refine List.Perm.trans ?_ (List.Perm.cons a ih)
      exact List.perm_middle

/-- the three residue classes partition the parent -/
theorem three_way_perm (s : Seq) :
    (s.filter (fun a => a = AA.R ∨ a = AA.K) ++ s.filter (fun a => a = AA.D ∨ a = AA.E) ++
      s.filter (fun a => ¬ (a = AA.D ∨ a = AA.E ∨ a = AA.R ∨ a = AA.K))).Perm s := by
  apply three_way_perm_gen
  intro a; cases a <;> decide

theorem dealOut_pattern (T : Tables) (cand : Pattern) : ∀ (ps ns us : List AA),
    countPos cand = ps.length → countNeg cand = ns.length → countNeut cand = us.length →
    (∀ x ∈ cand, x = 1 ∨ x = -1 ∨ x = 0) →
    (∀ a ∈ ps, chargeSign (T.charge a) = 1) → (∀ a ∈ ns, chargeSign (T.charge a) = -1) →
    (∀ a ∈ us, chargeSign (T.charge a) = 0) →
    patternOf T (dealOut cand ps ns us) = cand := by
  induction cand with
  | nil => intro ps ns us _ _ _ _ _ _ _; simp [dealOut, patternOf]
  | cons c cs ih =>
    intro ps ns us h1 h2 h3 hc hps hns hus
    unfold countPos at h1; unfold countNeg at h2; unfold countNeut at h3
    simp only [List.countP_cons] at h1 h2 h3
    have hcs : ∀ x ∈ cs, x = 1 ∨ x = -1 ∨ x = 0 := fun x hx => hc x (List.mem_cons_of_mem _ hx)
    rcases hc c List.mem_cons_self with rfl | rfl | rfl
    · simp only [show (0 : Int) < 1 by decide, show ¬ ((1 : Int) < 0) by decide, show ¬ ((1 : Int) = 0) by decide,
        decide_true, decide_false, if_true] at h1 h2 h3
      cases ps with
      | nil => simp at h1
      | cons x ps' =>
        simp only [dealOut, show (0 : Int) < 1 by decide, if_true]
        simp only [List.length_cons] at h1
        have := ih ps' ns us (by unfold countPos; omega) (by unfold countNeg; simpa using h2) (by unfold countNeut; simpa using h3)
          hcs (fun a ha => hps a (List.mem_cons_of_mem _ ha)) hns hus
        unfold patternOf at this ⊢
        rw [List.map_cons, this, hps x List.mem_cons_self]
    · simp only [show ¬ ((0 : Int) < -1) by decide, show ((-1 : Int) < 0) by decide, show ¬ ((-1 : Int) = 0) by decide,
        decide_true, decide_false, if_true] at h1 h2 h3
      cases ns with
      | nil => simp at h2
      | cons x ns' =>
        simp only [dealOut, show ¬ ((0 : Int) < -1) by decide, show ((-1 : Int) < 0) by decide, if_true, if_false]
        simp only [List.length_cons] at h2
        have := ih ps ns' us (by unfold countPos; simpa using h1) (by unfold countNeg; omega) (by unfold countNeut; simpa using h3)
          hcs hps (fun a ha => hns a (List.mem_cons_of_mem _ ha)) hus
        unfold patternOf at this ⊢
        rw [List.map_cons, this, hns x List.mem_cons_self]
    · simp only [show ¬ ((0 : Int) < 0) by decide, decide_true, decide_false, if_true] at h1 h2 h3
      cases us with
      | nil => simp at h3
      | cons x us' =>
        simp only [dealOut, show ¬ ((0 : Int) < 0) by decide, if_false]
        simp only [List.length_cons] at h3
        have := ih ps ns us' (by unfold countPos; simpa using h1) (by unfold countNeg; simpa using h2) (by unfold countNeut; omega)
          hcs hps hns (fun a ha => hus a (List.mem_cons_of_mem _ ha))
        unfold patternOf at this ⊢
        rw [List.map_cons, this, hus x List.mem_cons_self]

theorem mem_blk {n : Nat} {v x : Int} (h : x ∈ blk n v) : x = v := by
  unfold blk at h; exact (List.mem_replicate.mp h).2

/-- every candidate only contains +1, −1, 0 -/
theorem candidates_entries (np nn n0 : Nat) :
    ∀ c ∈ candidates np nn n0, ∀ x ∈ c, x = 1 ∨ x = -1 ∨ x = 0 := by
  intro c hc x hx
  unfold candidates at hc
  split_ifs at hc with h1 h2 h3 h4 h5
  · simp at hc
  · unfold candOneType at hc
    split_ifs at hc <;>
      (simp only [List.mem_map, List.mem_range] at hc; obtain ⟨i, _, rfl⟩ := hc
       simp only [List.mem_append] at hx
       rcases hx with (hx | hx) | hx <;> (have := mem_blk hx; omega))
  · unfold candOneType at hc
    split_ifs at hc <;>
      (simp only [List.mem_map, List.mem_range] at hc; obtain ⟨i, _, rfl⟩ := hc
       simp only [List.mem_append] at hx
       rcases hx with (hx | hx) | hx <;> (have := mem_blk hx; omega))
  · unfold candNoNeut at hc
    split_ifs at hc <;>
      (simp only [List.mem_map, List.mem_range] at hc; obtain ⟨i, _, rfl⟩ := hc
       simp only [List.mem_append] at hx
       rcases hx with (hx | hx) | hx <;> (have := mem_blk hx; omega))
  · unfold candManyNeut at hc
    simp only [List.mem_flatMap, List.mem_map, List.mem_range] at hc
    obtain ⟨s, _, e, _, rfl⟩ := hc
    simp only [List.mem_append] at hx
    rcases hx with (((hx | hx) | hx) | hx) | hx <;> (have := mem_blk hx; omega)
  · unfold candGeneral at hc
    simp only [List.mem_flatMap, List.mem_map, List.mem_range] at hc
    obtain ⟨m, _, s, _, rfl⟩ := hc
    simp only [List.mem_append] at hx
    rcases hx with (((hx | hx) | hx) | hx) | hx <;> (have := mem_blk hx; omega)

end Cider
