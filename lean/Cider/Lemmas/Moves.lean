/- helper lemmas for the permutation moves -/
import Cider.Lemmas.Dmax
import Cider.Model.Moves
import Mathlib.Data.List.Perm.Basic
import Mathlib.Data.List.Count

namespace Cider

theorem split5 (s : Seq) (a b L : Nat) (h1 : a + L ≤ b) :
    s = s.take a ++ (s.drop a).take L ++ (s.drop (a + L)).take (b - (a + L)) ++ (s.drop b).take L ++ s.drop (b + L) := by
  have e1 : s = s.take a ++ s.drop a := (List.take_append_drop a s).symm
  have e2 : s.drop a = (s.drop a).take L ++ s.drop (a + L) := by
    rw [← List.drop_drop, List.take_append_drop]
  have e3 : s.drop (a + L) = (s.drop (a + L)).take (b - (a + L)) ++ s.drop b := by
    have : s.drop b = (s.drop (a + L)).drop (b - (a + L)) := by
      rw [List.drop_drop]; congr 1; omega
    rw [this, List.take_append_drop]
  have e4 : s.drop b = (s.drop b).take L ++ s.drop (b + L) := by
    rw [← List.drop_drop, List.take_append_drop]
  calc s = s.take a ++ s.drop a := e1
    _ = s.take a ++ ((s.drop a).take L ++ s.drop (a + L)) := by rw [← e2]
    _ = s.take a ++ ((s.drop a).take L ++ ((s.drop (a + L)).take (b - (a + L)) ++ s.drop b)) := by rw [← e3]
    _ = s.take a ++ ((s.drop a).take L ++ ((s.drop (a + L)).take (b - (a + L)) ++ ((s.drop b).take L ++ s.drop (b + L)))) := by rw [← e4]
    _ = _ := by simp only [List.append_assoc]

theorem swapBlocks_perm' (s : Seq) (a b L : Nat) (h1 : a + L ≤ b) : (swapBlocks s a b L).Perm s := by
  conv_rhs => rw [split5 s a b L h1]
  unfold swapBlocks
  rw [List.perm_iff_count]
  intro x
  simp only [List.count_append]
  omega

/-- the two-way partition of a sequence by a predicate on positions -/
theorem pick_partition2 (s : Seq) (p : Nat → Bool) :
    (pick s p ++ pick s (fun i => !p i)).Perm s := by
  unfold pick
  have h := three_way_perm_gen (fun ia : Nat × AA => p ia.1) (fun ia => !p ia.1) (fun _ => false)
    (by intro a; cases hp : p a.1 <;> simp [hp]) (idxd s)
  have h2 := h.map (·.2)
  simp only [List.map_append, List.filter_false, List.map_nil, List.append_nil] at h2
  have e : (idxd s).map (·.2) = s := by
    unfold idxd
    rw [List.map_snd_zip]; simp
  rw [e] at h2
  exact h2

theorem pick_partition3 (s : Seq) (p q r : Nat → Bool)
    (h : ∀ i, (p i = true ∧ q i = false ∧ r i = false) ∨ (p i = false ∧ q i = true ∧ r i = false) ∨
              (p i = false ∧ q i = false ∧ r i = true)) :
    (pick s p ++ pick s q ++ pick s r).Perm s := by
  unfold pick
  have h1 := three_way_perm_gen (fun ia : Nat × AA => p ia.1) (fun ia => q ia.1) (fun ia => r ia.1)
    (by intro a; exact h a.1) (idxd s)
  have h2 := h1.map (·.2)
  simp only [List.map_append] at h2
  have e : (idxd s).map (·.2) = s := by
    unfold idxd
    rw [List.map_snd_zip]; simp
  rw [e] at h2
  exact h2

theorem pick_length (s : Seq) (p : Nat → Bool) : (pick s p).length = ((List.range s.length).filter p).length := by
  unfold pick idxd
  rw [List.length_map]
  have : ∀ (k : Nat) (l : Seq), ((((List.range l.length).map (· + k)).zip l).filter (fun ia => p ia.1)).length
      = (((List.range l.length).map (· + k)).filter p).length := by
    intro k l
    induction l generalizing k with
    | nil => rfl
    | cons a rest ih =>
      simp only [List.length_cons, List.range_succ_eq_map, List.map_cons, List.zip_cons_cons, List.map_map]
      have e : (List.map ((fun x => x + k) ∘ Nat.succ) (List.range rest.length)) = (List.range rest.length).map (· + (k + 1)) := by
        apply List.map_congr_left; intro x _; simp [Function.comp]; omega
      rw [e]
      by_cases h : p (0 + k) = true
      · rw [List.filter_cons_of_pos (by simpa using h), List.filter_cons_of_pos h]; simp [ih (k + 1)]
      · rw [List.filter_cons_of_neg (by simpa using h), List.filter_cons_of_neg h]; exact ih (k + 1)
  have := this 0 s
  simpa using this

theorem countPos_classPattern (N : Nat) (cls : Nat → Int) :
    countPos (classPattern N cls) = ((List.range N).filter (fun i => decide (0 < cls i))).length ∧
    countNeg (classPattern N cls) = ((List.range N).filter (fun i => decide (cls i < 0))).length ∧
    countNeut (classPattern N cls) = ((List.range N).filter (fun i => decide (cls i = 0))).length := by
  unfold countPos countNeg countNeut classPattern
  refine ⟨?_, ?_, ?_⟩ <;> (rw [List.countP_map, List.countP_eq_length_filter]; rfl)

/-- reading the residues at a list of in-range positions that is a permutation of the positions
    selected by `p` gives a rearrangement of `pick s p` -/
theorem filterMap_perm_pick (s : Seq) (p : Nat → Bool) (order : List Nat)
    (h : order.Perm ((List.range s.length).filter p)) :
    (order.filterMap (fun k => s[k]?)).Perm (pick s p) := by
  refine (h.filterMap _).trans ?_
  apply List.Perm.of_eq
  unfold pick idxd
  have : ∀ (k : Nat) (l : Seq) (full : Seq), (∀ i, i < l.length → full[i + k]? = l[i]?) →
      (((List.range l.length).map (· + k)).filter p).filterMap (fun j => full[j]?)
        = ((((List.range l.length).map (· + k)).zip l).filter (fun ia => p ia.1)).map (·.2) := by
    intro k l
    induction l generalizing k with
    | nil => intro _ _; rfl
    | cons a rest ih =>
      intro full hfull
      simp only [List.length_cons, List.range_succ_eq_map, List.map_cons, List.zip_cons_cons, List.map_map]
      have e : (List.map ((fun x => x + k) ∘ Nat.succ) (List.range rest.length)) = (List.range rest.length).map (· + (k + 1)) := by
        apply List.map_congr_left; intro x _; simp [Function.comp]; omega
      rw [e]
      have hrest : ∀ i, i < rest.length → full[i + (k + 1)]? = rest[i]? := by
        intro i hi
        have := hfull (i + 1) (by simp; omega)
        rw [show i + 1 + k = i + (k + 1) by omega] at this
        simpa using this
      have h0 : full[0 + k]? = some a := by
        have := hfull 0 (by simp)
        simpa using this
      by_cases hp : p (0 + k) = true
      · rw [List.filter_cons_of_pos hp, List.filter_cons_of_pos (by simpa using hp)]
        simp only [List.filterMap_cons, h0, List.map_cons]
        rw [ih (k + 1) full hrest]
      · rw [List.filter_cons_of_neg hp, List.filter_cons_of_neg (by simpa using hp)]
        exact ih (k + 1) full hrest
  have := this 0 s s (by intro i _; simp)
  simpa using this

/-- number of positions of `0..N−1` inside a window `[lo, hi)` with `hi ≤ N` -/
theorem window_count (N lo hi : Nat) (h1 : lo ≤ hi) (h2 : hi ≤ N) :
    ((List.range N).filter (fun i => decide (lo ≤ i ∧ i < hi))).length = hi - lo := by
  have e : List.range N = List.range' 0 lo ++ List.range' lo (hi - lo) ++ List.range' hi (N - hi) := by
    rw [List.range_eq_range']
    have a1 : List.range' 0 lo ++ List.range' lo (hi - lo) = List.range' 0 (lo + (hi - lo)) := by
      have := @List.range'_append 0 lo (hi - lo) 1
      simpa using this
    have a2 : List.range' 0 (lo + (hi - lo)) ++ List.range' hi (N - hi) = List.range' 0 (lo + (hi - lo) + (N - hi)) := by
      have := @List.range'_append 0 (lo + (hi - lo)) (N - hi) 1
      have e' : 0 + 1 * (lo + (hi - lo)) = hi := by omega
      rw [e'] at this
      exact this
    rw [a1, a2]; congr 1; omega
  rw [e, List.filter_append, List.filter_append, List.length_append, List.length_append]
  have f1 : (List.range' 0 lo).filter (fun i => decide (lo ≤ i ∧ i < hi)) = [] := by
    rw [List.filter_eq_nil_iff]; intro i hi'; simp only [List.mem_range'_1] at hi'; simp; omega
  have f2 : (List.range' lo (hi - lo)).filter (fun i => decide (lo ≤ i ∧ i < hi)) = List.range' lo (hi - lo) := by
    rw [List.filter_eq_self]; intro i hi'; simp only [List.mem_range'_1] at hi'; simp; omega
  have f3 : (List.range' hi (N - hi)).filter (fun i => decide (lo ≤ i ∧ i < hi)) = [] := by
    rw [List.filter_eq_nil_iff]; intro i hi'; simp only [List.mem_range'_1] at hi'; simp; omega
  rw [f1, f2, f3]; simp

end Cider

namespace Cider

/-! ### positional facts about dealing -/

/-- `pick` with an index offset -/
def pickFrom (k : Nat) (l : Seq) (p : Nat → Bool) : Seq :=
  ((((List.range l.length).map (· + k)).zip l).filter (fun ia => p ia.1)).map (·.2)

theorem pick_eq_pickFrom (s : Seq) (p : Nat → Bool) : pick s p = pickFrom 0 s p := by
  unfold pick pickFrom idxd; simp

theorem pickFrom_cons (k : Nat) (a : AA) (l : Seq) (p : Nat → Bool) :
    pickFrom k (a :: l) p = (if p k then [a] else []) ++ pickFrom (k + 1) l p := by
  unfold pickFrom
  simp only [List.length_cons, List.range_succ_eq_map, List.map_cons, List.zip_cons_cons, List.map_map]
  have e : (List.map ((fun x => x + k) ∘ Nat.succ) (List.range l.length)) = (List.range l.length).map (· + (k + 1)) := by
    apply List.map_congr_left; intro x _; simp [Function.comp]; omega
  rw [e]
  by_cases h : p (0 + k) = true
  · rw [List.filter_cons_of_pos (by simpa using h)]
    have h' : p k = true := by simpa using h
    simp [h']
  · rw [List.filter_cons_of_neg (by simpa using h)]
    have h' : ¬ p k = true := by simpa using h
    simp [h']

/-- with matching class counts, dealing outputs exactly one residue per position, and a position of
    class 0 receives the residue of `us` whose rank is the number of class-0 positions before it -/
theorem dealOut_neut_pos (cand : Pattern) : ∀ (ps ns us : List AA),
    countPos cand = ps.length → countNeg cand = ns.length → countNeut cand = us.length →
    (dealOut cand ps ns us).length = cand.length ∧
    ∀ i (hi : i < cand.length), cand[i] = 0 →
      (dealOut cand ps ns us)[i]? = us[countNeut (cand.take i)]? := by
  induction cand with
  | nil => intro ps ns us _ _ _; simp [dealOut]
  | cons c cs ih =>
    intro ps ns us h1 h2 h3
    unfold countPos at h1; unfold countNeg at h2; unfold countNeut at h3
    simp only [List.countP_cons] at h1 h2 h3
    by_cases hp : 0 < c
    · have hn : ¬ c < 0 := by omega
      have hz : ¬ c = 0 := by omega
      simp only [hp, hn, hz, decide_true, decide_false, if_true] at h1 h2 h3
      cases ps with
      | nil => simp at h1
      | cons x ps' =>
        simp only [List.length_cons] at h1
        obtain ⟨l, g⟩ := ih ps' ns us (by unfold countPos; omega) (by unfold countNeg; simpa using h2) (by unfold countNeut; simpa using h3)
        simp only [dealOut, if_pos hp]
        refine ⟨by simp [l], ?_⟩
        intro i hi hci
        cases i with
        | zero => simp at hci; omega
        | succ i' =>
          simp only [List.getElem_cons_succ] at hci
          have := g i' (by simpa using hi) hci
          simp only [List.getElem?_cons_succ, List.take_succ_cons, this]
          unfold countNeut; simp [List.countP_cons, hz]
    · by_cases hn : c < 0
      · have hz : ¬ c = 0 := by omega
        simp only [hp, hn, hz, decide_true, decide_false, if_true] at h1 h2 h3
        cases ns with
        | nil => simp at h2
        | cons x ns' =>
          simp only [List.length_cons] at h2
          obtain ⟨l, g⟩ := ih ps ns' us (by unfold countPos; simpa using h1) (by unfold countNeg; omega) (by unfold countNeut; simpa using h3)
          simp only [dealOut, if_neg hp, if_pos hn]
          refine ⟨by simp [l], ?_⟩
          intro i hi hci
          cases i with
          | zero => simp at hci; omega
          | succ i' =>
            simp only [List.getElem_cons_succ] at hci
            have := g i' (by simpa using hi) hci
            simp only [List.getElem?_cons_succ, List.take_succ_cons, this]
            unfold countNeut; simp [List.countP_cons, hz]
      · have hz : c = 0 := by omega
        simp only [hp, hn, hz, decide_true, decide_false, if_true] at h1 h2 h3
        cases us with
        | nil => simp at h3
        | cons x us' =>
          simp only [List.length_cons] at h3
          obtain ⟨l, g⟩ := ih ps ns us' (by unfold countPos; simpa using h1) (by unfold countNeg; simpa using h2) (by unfold countNeut; omega)
          simp only [dealOut, if_neg hp, if_neg hn]
          refine ⟨by simp [l], ?_⟩
          intro i hi hci
          cases i with
          | zero => simp [countNeut]
          | succ i' =>
            simp only [List.getElem_cons_succ] at hci
            have := g i' (by simpa using hi) hci
            simp only [List.getElem?_cons_succ, List.take_succ_cons, this]
            subst hz
            unfold countNeut; simp [List.countP_cons]

/-- the residue of rank "number of selected positions before i" among the picked ones is `s[i]` -/
theorem pickFrom_rank (l : Seq) (k : Nat) (p : Nat → Bool) (i : Nat) (hi : i < l.length) (hp : p (i + k) = true) :
    (pickFrom k l p)[(((List.range i).map (· + k)).filter p).length]? = l[i]? := by
  induction l generalizing k i with
  | nil => simp at hi
  | cons a rest ih =>
    rw [pickFrom_cons]
    cases i with
    | zero =>
      have hp' : p k = true := by simpa using hp
      simp [hp']
    | succ i' =>
      have hrec := ih (k + 1) i' (by simpa using hi) (by rw [show i' + (k + 1) = i' + 1 + k by omega]; exact hp)
      simp only [List.getElem?_cons_succ]
      rw [← hrec]
      rw [List.range_succ_eq_map, List.map_cons, List.map_map]
      have e : (List.map ((fun x => x + k) ∘ Nat.succ) (List.range i')) = (List.range i').map (· + (k + 1)) := by
        apply List.map_congr_left; intro x _; simp [Function.comp]; omega
      rw [e]
      by_cases hk : p k = true
      · have h0 : p (0 + k) = true := by simpa using hk
        rw [List.filter_cons_of_pos h0]
        simp [hk]
      · have h0 : ¬ p (0 + k) = true := by simpa using hk
        rw [List.filter_cons_of_neg h0]
        simp [hk]

end Cider
