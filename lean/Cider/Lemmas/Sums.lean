/- helper lemmas: Python-style accumulation loops are sums -/
import Mathlib.Tactic.Ring
import Mathlib.Tactic.Linarith
import Mathlib.Tactic.FieldSimp
import Mathlib.Algebra.Order.Field.Rat
import Mathlib.Algebra.Order.Field.Basic
import Mathlib.Algebra.BigOperators.Group.List.Basic
import Mathlib.Algebra.Order.BigOperators.Group.List
import Cider.Model.Basic

namespace Cider

theorem foldl_add_div {α : Type} (f : α → Rat) (n : Rat) (l : List α) (a : Rat) :
    l.foldl (fun acc x => acc + f x / n) a = a + (l.map f).sum / n := by
  induction l generalizing a with
  | nil => simp
  | cons x xs ih => simp only [List.foldl_cons, List.map_cons, List.sum_cons, ih]; ring

theorem foldl_add {α : Type} (f : α → Rat) (l : List α) (a : Rat) :
    l.foldl (fun acc x => acc + f x) a = a + (l.map f).sum := by
  induction l generalizing a with
  | nil => simp
  | cons x xs ih => simp only [List.foldl_cons, List.map_cons, List.sum_cons, ih]; ring

theorem sumQ_eq_sum (l : List Rat) : sumQ l = l.sum := by
  induction l with
  | nil => rfl
  | cons x xs ih => simp [sumQ, ih]

theorem sum_map_div {α : Type} (f : α → Rat) (n : Rat) (l : List α) :
    (l.map (fun a => f a / n)).sum = (l.map f).sum / n := by
  induction l with
  | nil => simp
  | cons x xs ih => simp only [List.map_cons, List.sum_cons, ih]; ring

theorem natCast_sum_map {α : Type} (g : α → Nat) (l : List α) :
    (((l.map g).sum : Nat) : Rat) = (l.map (fun a => (g a : Rat))).sum := by
  induction l with
  | nil => simp
  | cons x xs ih => simp only [List.map_cons, List.sum_cons]; push_cast; rw [ih]

theorem sum_map_add' {α : Type} (f g : α → Nat) (l : List α) :
    (l.map (fun a => f a + g a)).sum = (l.map f).sum + (l.map g).sum := by
  induction l with
  | nil => simp
  | cons x xs ih => simp only [List.map_cons, List.sum_cons, ih]; omega

theorem indicator_sum (x : AA) : (AA.all.map (fun a => if x = a then 1 else 0)).sum = 1 := by
  cases x <;> decide

/-- every residue is counted by exactly one of the 20 letters -/
theorem sum_count_all (s : Seq) : (AA.all.map (fun a => s.count a)).sum = s.length := by
  induction s with
  | nil => rfl
  | cons x xs ih =>
    have h : (fun a => (x :: xs).count a) = (fun a => xs.count a + (if x = a then 1 else 0)) := by
      funext a; rw [List.count_cons]; simp
    rw [h, sum_map_add', ih, List.length_cons]
    rw [indicator_sum]

end Cider
