/- helper lemmas: reversal and charge inversion of patterns -/
import Cider.Lemmas.Dmax

namespace Cider

def neg (p : Pattern) : Pattern := p.map (fun x => -x)

@[simp] theorem neg_length (p : Pattern) : (neg p).length = p.length := by simp [neg]

theorem countPos_reverse (p : Pattern) : countPos p.reverse = countPos p := by unfold countPos; simp
theorem countNeg_reverse (p : Pattern) : countNeg p.reverse = countNeg p := by unfold countNeg; simp
theorem countNeut_reverse (p : Pattern) : countNeut p.reverse = countNeut p := by unfold countNeut; simp

theorem countPos_neg (p : Pattern) : countPos (neg p) = countNeg p := by
  unfold countPos countNeg neg; rw [List.countP_map]; congr 1; funext x; simp
theorem countNeg_neg (p : Pattern) : countNeg (neg p) = countPos p := by
  unfold countPos countNeg neg; rw [List.countP_map]; congr 1; funext x; simp
theorem countNeut_neg (p : Pattern) : countNeut (neg p) = countNeut p := by
  unfold countNeut neg; rw [List.countP_map]; congr 1; funext x; simp

theorem sigmaOf_symm (a b len : Nat) : sigmaOf a b len = sigmaOf b a len := by
  unfold sigmaOf
  by_cases h : a + b = 0
  · have h' : b + a = 0 := by omega
    rw [if_pos h, if_pos h']
  · have h' : ¬ (b + a = 0) := by omega
    rw [if_neg h, if_neg h']
    have e1 : ((a : Rat) + (b : Rat)) = ((b : Rat) + (a : Rat)) := add_comm _ _
    rw [e1]
    congr 1
    ring

theorem sigma_reverse (p : Pattern) : sigma p.reverse = sigma p := by
  unfold sigma; rw [countPos_reverse, countNeg_reverse, List.length_reverse]

theorem sigma_neg (p : Pattern) : sigma (neg p) = sigma p := by
  unfold sigma; rw [countPos_neg, countNeg_neg, neg_length, sigmaOf_symm]

/-- blobs of the reversed pattern are the reversed blobs, in reverse order -/
theorem blobs_reverse (w : Nat) (p : Pattern) :
    blobs w p.reverse = ((blobs w p).map List.reverse).reverse := by
  apply List.ext_getElem
  · simp [blobs]
  · intro i h1 h2
    simp only [blobs, List.length_map, List.length_range, List.length_reverse] at h1
    simp only [blobs, List.getElem_map, List.getElem_range, List.getElem_reverse, List.length_map,
      List.length_range, List.length_reverse]
    rw [List.drop_reverse, List.take_reverse]
    congr 1
    simp only [List.length_take]
    rw [List.drop_take]
    have e1 : min (p.length - i) p.length = p.length - i := by omega
    rw [e1]
    have e2 : p.length - i - (p.length - i - w) = w := by omega
    have e3 : p.length + 1 - w - 1 - i = p.length - i - w := by omega
    rw [e2, e3]

theorem blobs_neg (w : Nat) (p : Pattern) : blobs w (neg p) = (blobs w p).map neg := by
  unfold blobs neg
  simp only [List.length_map, List.map_map]
  apply List.map_congr_left
  intro i _
  simp [List.map_drop, List.map_take]

theorem deltaForm_reverse (w : Nat) (p : Pattern) : deltaForm w p.reverse = deltaForm w p := by
  rw [deltaForm_sum, deltaForm_sum, blobs_reverse, sigma_reverse]
  simp only [List.map_reverse, List.sum_reverse, List.length_reverse, List.length_map, List.map_map]
  congr 2
  apply List.map_congr_left
  intro b _
  simp [countPos_reverse, countNeg_reverse]

theorem deltaForm_neg (w : Nat) (p : Pattern) : deltaForm w (neg p) = deltaForm w p := by
  rw [deltaForm_sum, deltaForm_sum, blobs_neg, sigma_neg]
  simp only [List.length_map, List.map_map]
  congr 2
  apply List.map_congr_left
  intro b _
  simp only [Function.comp]
  rw [countPos_neg, countNeg_neg, sigmaOf_symm]

theorem delta_reverse (p : Pattern) : delta p.reverse = delta p := by
  unfold delta; rw [deltaForm_reverse, deltaForm_reverse]

theorem delta_neg (p : Pattern) : delta (neg p) = delta p := by
  unfold delta; rw [deltaForm_neg, deltaForm_neg]

end Cider

namespace Cider

@[simp] theorem neg_append (a b : Pattern) : neg (a ++ b) = neg a ++ neg b := by simp [neg]
@[simp] theorem neg_blk (n : Nat) (v : Int) : neg (blk n v) = blk n (-v) := by simp [neg, blk]
@[simp] theorem reverse_blk (n : Nat) (v : Int) : (blk n v).reverse = blk n v := by simp [blk]

/-- the documented family of (n−, n+, n0) contains, for every candidate of (n+, n−, n0), an arrangement
    with the same delta (its charge inversion, mirrored where needed) -/
theorem family_swap (np nn n0 : Nat) :
    ∀ c ∈ candidates np nn n0, ∃ c' ∈ candidates nn np n0, delta c' = delta c := by
  intro c hc
  unfold candidates at hc ⊢
  by_cases h0 : np + nn = 0
  · rw [if_pos h0] at hc; simp at hc
  have h0' : ¬ (nn + np = 0) := by omega
  rw [if_neg h0] at hc
  rw [if_neg h0']
  by_cases h1 : np = 0
  · -- only negatives: the swapped composition has only positives
    subst h1
    have hnn : ¬ nn = 0 := by omega
    rw [if_pos rfl] at hc
    rw [if_neg hnn, if_pos rfl]
    refine ⟨neg c, ?_, delta_neg c⟩
    unfold candOneType at hc ⊢
    split_ifs at hc ⊢ with hlt <;>
      (simp only [List.mem_map, List.mem_range] at hc ⊢
       obtain ⟨i, hi, rfl⟩ := hc
       exact ⟨i, hi, by simp⟩)
  rw [if_neg h1] at hc
  by_cases h2 : nn = 0
  · subst h2
    rw [if_pos rfl] at hc
    rw [if_pos rfl]
    refine ⟨neg c, ?_, delta_neg c⟩
    unfold candOneType at hc ⊢
    split_ifs at hc ⊢ with hlt <;>
      (simp only [List.mem_map, List.mem_range] at hc ⊢
       obtain ⟨i, hi, rfl⟩ := hc
       exact ⟨i, hi, by simp⟩)
  rw [if_neg h2] at hc
  rw [if_neg h2, if_neg h1]
  by_cases h3 : n0 = 0
  · rw [if_pos h3] at hc
    rw [if_pos h3]
    unfold candNoNeut at hc ⊢
    by_cases hgt : np > nn
    · rw [if_pos hgt] at hc
      have : ¬ nn > np := by omega
      rw [if_neg this]
      simp only [List.mem_map, List.mem_range] at hc ⊢
      obtain ⟨i, hi, rfl⟩ := hc
      exact ⟨_, ⟨i, hi, rfl⟩, by rw [← delta_neg]; simp⟩
    · rw [if_neg hgt] at hc
      by_cases hlt : nn > np
      · rw [if_pos hlt]
        simp only [List.mem_map, List.mem_range] at hc ⊢
        obtain ⟨i, hi, rfl⟩ := hc
        exact ⟨_, ⟨i, hi, rfl⟩, by rw [← delta_neg]; simp⟩
      · rw [if_neg hlt]
        have e : np = nn := by omega
        subst e
        exact ⟨c, hc, rfl⟩
  rw [if_neg h3] at hc
  rw [if_neg h3]
  by_cases h4 : n0 ≥ 18
  · rw [if_pos h4] at hc
    rw [if_pos h4]
    unfold candManyNeut at hc ⊢
    simp only [List.mem_flatMap, List.mem_map, List.mem_range] at hc ⊢
    obtain ⟨s, hs, e, he, rfl⟩ := hc
    refine ⟨_, ⟨e, he, s, hs, rfl⟩, ?_⟩
    rw [← delta_neg, ← delta_reverse]
    congr 1
    simp [List.reverse_append]
    have : n0 - e - s = n0 - s - e := by omega
    rw [this]
  · rw [if_neg h4] at hc
    rw [if_neg h4]
    unfold candGeneral at hc ⊢
    simp only [List.mem_flatMap, List.mem_map, List.mem_range] at hc ⊢
    obtain ⟨m, hm, s, hs, rfl⟩ := hc
    refine ⟨_, ⟨m, hm, n0 - s - m, by omega, rfl⟩, ?_⟩
    rw [← delta_neg, ← delta_reverse]
    congr 1
    simp [List.reverse_append]
    have : n0 - (n0 - s - m) - m = s := by omega
    rw [this]

/-- delta-max is unchanged by exchanging the numbers of positive and negative residues -/
theorem dmaxComp_swap (np nn n0 : Nat) : dmaxComp np nn n0 = dmaxComp nn np n0 := by
  have key : ∀ a b : Nat, dmaxComp a b n0 ≤ dmaxComp b a n0 := by
    intro a b
    by_cases h0 : a + b = 0
    · have h0' : b + a = 0 := by omega
      unfold dmaxComp; rw [if_pos h0, if_pos h0']
    · obtain ⟨_, c, hc, e, _⟩ := dmaxComp_spec a b n0 (by omega)
      obtain ⟨c', hc', e'⟩ := family_swap a b n0 c hc
      have h2 := (dmaxComp_spec b a n0 (by omega)).1
      rw [← e, ← e']
      exact h2 c' hc'
  exact le_antisymm (key np nn) (key nn np)

end Cider
