/- helper lemmas about the sliding windows -/
import Cider.Lemmas.Sums
import Cider.Model.Pattern
import Cider.Spec.Defs
import Mathlib.Data.List.Basic

namespace Cider

theorem blobs_nil (w : Nat) (hw : 0 < w) : blobs w [] = [] := by
  unfold blobs
  have : ([] : Pattern).length + 1 - w = 0 := by simp; omega
  rw [this]; rfl

theorem blobs_cons_of_le (w : Nat) (x : Int) (xs : Pattern) (h : w ≤ xs.length + 1) :
    blobs w (x :: xs) = (x :: xs).take w :: blobs w xs := by
  unfold blobs
  have e : (x :: xs).length + 1 - w = (xs.length + 1 - w) + 1 := by simp; omega
  rw [e, List.range_succ_eq_map, List.map_cons, List.map_map]
  simp only [List.drop_zero]
  congr 1

theorem blobs_of_lt (w : Nat) (p : Pattern) (h : p.length < w) : blobs w p = [] := by
  unfold blobs
  have : p.length + 1 - w = 0 := by omega
  rw [this]; rfl

theorem blobs_eq_windows (w : Nat) (hw : 0 < w) (p : Pattern) : blobs w p = Spec.windows w p := by
  induction p with
  | nil => rw [blobs_nil w hw]; unfold Spec.windows; simp; omega
  | cons x xs ih =>
    unfold Spec.windows
    by_cases h : w ≤ xs.length + 1
    · rw [if_pos h, blobs_cons_of_le w x xs h, ih]
    · rw [if_neg h]; exact blobs_of_lt w _ (by simp; omega)

theorem blobs_length (w : Nat) (p : Pattern) : (blobs w p).length = p.length + 1 - w := by
  unfold blobs; simp

theorem mem_blobs_length (w : Nat) (p b : Pattern) (hb : b ∈ blobs w p) : b.length = w := by
  unfold blobs at hb
  simp only [List.mem_map, List.mem_range] at hb
  obtain ⟨i, hi, rfl⟩ := hb
  simp; omega

/-- deltaForm in sum form -/
theorem deltaForm_sum (w : Nat) (p : Pattern) :
    deltaForm w p = ((blobs w p).map (fun b => (sigma p - sigmaOf (countPos b) (countNeg b) w) *
      (sigma p - sigmaOf (countPos b) (countNeg b) w))).sum / ((blobs w p).length : Rat) := by
  unfold deltaForm; simp only []; rw [foldl_add_div]; simp

theorem deltaForm_nonneg (w : Nat) (p : Pattern) : 0 ≤ deltaForm w p := by
  rw [deltaForm_sum]
  apply div_nonneg
  · apply List.sum_nonneg
    intro x hx
    simp only [List.mem_map] at hx
    obtain ⟨b', _, rfl⟩ := hx
    exact mul_self_nonneg _
  · exact Nat.cast_nonneg _

theorem delta_nonneg (p : Pattern) : 0 ≤ delta p := by
  unfold delta
  have := deltaForm_nonneg 5 p
  have := deltaForm_nonneg 6 p
  apply div_nonneg <;> linarith

end Cider
