-- FROZEN reference copy of the polygons drawn by the pinned tree (Das–Pappu diagram of states; Uversky plot). Hand-maintained.
import Cider.Model.Basic
namespace Cider.Spec

/-- vertices (x,y as (num,den) pairs) of the filled patches of the figure show_single_phasePlot draws, in drawing order -/
def phasePolygons : List (List ((Int × Nat) × (Int × Nat))) := [
  [((0, 1), (0, 1)), ((0, 1), (1, 4)), ((1, 4), (0, 1))],
  [((0, 1), (1, 4)), ((0, 1), (7, 20)), ((7, 20), (0, 1)), ((1, 4), (0, 1))],
  [((0, 1), (7, 20)), ((13, 40), (27, 40)), ((27, 40), (13, 40)), ((7, 20), (0, 1))],
  [((0, 1), (7, 20)), ((0, 1), (1, 1)), ((13, 40), (27, 40))],
  [((7, 20), (0, 1)), ((27, 40), (13, 40)), ((1, 1), (0, 1))]
]

/-- vertices (x,y as (num,den) pairs) of the filled patches of the figure show_single_uverskyPlot draws, in drawing order -/
def uverskyPolygons : List (List ((Int × Nat) × (Int × Nat))) := [
  [((0, 1), (1, 1)), ((0, 1), (413, 1000)), ((193, 250), (1, 1))],
  [((0, 1), (0, 1)), ((0, 1), (413, 1000)), ((193, 250), (1, 1)), ((1, 1), (1, 1)), ((1, 1), (0, 1))]
]

end Cider.Spec
