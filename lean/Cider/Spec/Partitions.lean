/-
  Cider.Spec.Partitions — the DOCUMENTED reduced alphabets, typed in by hand from the docstring of
  `get_reduced_alphabet_sequence` / webpage.MD (Murphy, Wallqvist & Levy 2000; "eleven" is localCIDER's own).
  Frozen; the table regenerated from the live code is proved to implement exactly these partitions.
-/
import Cider.Model.Basic
namespace Cider.Spec
open Cider AA

def partitions : Nat → Option (List (List AA))
  | 2 => some [[L,V,I,M,C,A,G,S,T,P,F,Y,W], [E,D,N,Q,K,R,H]]
  | 3 => some [[L,V,I,M,C,A,G,S,T,P], [F,Y,W], [E,D,N,Q,K,R,H]]
  | 4 => some [[L,V,I,M,C], [A,G,S,T,P], [F,Y,W], [E,D,N,Q,K,R,H]]
  | 5 => some [[L,V,I,M,C], [A,S,G,T,P], [F,Y,W], [E,D,N,Q], [K,R,H]]
  | 6 => some [[L,V,I,M], [A,S,G,T], [P,H,C], [F,Y,W], [E,D,N,Q], [K,R]]
  | 8 => some [[L,V,I,M,C], [A,G], [S,T], [P], [F,Y,W], [E,D,N,Q], [K,R], [H]]
  | 10 => some [[L,V,I,M], [C], [A], [G], [S,T], [P], [F,Y,W], [E,D,N,Q], [K,R], [H]]
  | 11 => some [[L,V,I,M], [C], [A], [G], [S,T], [P], [F,Y,W], [E,D], [N,Q], [K,R], [H]]
  | 12 => some [[L,V,I,M], [C], [A], [G], [S,T], [P], [F,Y], [W], [E,Q], [D,N], [K,R], [H]]
  | 15 => some [[L,V,I,M], [C], [A], [G], [S], [T], [P], [F,Y], [W], [E], [Q], [D], [N], [K,R], [H]]
  | 18 => some [[L,M], [V,I], [C], [A], [G], [S], [T], [P], [F], [Y], [W], [E], [D], [N], [Q], [K], [R], [H]]
  | 20 => some [[A],[C],[D],[E],[F],[G],[H],[I],[K],[L],[M],[N],[P],[Q],[R],[S],[T],[V],[W],[Y]]
  | _ => none

def documentedSizes : List Nat := [2, 3, 4, 5, 6, 8, 10, 11, 12, 15, 18, 20]

end Cider.Spec
