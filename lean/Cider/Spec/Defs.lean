/-
  Cider.Spec.Defs — declarative definitions ("the published formula"), written independently of
  the loop structure of the code.  Import-free so the driver can evaluate them as the oracle.
-/
import Cider.Model.Pattern
namespace Cider.Spec
open Cider

/-- every contiguous window of length `w`, left to right (structural recursion on the sequence,
    not index arithmetic): a window starts at every residue that still has `w` residues from it on -/
def windows (w : Nat) : Pattern → List Pattern
  | [] => if w = 0 then [[]] else []
  | x :: xs => if w ≤ xs.length + 1 then (x :: xs).take w :: windows w xs else []

/-- charge asymmetry sigma = (f+ − f−)² / (f+ + f−) of a window of length `len`, 0 when uncharged -/
def sigmaDef (p : Pattern) : Rat :=
  let fp : Rat := (countPos p : Rat) / (p.length : Rat)
  let fm : Rat := (countNeg p : Rat) / (p.length : Rat)
  if countPos p + countNeg p = 0 then 0 else (fp - fm) * (fp - fm) / (fp + fm)

/-- mean squared deviation of the blob sigmas from the sequence sigma, 0 when there is no blob -/
def deltaW (w : Nat) (p : Pattern) : Rat :=
  let ws := windows w p
  if ws = [] then 0
  else ((ws.map (fun b => (sigmaDef p - sigmaDef b) * (sigmaDef p - sigmaDef b))).foldr (· + ·) 0) / (ws.length : Rat)

/-- Das–Pappu delta: mean over blob sizes 5 and 6 -/
def delta (p : Pattern) : Rat := (deltaW 5 p + deltaW 6 p) / 2

/-- largest element of a list of rationals, `none` for the empty list -/
def maxQ : List Rat → Option Rat
  | [] => none
  | x :: xs => match maxQ xs with
    | none => some x
    | some m => some (if m < x then x else m)

/-- delta-max: the largest delta over the documented family (0 when nothing is charged) -/
def dmaxDef (np nn n0 : Nat) : Rat :=
  match maxQ ((candidates np nn n0).map delta) with
  | none => 0
  | some m => m

/-- region by exact thresholds on the counts -/
def regionDef (np nn N : Nat) : Nat :=
  let fcr : Rat := ((np + nn : Nat) : Rat) / (N : Rat)
  let ncpr : Rat := ((np : Rat) - (nn : Rat)) / (N : Rat)
  if fcr < 1/4 then 1
  else if fcr ≤ 7/20 then 2
  else if -7/20 < ncpr ∧ ncpr < 7/20 then 3
  else if nn < np then 5 else 4

end Cider.Spec
