/-
  Cider.Spec.Published — the FROZEN reference tables ("what the documentation / the cited
  sources say").  Hand-maintained: created once from the pinned tree, reviewed against the
  sources (Kyte & Doolittle 1982 shifted by +4.5; Wimley & White 1996 octanol scale;
  Elam/Hilser 2013, Rucker/Creamer 2003, Shi/Kallenbach 2005 PPII scales; EMBOSS pKa
  (C 8.5, Y 10.1, H 6.5, E 4.1, D 3.9, K 10.0, R 12.5); residue masses as documented in
  get_molecular_weight_Da; the alphabet partitions in the docstring of reduce_alphabet /
  webpage.MD; the 17 standard HTML colour names) and NEVER regenerated.
  The regenerated `Cider.Gen.*` tables are proved equal to these on every run.
-/
import Cider.Model.Basic
namespace Cider.Spec
open Cider

/-- lkupTab.lookUpCharge(res) -/
def charge : AA → Int
  | .A => (0 : Int)
  | .C => (0 : Int)
  | .D => (-1 : Int)
  | .E => (-1 : Int)
  | .F => (0 : Int)
  | .G => (0 : Int)
  | .H => (0 : Int)
  | .I => (0 : Int)
  | .K => (1 : Int)
  | .L => (0 : Int)
  | .M => (0 : Int)
  | .N => (0 : Int)
  | .P => (0 : Int)
  | .Q => (0 : Int)
  | .R => (1 : Int)
  | .S => (0 : Int)
  | .T => (0 : Int)
  | .V => (0 : Int)
  | .W => (0 : Int)
  | .Y => (0 : Int)

/-- lkupTab.lookUpCharge('+'), ('-'), ('0') -/
def chargeReduced : Int × Int × Int := (1, -1, 0)

/-- lkupTab.lookUpHydropathy(res) (Kyte-Doolittle shifted to 0..9), as (num, den) -/
def kdND : AA → Int × Nat
  | .A => (63, 10)
  | .C => (7, 1)
  | .D => (1, 1)
  | .E => (1, 1)
  | .F => (73, 10)
  | .G => (41, 10)
  | .H => (13, 10)
  | .I => (9, 1)
  | .K => (3, 5)
  | .L => (83, 10)
  | .M => (32, 5)
  | .N => (1, 1)
  | .P => (29, 10)
  | .Q => (1, 1)
  | .R => (0, 1)
  | .S => (37, 10)
  | .T => (19, 5)
  | .V => (87, 10)
  | .W => (18, 5)
  | .Y => (16, 5)

/-- get_KD_uversky()[ONE_TO_THREE[res]] -/
def kdUverskyND : AA → Int × Nat
  | .A => (7, 10)
  | .C => (7, 9)
  | .D => (1, 9)
  | .E => (1, 9)
  | .F => (73, 90)
  | .G => (41, 90)
  | .H => (13, 90)
  | .I => (1, 1)
  | .K => (1, 15)
  | .L => (83, 90)
  | .M => (32, 45)
  | .N => (1, 9)
  | .P => (29, 90)
  | .Q => (1, 9)
  | .R => (0, 1)
  | .S => (37, 90)
  | .T => (19, 45)
  | .V => (29, 30)
  | .W => (2, 5)
  | .Y => (16, 45)

/-- get_WW_original() -/
def wwND : AA → Int × Nat
  | .A => (-17, 100)
  | .C => (6, 25)
  | .D => (-123, 100)
  | .E => (-101, 50)
  | .F => (113, 100)
  | .G => (-1, 100)
  | .H => (-24, 25)
  | .I => (31, 100)
  | .K => (-99, 100)
  | .L => (14, 25)
  | .M => (23, 100)
  | .N => (-21, 50)
  | .P => (-9, 20)
  | .Q => (-29, 50)
  | .R => (-81, 100)
  | .S => (-13, 100)
  | .T => (-7, 50)
  | .V => (-7, 100)
  | .W => (37, 20)
  | .Y => (47, 50)

/-- lookUpPPII(res,'hilser') -/
def ppiiHilserND : AA → Int × Nat
  | .A => (37, 100)
  | .C => (1, 4)
  | .D => (3, 10)
  | .E => (21, 50)
  | .F => (17, 100)
  | .G => (13, 100)
  | .H => (1, 5)
  | .I => (39, 100)
  | .K => (14, 25)
  | .L => (6, 25)
  | .M => (9, 25)
  | .N => (27, 100)
  | .P => (1, 1)
  | .Q => (53, 100)
  | .R => (19, 50)
  | .S => (6, 25)
  | .T => (8, 25)
  | .V => (39, 100)
  | .W => (1, 4)
  | .Y => (1, 4)

/-- lookUpPPII(res,'creamer') -/
def ppiiCreamerND : AA → Int × Nat
  | .A => (61, 100)
  | .C => (11, 20)
  | .D => (63, 100)
  | .E => (61, 100)
  | .F => (29, 50)
  | .G => (29, 50)
  | .H => (11, 20)
  | .I => (1, 2)
  | .K => (59, 100)
  | .L => (29, 50)
  | .M => (11, 20)
  | .N => (11, 20)
  | .P => (67, 100)
  | .Q => (33, 50)
  | .R => (61, 100)
  | .S => (29, 50)
  | .T => (53, 100)
  | .V => (49, 100)
  | .W => (29, 50)
  | .Y => (29, 50)

/-- lookUpPPII(res,'kallenbach') -/
def ppiiKallenbachND : AA → Int × Nat
  | .A => (409, 500)
  | .C => (557, 1000)
  | .D => (69, 125)
  | .E => (171, 250)
  | .F => (639, 1000)
  | .G => (1, 2)
  | .H => (107, 250)
  | .I => (519, 1000)
  | .K => (581, 1000)
  | .L => (287, 500)
  | .M => (249, 500)
  | .N => (667, 1000)
  | .P => (1, 1)
  | .Q => (327, 500)
  | .R => (319, 500)
  | .S => (387, 500)
  | .T => (553, 1000)
  | .V => (743, 1000)
  | .W => (191, 250)
  | .Y => (63, 100)

/-- get_molecular_weight_Da() -/
def mwND : AA → Int × Nat
  | .A => (891, 10)
  | .C => (606, 5)
  | .D => (1331, 10)
  | .E => (1471, 10)
  | .F => (826, 5)
  | .G => (751, 10)
  | .H => (776, 5)
  | .I => (656, 5)
  | .K => (731, 5)
  | .L => (656, 5)
  | .M => (746, 5)
  | .N => (1321, 10)
  | .P => (1151, 10)
  | .Q => (731, 5)
  | .R => (871, 5)
  | .S => (1051, 10)
  | .T => (1191, 10)
  | .V => (1171, 10)
  | .W => (1021, 5)
  | .Y => (906, 5)

/-- get_pKa() -/
def pKaND : AA → Option (Int × Nat)
  | .A => none
  | .C => some (17, 2)
  | .D => some (39, 10)
  | .E => some (41, 10)
  | .F => none
  | .G => none
  | .H => some (13, 2)
  | .I => none
  | .K => some (10, 1)
  | .L => none
  | .M => none
  | .N => none
  | .P => none
  | .Q => none
  | .R => some (25, 2)
  | .S => none
  | .T => none
  | .V => none
  | .W => none
  | .Y => some (101, 10)

/-- fraction_disorder_promoting() of the one-residue sequence is 1 -/
def disorderPromoting : AA → Bool
  | .A => true
  | .C => false
  | .D => true
  | .E => true
  | .F => false
  | .G => true
  | .H => true
  | .I => false
  | .K => true
  | .L => false
  | .M => false
  | .N => false
  | .P => true
  | .Q => true
  | .R => true
  | .S => true
  | .T => true
  | .V => false
  | .W => false
  | .Y => false

/-- FER() of the one-residue sequence is 1 -/
def expanding : AA → Bool
  | .A => false
  | .C => false
  | .D => true
  | .E => true
  | .F => false
  | .G => false
  | .H => false
  | .I => false
  | .K => true
  | .L => false
  | .M => false
  | .N => false
  | .P => true
  | .Q => false
  | .R => true
  | .S => false
  | .T => false
  | .V => false
  | .W => false
  | .Y => false

/-- get_STY_residues() of the one-residue sequence is [1] -/
def sty : AA → Bool
  | .A => false
  | .C => false
  | .D => false
  | .E => false
  | .F => false
  | .G => false
  | .H => false
  | .I => false
  | .K => false
  | .L => false
  | .M => false
  | .N => false
  | .P => false
  | .Q => false
  | .R => false
  | .S => true
  | .T => true
  | .V => false
  | .W => false
  | .Y => true

/-- Omega_seq() of the one-residue sequence is 'X' -/
def omegaX : AA → Bool
  | .A => false
  | .C => false
  | .D => true
  | .E => true
  | .F => false
  | .G => false
  | .H => false
  | .I => false
  | .K => true
  | .L => false
  | .M => false
  | .N => false
  | .P => true
  | .Q => false
  | .R => true
  | .S => false
  | .T => false
  | .V => false
  | .W => false
  | .Y => false

/-- +1: charge_at_pH→(1,0) at pH→(−∞,+∞) (basic); −1: (0,−1) (acidic); 0: never charged -/
def titrClass : AA → Int
  | .A => (0 : Int)
  | .C => (-1 : Int)
  | .D => (-1 : Int)
  | .E => (-1 : Int)
  | .F => (0 : Int)
  | .G => (0 : Int)
  | .H => (1 : Int)
  | .I => (0 : Int)
  | .K => (1 : Int)
  | .L => (0 : Int)
  | .M => (0 : Int)
  | .N => (0 : Int)
  | .P => (0 : Int)
  | .Q => (0 : Int)
  | .R => (1 : Int)
  | .S => (0 : Int)
  | .T => (0 : Int)
  | .V => (0 : Int)
  | .W => (0 : Int)
  | .Y => (-1 : Int)

/-- pH at which charge_at_pH of the single residue is ±1/2 -/
def halfPointND : AA → Option (Int × Nat)
  | .A => none
  | .C => some (17, 2)
  | .D => some (39, 10)
  | .E => some (41, 10)
  | .F => none
  | .G => none
  | .H => some (13, 2)
  | .I => none
  | .K => some (10, 1)
  | .L => none
  | .M => none
  | .N => none
  | .P => none
  | .Q => none
  | .R => some (25, 2)
  | .S => none
  | .T => none
  | .V => none
  | .W => none
  | .Y => some (101, 10)

/-- reduce_alphabet(res, k)[0] for each predefined size k; none = size rejected -/
def reduceTab : Nat → Option (AA → AA)
  | 2 => some (fun a => match a with | .A => .L | .C => .L | .D => .E | .E => .E | .F => .L | .G => .L | .H => .E | .I => .L | .K => .E | .L => .L | .M => .L | .N => .E | .P => .L | .Q => .E | .R => .E | .S => .L | .T => .L | .V => .L | .W => .L | .Y => .L)
  | 3 => some (fun a => match a with | .A => .L | .C => .L | .D => .E | .E => .E | .F => .F | .G => .L | .H => .E | .I => .L | .K => .E | .L => .L | .M => .L | .N => .E | .P => .L | .Q => .E | .R => .E | .S => .L | .T => .L | .V => .L | .W => .F | .Y => .F)
  | 4 => some (fun a => match a with | .A => .A | .C => .L | .D => .E | .E => .E | .F => .F | .G => .A | .H => .E | .I => .L | .K => .E | .L => .L | .M => .L | .N => .E | .P => .A | .Q => .E | .R => .E | .S => .A | .T => .A | .V => .L | .W => .F | .Y => .F)
  | 5 => some (fun a => match a with | .A => .A | .C => .L | .D => .E | .E => .E | .F => .F | .G => .A | .H => .K | .I => .L | .K => .K | .L => .L | .M => .L | .N => .E | .P => .A | .Q => .E | .R => .K | .S => .A | .T => .A | .V => .L | .W => .F | .Y => .F)
  | 6 => some (fun a => match a with | .A => .A | .C => .P | .D => .E | .E => .E | .F => .F | .G => .A | .H => .P | .I => .L | .K => .K | .L => .L | .M => .L | .N => .E | .P => .P | .Q => .E | .R => .K | .S => .A | .T => .A | .V => .L | .W => .F | .Y => .F)
  | 8 => some (fun a => match a with | .A => .A | .C => .L | .D => .E | .E => .E | .F => .F | .G => .A | .H => .H | .I => .L | .K => .K | .L => .L | .M => .L | .N => .E | .P => .P | .Q => .E | .R => .K | .S => .S | .T => .S | .V => .L | .W => .F | .Y => .F)
  | 10 => some (fun a => match a with | .A => .A | .C => .C | .D => .E | .E => .E | .F => .F | .G => .G | .H => .H | .I => .L | .K => .K | .L => .L | .M => .L | .N => .E | .P => .P | .Q => .E | .R => .K | .S => .S | .T => .S | .V => .L | .W => .F | .Y => .F)
  | 11 => some (fun a => match a with | .A => .A | .C => .C | .D => .E | .E => .E | .F => .F | .G => .G | .H => .H | .I => .L | .K => .K | .L => .L | .M => .L | .N => .Q | .P => .P | .Q => .Q | .R => .K | .S => .S | .T => .S | .V => .L | .W => .F | .Y => .F)
  | 12 => some (fun a => match a with | .A => .A | .C => .C | .D => .D | .E => .E | .F => .F | .G => .G | .H => .H | .I => .L | .K => .K | .L => .L | .M => .L | .N => .D | .P => .P | .Q => .E | .R => .K | .S => .S | .T => .S | .V => .L | .W => .W | .Y => .F)
  | 15 => some (fun a => match a with | .A => .A | .C => .C | .D => .D | .E => .E | .F => .F | .G => .G | .H => .H | .I => .L | .K => .K | .L => .L | .M => .L | .N => .N | .P => .P | .Q => .Q | .R => .K | .S => .S | .T => .T | .V => .L | .W => .W | .Y => .F)
  | 18 => some (fun a => match a with | .A => .A | .C => .C | .D => .D | .E => .E | .F => .F | .G => .G | .H => .H | .I => .V | .K => .K | .L => .L | .M => .L | .N => .N | .P => .P | .Q => .Q | .R => .R | .S => .S | .T => .T | .V => .V | .W => .W | .Y => .Y)
  | 20 => some (fun a => match a with | .A => .A | .C => .C | .D => .D | .E => .E | .F => .F | .G => .G | .H => .H | .I => .I | .K => .K | .L => .L | .M => .M | .N => .N | .P => .P | .Q => .Q | .R => .R | .S => .S | .T => .T | .V => .V | .W => .W | .Y => .Y)
  | _ => none

/-- reduce_alphabet(·, k)[1] -/
def alphabetTab : Nat → Option (List AA)
  | 2 => some [.L, .E]
  | 3 => some [.L, .F, .E]
  | 4 => some [.L, .A, .F, .E]
  | 5 => some [.L, .A, .F, .E, .K]
  | 6 => some [.L, .A, .P, .F, .E, .K]
  | 8 => some [.L, .A, .S, .P, .F, .E, .K, .H]
  | 10 => some [.L, .C, .A, .G, .S, .P, .F, .E, .K, .H]
  | 11 => some [.L, .C, .A, .G, .S, .P, .F, .E, .K, .H, .Q]
  | 12 => some [.L, .C, .A, .G, .S, .P, .F, .W, .E, .D, .K, .H]
  | 15 => some [.L, .C, .A, .G, .S, .T, .P, .F, .W, .E, .Q, .D, .N, .K, .H]
  | 18 => some [.L, .V, .C, .A, .G, .S, .T, .P, .F, .Y, .W, .E, .D, .N, .Q, .K, .R, .H]
  | 20 => some [.R, .H, .K, .D, .E, .S, .T, .N, .Q, .C, .G, .P, .A, .I, .L, .M, .F, .W, .Y, .V]
  | _ => none

def probedSizes : List Nat := [0, 1, 2, 3, 4, 5, 6, 7, 8, 9, 10, 11, 12, 13, 14, 15, 16, 17, 18, 19, 20, 21, 22, 23, 24, 25]

/-- palette of a freshly constructed object -/
def defaultPalette : AA → String
  | .A => "black"
  | .C => "black"
  | .D => "red"
  | .E => "red"
  | .F => "orange"
  | .G => "green"
  | .H => "green"
  | .I => "black"
  | .K => "blue"
  | .L => "black"
  | .M => "black"
  | .N => "green"
  | .P => "fuchsia"
  | .Q => "green"
  | .R => "blue"
  | .S => "green"
  | .T => "green"
  | .V => "black"
  | .W => "orange"
  | .Y => "orange"

/-- aminoacids.DEFAULT_COLOR_PALETTE -/
def defaultPaletteConst : AA → String
  | .A => "black"
  | .C => "black"
  | .D => "red"
  | .E => "red"
  | .F => "orange"
  | .G => "green"
  | .H => "green"
  | .I => "black"
  | .K => "blue"
  | .L => "black"
  | .M => "black"
  | .N => "green"
  | .P => "fuchsia"
  | .Q => "green"
  | .R => "blue"
  | .S => "green"
  | .T => "green"
  | .V => "black"
  | .W => "orange"
  | .Y => "orange"

/-- probe: is colour name accepted by set_HTMLColorResiduePalette (as the value for 'A') -/
def colourProbe : List (String × Bool) := [
  ("aqua", true),
  ("black", true),
  ("blue", true),
  ("fuchsia", true),
  ("gray", true),
  ("green", true),
  ("lime", true),
  ("maroon", true),
  ("navy", true),
  ("olive", true),
  ("orange", true),
  ("purple", true),
  ("red", true),
  ("silver", true),
  ("teal", true),
  ("white", true),
  ("yellow", true),
  ("grey", false),
  ("cyan", false),
  ("magenta", false),
  ("pink", false),
  ("brown", false),
  ("gold", false),
  ("violet", false),
  ("indigo", false),
  ("tan", false),
  ("beige", false),
  ("Red", false),
  ("BLACK", false),
  ("Aqua", false),
  ("", false),
  (" red", false),
  ("red ", false),
  ("#ff0000", false),
  ("darkgreen", false),
  ("lightblue", false),
  ("crimson", false),
  ("khaki", false),
  ("salmon", false),
  ("turquoise", false),
  ("none", false)]

end Cider.Spec
