/-
  Cider.Real.Scd — sequence charge decoration over ℝ (needs sqrt, so this file is proof-side only;
  the driver evaluates the exact integer lag sums `lagSum`, the harness multiplies by √d).
-/
import Cider.Model.Pattern
import Mathlib.Analysis.Real.Sqrt
import Mathlib.Algebra.BigOperators.Intervals
import Mathlib.Tactic.Ring
import Mathlib.Tactic.Linarith

namespace Cider
open Finset

/-- charge at 0-based index `i` as a real number (0 outside the sequence) -/
def qAt (p : Pattern) (i : Nat) : ℝ := ((p.getD i 0 : Int) : ℝ)

/-- `Sequence.sequence_charge_decoration`, loops mirrored:
    `for m in range(2, N+1): for n in range(1, m): total += q[m-1]*q[n-1]*(m-n)**0.5`; `return total/N` -/
noncomputable def scdLoop (p : Pattern) : ℝ :=
  ((List.range' 2 (p.length - 1)).foldl
    (fun tot m => (List.range' 1 (m - 1)).foldl
      (fun t n => t + qAt p (m - 1) * qAt p (n - 1) * Real.sqrt (((m - n : Nat) : ℝ))) tot) 0) / (p.length : ℝ)

/-- Sawle–Ghosh: (1/N) Σ_{m>n} q_m q_n √(m−n), residues numbered 1..N -/
noncomputable def scdDef (p : Pattern) : ℝ :=
  (∑ m ∈ Ico 1 (p.length + 1), ∑ n ∈ Ico 1 m, qAt p (m - 1) * qAt p (n - 1) * Real.sqrt (((m - n : Nat) : ℝ))) / (p.length : ℝ)

/-- the form the correspondence evaluates: exact integer lag sums times √d -/
noncomputable def scdLag (p : Pattern) : ℝ :=
  (∑ d ∈ Ico 1 p.length, ((lagSum p d : Int) : ℝ) * Real.sqrt ((d : ℝ))) / (p.length : ℝ)

theorem foldl_add_real {α : Type} (f : α → ℝ) (l : List α) (a : ℝ) :
    l.foldl (fun acc x => acc + f x) a = a + (l.map f).sum := by
  induction l generalizing a with
  | nil => simp
  | cons x xs ih => simp only [List.foldl_cons, List.map_cons, List.sum_cons, ih]; ring

theorem sum_range'_eq_Ico (f : Nat → ℝ) (a n : Nat) :
    ((List.range' a n).map f).sum = ∑ i ∈ Ico a (a + n), f i := by
  induction n generalizing a with
  | zero => simp
  | succ k ih =>
    rw [List.range'_succ, List.map_cons, List.sum_cons, ih (a + 1)]
    rw [Finset.sum_eq_sum_Ico_succ_bot (by omega : a < a + (k + 1))]
    have : a + 1 + k = a + (k + 1) := by omega
    rw [this]

theorem scdLoop_eq_def (p : Pattern) : scdLoop p = scdDef p := by
  unfold scdLoop scdDef
  congr 1
  have inner : ∀ (m : Nat) (tot : ℝ),
      (List.range' 1 (m - 1)).foldl (fun t n => t + qAt p (m - 1) * qAt p (n - 1) * Real.sqrt (((m - n : Nat) : ℝ))) tot
      = tot + ∑ n ∈ Ico 1 (1 + (m - 1)), qAt p (m - 1) * qAt p (n - 1) * Real.sqrt (((m - n : Nat) : ℝ)) := by
    intro m tot
    rw [foldl_add_real (fun n => qAt p (m - 1) * qAt p (n - 1) * Real.sqrt (((m - n : Nat) : ℝ))), sum_range'_eq_Ico]
  simp only [inner]
  rw [foldl_add_real (fun m => ∑ n ∈ Ico 1 (1 + (m - 1)), qAt p (m - 1) * qAt p (n - 1) * Real.sqrt (((m - n : Nat) : ℝ))),
    sum_range'_eq_Ico, zero_add]
  by_cases hN : p.length = 0
  · simp [hN]
  · have e1 : 2 + (p.length - 1) = p.length + 1 := by omega
    rw [e1, Finset.sum_eq_sum_Ico_succ_bot (by omega : 1 < p.length + 1)]
    simp only [Finset.Ico_self, Finset.sum_empty, zero_add]
    apply Finset.sum_congr rfl
    intro m hm
    have : 1 + (m - 1) = m := by have := (Finset.mem_Ico.mp hm).1; omega
    rw [this]

/-- the pair sum regrouped by distance d = m − n -/
theorem pair_sum_by_distance (N : Nat) (F : Nat → Nat → ℝ) :
    (∑ m ∈ Ico 1 (N + 1), ∑ n ∈ Ico 1 m, F m n) = ∑ d ∈ Ico 1 N, ∑ n ∈ Ico 1 (N + 1 - d), F (n + d) n := by
  rw [Finset.sum_sigma', Finset.sum_sigma']
  refine Finset.sum_nbij' (fun x => ⟨x.1 - x.2, x.2⟩) (fun x => ⟨x.2 + x.1, x.2⟩) ?_ ?_ ?_ ?_ ?_
  · simp only [Finset.mem_sigma, Finset.mem_Ico]; intro x hx; omega
  · simp only [Finset.mem_sigma, Finset.mem_Ico]; intro x hx; omega
  · simp only [Finset.mem_sigma, Finset.mem_Ico]
    rintro ⟨m, n⟩ hx
    simp only at hx ⊢
    congr 1; omega
  · simp only [Finset.mem_sigma, Finset.mem_Ico]
    rintro ⟨d, n⟩ hx
    simp only at hx ⊢
    congr 1; omega
  · simp only [Finset.mem_sigma, Finset.mem_Ico]
    rintro ⟨m, n⟩ hx
    simp only at hx ⊢
    congr 1; omega

theorem foldl_add_int (l : List Int) (a : Int) : l.foldl (· + ·) a = a + l.sum := by
  induction l generalizing a with
  | nil => simp
  | cons x xs ih => simp only [List.foldl_cons, List.sum_cons, ih]; ring

theorem zip_mul_sum (a b : List Int) :
    ((a.zip b).map (fun ab => ab.1 * ab.2)).sum = ∑ i ∈ range (min a.length b.length), a.getD i 0 * b.getD i 0 := by
  induction a generalizing b with
  | nil => simp
  | cons x xs ih =>
    cases b with
    | nil => simp
    | cons y ys =>
      simp only [List.zip_cons_cons, List.map_cons, List.sum_cons, List.length_cons, ih ys]
      rw [show min (xs.length + 1) (ys.length + 1) = min xs.length ys.length + 1 by omega, Finset.sum_range_succ']
      simp [add_comm]

/-- the zip-based lag sum of the model is Σ_i p[i]·p[i+d] -/
theorem lagSum_index (p : Pattern) (d : Nat) :
    lagSum p d = ∑ i ∈ range (p.length - d), p.getD i 0 * p.getD (i + d) 0 := by
  unfold lagSum
  rw [foldl_add_int, zero_add, zip_mul_sum]
  have : min p.length (p.drop d).length = p.length - d := by simp
  rw [this]
  apply Finset.sum_congr rfl
  intro i _
  congr 1
  simp [List.getD_eq_getElem?_getD, List.getElem?_drop, add_comm]

theorem lagSum_cast (p : Pattern) (d : Nat) :
    ((lagSum p d : Int) : ℝ) = ∑ n ∈ Ico 1 (p.length + 1 - d), qAt p (n + d - 1) * qAt p (n - 1) := by
  rw [lagSum_index, Finset.sum_Ico_eq_sum_range]
  push_cast
  have : p.length + 1 - d - 1 = p.length - d := by omega
  rw [this]
  apply Finset.sum_congr rfl
  intro i _
  unfold qAt
  have e1 : 1 + i + d - 1 = i + d := by omega
  have e2 : 1 + i - 1 = i := by omega
  rw [e1, e2]; ring

/-- **SCD = (1/N) Σ_d lag(d)·√d**: the value the correspondence evaluates from the model's exact integer
    lag sums is the Sawle–Ghosh pair sum -/
theorem scdDef_eq_lag (p : Pattern) : scdDef p = scdLag p := by
  unfold scdDef scdLag
  congr 1
  rw [pair_sum_by_distance p.length (fun m n => qAt p (m - 1) * qAt p (n - 1) * Real.sqrt (((m - n : Nat) : ℝ)))]
  apply Finset.sum_congr rfl
  intro d _
  rw [lagSum_cast, Finset.sum_mul]
  apply Finset.sum_congr rfl
  intro n _
  have : n + d - n = d := by omega
  rw [this]

/-! ### invariances of the integer lag sums -/

theorem getD_reverse (p : Pattern) (i : Nat) (h : i < p.length) :
    p.reverse.getD i 0 = p.getD (p.length - 1 - i) 0 := by
  simp [List.getD_eq_getElem?_getD, List.getElem?_reverse h]

theorem lagSum_reverse (p : Pattern) (d : Nat) : lagSum p.reverse d = lagSum p d := by
  rw [lagSum_index, lagSum_index, List.length_reverse]
  rw [← Finset.sum_range_reflect (fun i => p.getD i 0 * p.getD (i + d) 0) (p.length - d)]
  apply Finset.sum_congr rfl
  intro i hi
  have hi' := Finset.mem_range.mp hi
  rw [getD_reverse p i (by omega), getD_reverse p (i + d) (by omega)]
  have e1 : p.length - 1 - i = p.length - d - 1 - i + d := by omega
  have e2 : p.length - 1 - (i + d) = p.length - d - 1 - i := by omega
  rw [e1, e2]; ring

theorem lagSum_negate (p : Pattern) (d : Nat) : lagSum (p.map (fun x => -x)) d = lagSum p d := by
  rw [lagSum_index, lagSum_index, List.length_map]
  apply Finset.sum_congr rfl
  intro i _
  have : ∀ k, (p.map (fun x => -x)).getD k 0 = -(p.getD k 0) := by
    intro k
    simp only [List.getD_eq_getElem?_getD, List.getElem?_map]
    cases p[k]? <;> simp
  rw [this, this]; ring

/-- with at most one charged residue every pair product vanishes -/
theorem pair_zero_of_few (p : Pattern) (h : p.countP (fun x => decide (x ≠ 0)) ≤ 1) :
    ∀ i j, i < j → p.getD i 0 * p.getD j 0 = 0 := by
  induction p with
  | nil => intro i j _; simp
  | cons x xs ih =>
    intro i j hij
    rw [List.countP_cons] at h
    cases j with
    | zero => omega
    | succ j' =>
      cases i with
      | zero =>
        simp only [List.getD_cons_zero, List.getD_cons_succ]
        by_cases hx : x = 0
        · simp [hx]
        · have h0 : xs.countP (fun x => decide (x ≠ 0)) = 0 := by
            have : (fun x => decide (x ≠ 0)) x = true := by simp [hx]
            rw [if_pos this] at h
            omega
          have hall := List.countP_eq_zero.mp h0
          by_cases hj : j' < xs.length
          · have := hall (xs[j']) (List.getElem_mem hj)
            simp at this
            simp [List.getD_eq_getElem?_getD, hj, this]
          · simp [List.getD_eq_getElem?_getD, List.getElem?_eq_none (by omega : xs.length ≤ j')]
      | succ i' =>
        simp only [List.getD_cons_succ]
        exact ih (by omega) i' j' (by omega)

end Cider
