/-
  ciderdrv — line-protocol driver for the executable model.
  usage: ciderdrv [gen|spec] < ops > out      (one op per line in, one canonical line out)
  `gen`  : tables regenerated from the live code (correspondence tie)
  `spec` : frozen published tables (the property oracle)
-/
import Cider.Model.TablesSpec
import Cider.Model.TablesGen
import Cider.Spec.Defs
open Cider

def ratStr (q : Rat) : String := s!"{q.num}/{q.den}"
def outRat (q : Rat) : String := "rat " ++ ratStr q
def outVec (v : List Rat) : String := "vec" ++ String.join (v.map (fun q => " " ++ ratStr q))
def outExc (e : Err) : String := "exc " ++ e.name
def outExcept {α} (f : α → String) : Except Err α → String
  | .ok a => f a
  | .error e => outExc e

def patStr (p : Pattern) : String :=
  String.ofList (p.map (fun x => if 0 < x then '+' else if x < 0 then '-' else '0'))

def hexVal (c : Char) : Nat :=
  if '0' ≤ c ∧ c ≤ '9' then c.toNat - '0'.toNat
  else if 'a' ≤ c ∧ c ≤ 'f' then c.toNat - 'a'.toNat + 10
  else if 'A' ≤ c ∧ c ≤ 'F' then c.toNat - 'A'.toNat + 10 else 0

/-- hex string of UTF-32 code points, 6 hex digits each: "000041" = 'A' -/
def unhex6 : List Char → List Char
  | a :: b :: c :: d :: e :: f :: rest =>
    Char.ofNat (((((hexVal a * 16 + hexVal b) * 16 + hexVal c) * 16 + hexVal d) * 16 + hexVal e) * 16 + hexVal f) :: unhex6 rest
  | _ => []

/-- group token: "-" = None, "[]" = empty list, else comma separated members: "s<hex6...>" or "n" -/
def parseGroupTok (t0 : String) : Option (List PyMember) :=
  -- "S:" prefix = the harness passes the group to the real API as one str (iterated char by char)
  let t := if t0.startsWith "S:" then (t0.drop 2).toString else t0
  if t == "-" then none
  else if t == "[]" then some []
  else some ((t.splitOn ",").map (fun m =>
    match m.toList with
    | 's' :: rest => PyMember.str (unhex6 rest)
    | _ => PyMember.nonStr))

def lagVec (p : Pattern) : List Int := (List.range p.length).tail.map (fun d => lagSum p d)

/-- all distinct arrangements of a composition (driver-only helper for the exhaustive arg-max oracle) -/
partial def arrangements : Nat → Nat → Nat → List Pattern
  | 0, 0, 0 => [[]]
  | a, b, c =>
    (if a > 0 then (arrangements (a - 1) b c).map ((1 : Int) :: ·) else []) ++
    (if b > 0 then (arrangements a (b - 1) c).map ((-1 : Int) :: ·) else []) ++
    (if c > 0 then (arrangements a b (c - 1)).map ((0 : Int) :: ·) else [])

/-- the true delta-maximising arrangement by exhaustive search (first maximiser) -/
def trueArgmax (a b c : Nat) : Rat × Pattern :=
  (arrangements a b c).foldl (fun (acc : Rat × Pattern) p => let d := delta p; if acc.1 < d then (d, p) else acc) (-1, [])

def handle (T : Tables) (line : String) : String :=
  match (line.trimAscii.toString.splitOn " ").filter (· ≠ "") with
  | ["argmax", a, b, c] =>
    let r := trueArgmax a.toNat! b.toNat! c.toNat!
    s!"argmax {ratStr r.1} {patStr r.2} {ratStr (dmaxComp a.toNat! b.toNat! c.toNat!)}"
  | "q" :: name :: seqTok :: args =>
    match Seq.ofChars? seqTok.toList with
    | none => "bad-op seq"
    | some s =>
      let p := patternOf T s
      match name, args with
      | "kappa", [] => outRat (seqKappa T s)
      | "delta", [] => outRat (seqDelta T s)
      | "dform", [w] => outRat (deltaForm w.toNat! p)
      | "dmax", [] => outRat (seqDmax T s)
      | "dmaxperm", [] =>
        match dmaxArg p with
        | none => s!"perm {ratStr (seqDmax T s)} - {s.toString}"
        | some c => s!"perm {ratStr (seqDmax T s)} {patStr c} {(permutantFromReduced c s).toString}"
      | "sigma", [] => outRat (seqSigma T s)
      | "specdelta", [] => outRat (Spec.delta p)
      | "specsigma", [] => outRat (Spec.sigmaDef p)
      | "specdmax", [] => outRat (Spec.dmaxDef (countPos p) (countNeg p) (countNeut p))
      | "specregion", [] => s!"int {Spec.regionDef (countPos p) (countNeg p) p.length}"
      | "pattern", [] => "str " ++ patStr p
      | "omega", [] => outRat (omega T s)
      | "omegaseq", [] => "str " ++ omegaSeq T s
      | "kappaX", [g1, g2] =>
        match parseGroupTok g1 with
        | none => "bad-op g1"
        | some m1 => outExcept outRat (kappaX m1 (parseGroupTok g2) s)
      | "region", [] => outExcept (fun n => s!"int {n}") (phaseRegion T s)
      | "countPos", [] => s!"int {nPos T s}"
      | "countNeg", [] => s!"int {nNeg T s}"
      | "countNeut", [] => s!"int {nNeut T s}"
      | "fplus", [] => outRat (fPlus T s)
      | "fminus", [] => outRat (fMinus T s)
      | "fcr", [] => outRat (fcr T s)
      | "ncpr", [] => outRat (ncpr T s)
      | "mnc", [] => outRat (meanNetCharge T s)
      | "fer", [] => outRat (fer T s)
      | "disorder", [] => outRat (fracDisorder T s)
      | "aafrac", [] => outVec (AA.all.map (aaFraction s))
      | "kd", [] => outRat (meanHydropathy T s)
      | "uversky", [] => outRat (uverskyHydropathy T s)
      | "ww", [] => outRat (meanWW T s)
      | "ppii", ["hilser"] => outRat (ppii T.ppiiH s)
      | "ppii", ["creamer"] => outRat (ppii T.ppiiC s)
      | "ppii", ["kallenbach"] => outRat (ppii T.ppiiK s)
      | "mw", [] => outRat (molWeight T s)
      | "lag", [] => "ints" ++ String.join ((lagVec p).map (fun i => s!" {i}"))
      | "scd", [] => s!"scdlag {p.length}" ++ String.join ((lagVec p).map (fun i => s!" {i}"))
      | _, _ => "bad-op " ++ name
  | [] => ""
  | _ => "bad-op"

partial def loop (T : Tables) (h : IO.FS.Stream) (out : IO.FS.Stream) : IO Unit := do
  let line ← h.getLine
  if line.isEmpty then return ()
  out.putStrLn (handle T line)
  loop T h out

def main (args : List String) : IO Unit := do
  let T := if args.head? == some "spec" then specTables else genTables
  let stdin ← IO.getStdin
  let stdout ← IO.getStdout
  loop T stdin stdout
