/-
  ciderdrv — line-protocol driver for the executable model.
  usage: ciderdrv [gen|spec] < ops > out      (one op per line in, one canonical line out)
  `gen`  : tables regenerated from the live code (correspondence tie)
  `spec` : frozen published tables (the property oracle)
  Stateful ops act on numbered objects; `reset` forgets all of them.
-/
import Cider.Model.TablesSpec
import Cider.Model.TablesGen
import Cider.Spec.Defs
import Cider.Model.Text
import Cider.Model.Object
import Cider.Model.Profiles
import Cider.Model.Moves
import Cider.Model.TextOps
import Cider.Model.PH
import Cider.Model.WL
open Cider

def ratStr (q : Rat) : String := s!"{q.num}/{q.den}"
def outRat (q : Rat) : String := "rat " ++ ratStr q
def outVec (v : List Rat) : String := "vec" ++ String.join (v.map (fun q => " " ++ ratStr q))
def outNats (v : List Nat) : String := "ints" ++ String.join (v.map (fun q => s!" {q}"))
def outExc (e : Err) : String := "exc " ++ e.name
def outExcept {α} (f : α → String) : Except Err α → String
  | .ok a => f a
  | .error e => outExc e
def outMat (rows : List (List Rat)) : String :=
  s!"mat {rows.length} {(rows.head?.map List.length).getD 0}" ++ String.join (rows.flatten.map (fun q => " " ++ ratStr q))

def patStr (p : Pattern) : String :=
  String.ofList (p.map (fun x => if 0 < x then '+' else if x < 0 then '-' else '0'))

def hexVal (c : Char) : Nat :=
  if '0' ≤ c ∧ c ≤ '9' then c.toNat - '0'.toNat
  else if 'a' ≤ c ∧ c ≤ 'f' then c.toNat - 'a'.toNat + 10
  else if 'A' ≤ c ∧ c ≤ 'F' then c.toNat - 'A'.toNat + 10 else 0

/-- hex string of code points, 6 hex digits each: "000041" = 'A' -/
def unhex6 : List Char → List Char
  | a :: b :: c :: d :: e :: f :: rest =>
    Char.ofNat (((((hexVal a * 16 + hexVal b) * 16 + hexVal c) * 16 + hexVal d) * 16 + hexVal e) * 16 + hexVal f) :: unhex6 rest
  | _ => []

def hex6 (cs : List Char) : String :=
  String.join (cs.map (fun c =>
    let h := (Nat.toDigits 16 c.toNat)
    String.ofList (List.replicate (6 - h.length) '0' ++ h)))

/-- group token: "-" = None, "[]" = empty list, else comma separated members: "s<hex6...>" or "n" -/
def parseGroupTok (t0 : String) : Option (List PyMember) :=
  let t := if t0.startsWith "S:" then (t0.drop 2).toString else t0
  if t == "-" then none
  else if t == "[]" then some []
  else some ((t.splitOn ",").map (fun m =>
    match m.toList with
    | 's' :: rest => PyMember.str (unhex6 rest)
    | _ => PyMember.nonStr))

/-- list of groups: groups separated by ';' ("-" = no groups given) -/
def parseGroupsTok (t : String) : List (List PyMember) :=
  if t == "-" then [] else (t.splitOn ";").map (fun g => (parseGroupTok g).getD [])

def lagVec (p : Pattern) : List Int := (List.range p.length).tail.map (fun d => lagSum p d)

partial def arrangements : Nat → Nat → Nat → List Pattern
  | 0, 0, 0 => [[]]
  | a, b, c =>
    (if a > 0 then (arrangements (a - 1) b c).map ((1 : Int) :: ·) else []) ++
    (if b > 0 then (arrangements a (b - 1) c).map ((-1 : Int) :: ·) else []) ++
    (if c > 0 then (arrangements a b (c - 1)).map ((0 : Int) :: ·) else [])

def trueArgmax (a b c : Nat) : Rat × Pattern :=
  (arrangements a b c).foldl (fun (acc : Rat × Pattern) p => let d := delta p; if acc.1 < d then (d, p) else acc) (-1, [])

/-- `Float` as the executable "real-like" numbers -/
instance : RealLike Float where
  ofRat q := Float.ofInt q.num / Float.ofNat q.den
  pow10 x := Float.pow 10.0 x
  ltB a b := a < b

/-- exact print of a double: its IEEE-754 bit pattern -/
def outFloat (x : Float) : String := s!"flt {x.toBits.toNat}"

def parseRatTok (t : String) : Rat :=
  match t.splitOn "/" with
  | [n, d] => (n.toInt! : Rat) / (d.toNat! : Rat)
  | [n] => (n.toInt! : Rat)
  | _ => 0

def titrOf := PH.titrOf

def specPalette : Palette := Spec.defaultPalette
def genPalette : Palette := Gen.defaultPalette

structure Cfg where
  tt : PH.Titration
  T : Tables
  pal : Palette
  reduceTab : Nat → Option (AA → AA)
  alphabetTab : Nat → Option (List AA)

/-- dict token: comma separated `<hexkey>=<hexval>` ("v" alone as value = non-string value) -/
def parseDictTok (t : String) : PyDict :=
  if t == "-" then [] else
  (t.splitOn ",").filterMap (fun kv =>
    match kv.splitOn "=" with
    | [k, v] => some (String.ofList (unhex6 k.toList), if v == "n" then "\u0000nonstring" else String.ofList (unhex6 v.toList))
    | _ => none)

/-- user alphabet token: "-" = none/empty, else dict token -/
def parseUserAlphabet (t : String) : Option UserAlphabet :=
  if t == "-" then none else
  let d := parseDictTok t
  some (fun a => (d.get? (String.singleton a.toChar)).map String.toList)

def posRow (s : Seq) : List Rat := (positions1N s.length).map (fun (n : Nat) => (n : Rat))

def seqQuery (cfg : Cfg) (name : String) (s : Seq) (args : List String) : String :=
  let T := cfg.T
  let p := patternOf T s
  match name, args with
  | "kappa", [] => outRat (seqKappa T s)
  | "delta", [] => outRat (seqDelta T s)
  | "dform", [w] => outRat (deltaForm w.toNat! p)
  | "dmax", [] => outRat (seqDmax T s)
  | "dmaxperm", [] =>
    match dmaxArg p with
    | none => s!"perm {ratStr (seqDmax T s)} - {s.toString}"
    | some c => s!"perm {ratStr (seqDmax T s)} {patStr c} {(permutantFromReduced c s).toString}"
  | "sigma", [] => outRat (seqSigma T s)
  | "specdelta", [] => outRat (Spec.delta p)
  | "specsigma", [] => outRat (Spec.sigmaDef p)
  | "specdmax", [] => outRat (Spec.dmaxDef (countPos p) (countNeg p) (countNeut p))
  | "specregion", [] => s!"int {Spec.regionDef (countPos p) (countNeg p) p.length}"
  | "pattern", [] => "str " ++ patStr p
  | "omega", [] => outRat (omega T s)
  | "omegaseq", [] => "str " ++ omegaSeq T s
  | "kappaX", [g1, g2] =>
    match parseGroupTok g1 with
    | none => "bad-op g1"
    | some m1 => outExcept outRat (kappaX m1 (parseGroupTok g2) s)
  | "region", [] => outExcept (fun n => s!"int {n}") (phaseRegion T s)
  | "countPos", [] => s!"int {nPos T s}"
  | "countNeg", [] => s!"int {nNeg T s}"
  | "countNeut", [] => s!"int {nNeut T s}"
  | "fplus", [] => outRat (fPlus T s)
  | "fminus", [] => outRat (fMinus T s)
  | "fcr", [] => outRat (fcr T s)
  | "ncpr", [] => outRat (ncpr T s)
  | "mnc", [] => outRat (meanNetCharge T s)
  | "fer", [] => outRat (fer T s)
  | "disorder", [] => outRat (fracDisorder T s)
  | "aafrac", [] => outVec (AA.all.map (aaFraction s))
  | "kd", [] => outRat (meanHydropathy T s)
  | "uversky", [] => outRat (uverskyHydropathy T s)
  | "ww", [] => outRat (meanWW T s)
  | "ppii", [m] =>
    -- the scale name is documented as case-insensitive; "default" = the call without a mode argument
    let ml := m.toLower
    if ml == "hilser" || m == "default" then outRat (ppii T.ppiiH s)
    else if ml == "creamer" then outRat (ppii T.ppiiC s)
    else if ml == "kallenbach" then outRat (ppii T.ppiiK s)
    else outExc .other
  | "mw", [] => outRat (molWeight T s)
  | "lag", [] => "ints" ++ String.join ((lagVec p).map (fun i => s!" {i}"))
  | "scd", [] => s!"scdlag {p.length}" ++ String.join ((lagVec p).map (fun i => s!" {i}"))
  | "seq", [] => "str " ++ s.toString
  | "len", [] => s!"int {s.length}"
  -- str(obj) / repr without the address: "SequenceParameter [len=N], [seq='...']" (spaces are sent as '_')
  | "strof", [] => "str SequenceParameter_[len=" ++ toString s.length ++ "],_[seq='" ++ s.toString ++ "']"
  | "sty", [] => outNats (allSTY s)
  -- C10
  | "linNCPR", [w] => outExcept (fun v => outMat [posRow s, v]) (linNCPR T w.toNat! s)
  | "linFCR", [w] => outExcept (fun v => outMat [posRow s, v]) (linFCR T w.toNat! s)
  | "linSigma", [w] => outExcept (fun v => outMat [posRow s, v]) (linSigma T w.toNat! s)
  | "linHydro", [w] => outExcept (fun v => outMat [posRow s, v]) (linHydro T w.toNat! s)
  | "linComp", [w, g] =>
    outExcept (fun rows => outMat (posRow s :: rows)) (linComposition w.toNat! (parseGroupsTok g) s)
  -- C09: phq <getter> <pH as num/den>
  | "phq", [g, ph] =>
    let pH : Float := RealLike.ofRat (parseRatTok ph)
    if PH.pHRejected pH then outExc .pHRange
    else if g == "ncpr" then outFloat (PH.ncprPH cfg.tt pH s)
    else if g == "fcr" then outFloat (PH.fcrPH cfg.tt pH s)
    else if g == "mnc" then outFloat (PH.meanNetChargePH cfg.tt pH s)
    else if g == "fer" then outFloat (PH.ferPH cfg.tt pH s)
    else "bad-op phq"
  | "pi", [] =>
    match (PH.isoelectricPoint cfg.tt s : Option (Except Err Float)) with
    | none => "bad-op fuel"
    | some (.ok x) => outFloat x
    | some (.error e) => outExc e
  | "pisound", [] => "bool true"   -- property oracle evaluated on the real code only
  | "titr", [] => outNats (titrCounts s ++ [s.count AA.P, s.length])
  -- C12
  | "reduce", [size, ua] =>
    outExcept (fun r => s!"red {r.1.toString} {(r.2 : Seq).toString}") (reduceSeq cfg.reduceTab cfg.alphabetTab size.toNat? (parseUserAlphabet ua) s)
  -- C11: cplx <type> <size> <ua> <w> <step> <wordSize>
  | "cplx", [typ, size, ua, w, st, ws] =>
    let w := w.toNat!; let st := st.toNat!; let ws := ws.toNat!
    if ¬ (typ == "WF" ∨ typ == "LC" ∨ typ == "LZW") then outExc .badComplexityType
    else if s.length < w then outExc .windowTooLong
    else match reduceSeq cfg.reduceTab cfg.alphabetTab size.toNat? (parseUserAlphabet ua) s with
      | .error e => outExc e
      | .ok (rs, al) =>
        let wsx := windowsStep w st rs
        let pos := complexityPositions wsx.length s.length
        let posS := String.join (pos.map (fun n => s!" {n}"))
        if typ == "WF" then
          s!"wf {al.length} {w} {wsx.length}{posS} |" ++ String.join (wsx.map (fun win => " " ++ String.intercalate "," ((letterCounts al win).map toString)))
        else if typ == "LC" then
          s!"cx {wsx.length}{posS} |" ++ String.join (wsx.map (fun win => " " ++ ratStr (lcWindow al.length ws w win)))
        else
          s!"cx {wsx.length}{posS} |" ++ String.join (wsx.map (fun win => " " ++ ratStr (lzwWindow w win)))
  | _, _ => "bad-op " ++ name

/-- a query on a live object: returns the (possibly cache-updated) object and the canonical output -/
def objQuery (cfg : Cfg) (o : Obj) (name : String) (args : List String) : Obj × String :=
  let T := cfg.T
  match name, args with
  | "kappa", [] => let r := o.kappa T; (r.1, outRat r.2)
  | "dmax", [] => let r := o.deltaMax T false; (r.1, outRat r.2.1)
  | "dmaxperm", [] =>
    let r := o.deltaMax T true
    (r.1, s!"perm {ratStr r.2.1} ? {((r.2.2).getD []).toString}")
  | "kappaphos", [] => let r := o.kappaAfterPhos T; (r.1, outRat r.2)
  | "getphos", [] => (o, outNats o.getPhos)
  | "phosseq", [] => (o, "str " ++ o.phosphoSeq.toString)
  | "phosdist", [] =>
    (o, s!"dist {(o.phosDist T).length}" ++ String.join ((o.phosDist T).map (fun e =>
      " " ++ String.intercalate "," (e.1.map ratStr) ++ ":" ++ String.ofList (e.2.map (fun b => if b then '1' else '0')))))
  | "html", [] => (o, "str " ++ o.html)
  | _, _ => (o, seqQuery cfg name o.seq args)

structure St where
  objs : List (Nat × Obj)
  wl : Option (WLCfg × WLState) := none

def St.get (st : St) (i : Nat) : Option Obj := (st.objs.find? (fun kv => kv.1 == i)).map (·.2)
def St.set (st : St) (i : Nat) (o : Obj) : St := { objs := (i, o) :: st.objs.filter (fun kv => kv.1 != i) }

def handle (cfg : Cfg) (st : St) (line : String) : St × String :=
  let T := cfg.T
  match (line.trimAscii.toString.splitOn " ").filter (· ≠ "") with
  | ["reset"] => ({ objs := [] }, "ok")
  | "plot" :: _ => (st, "ok")   -- figures are described by the real side only; coordinates come from the q lines of the block
  -- C18: wlinit nbins rmin rmax ntarget nflatchk flatcrit convLn start ; wlstep idxNew rbits
  | ["wlinit", nb, rmin, rmax, nt, nf, crit, conv, start] =>
    let cfg : WLCfg := { nbins := nb.toNat!, rmin := rmin.toNat!, rmax := rmax.toNat!, ntarget := nt.toNat!,
                         nflatchk := nf.toNat!, flatcrit := parseRatTok crit, convLn := parseRatTok conv }
    ({ st with wl := some (cfg, wlInit cfg start.toNat!) }, "ok")
  | ["wlstep", idx, rbits] =>
    match st.wl with
    | none => (st, "bad-op nowl")
    | some (cfg, ws) =>
      let r : Float := Float.ofBits (UInt64.ofNat rbits.toNat!)
      let ratToFloat : Rat → Float := fun q => Float.ofInt q.num / Float.ofNat q.den
      let accept : Rat → Bool := fun d => r < (if Float.exp (ratToFloat d) < 1.0 then Float.exp (ratToFloat d) else 1.0)
      let running := wlRunning cfg ws
      let res := wlStep cfg accept ws idx.toNat!
      let ws' := res.1
      ({ st with wl := some (cfg, ws') },
        s!"wl {if running then 1 else 0} {if res.2 then 1 else 0} {ws'.cur} {ratStr (ws'.g.getD ws'.cur 0)} {ws'.H.getD ws'.cur 0} {ws'.fexp} {ws'.nstep} {ws'.niter} {if wlRunning cfg ws' then 1 else 0}")
  | ["wlcfg", lo, hi, nb] =>
    let r := wlConfig (parseRatTok lo) (parseRatTok hi) nb.toNat!
    (st, s!"wlcfg {r.1}" ++ String.join (r.2.map (fun i => s!" {i}")))
  | ["wlg"] =>
    match st.wl with
    | none => (st, "bad-op nowl")
    | some (_, ws) => (st, outVec ws.g)
  | ["binof", n, k] => (st, s!"int {binOf n.toNat! (parseRatTok k)}")
  | ["argmax", a, b, c] =>
    let r := trueArgmax a.toNat! b.toNat! c.toNat!
    (st, s!"argmax {ratStr r.1} {patStr r.2} {ratStr (dmaxComp a.toNat! b.toNat! c.toNat!)}")
  | "q" :: name :: seqTok :: args =>
    match Seq.ofChars? seqTok.toList with
    | none => (st, "bad-op seq")
    | some s =>
      if name == "dmaxperm" then (st, seqQuery cfg name s args)   -- fresh object: also prints the candidate pattern
      else (st, (objQuery cfg (Obj.fresh cfg.pal s) name args).2)
  -- C13
  | ["mk", hex] => (st, outExcept (fun w => "str " ++ (w : Seq).toString) (construct pyOps (.str (unhex6 hex.toList))))
  | ["mk"] => (st, outExcept (fun w => "str " ++ (w : Seq).toString) (construct pyOps (.str [])))
  -- mkcwd <hex> <query>: the same construction, made while the working directory holds files named like the string (no effect)
  | "mkcwd" :: hex :: name :: args =>
    match construct pyOps (.str (unhex6 hex.toList)) with
    | .error e => (st, outExc e)
    | .ok w => (st, seqQuery cfg name w args)
  -- backendq <hex> <query>: the backend object built directly from (lower / mixed case) residue letters
  | "backendq" :: hex :: name :: args =>
    match construct pyOps (.str (unhex6 hex.toList)) with
    | .error e => (st, outExc e)
    | .ok w => (st, seqQuery cfg name w args)
  | "mkother" :: _ => (st, outExcept (fun w => "str " ++ (w : Seq).toString) (construct pyOps .other))
  | "mkq" :: hex :: name :: args =>
    match construct pyOps (.str (unhex6 hex.toList)) with
    | .error e => (st, outExc e)
    | .ok w => (st, seqQuery cfg name w args)
  -- C14
  | ["parse", hex] => (st, outExcept (fun w => "str " ++ String.ofList w) (parseFile pyOps (unhex6 hex.toList)))
  | ["parse"] => (st, outExcept (fun w => "str " ++ String.ofList w) (parseFile pyOps []))
  -- `parse2`: the harness reuses ONE parser object for every such line of a block; the model is a pure function
  | ["parse2", hex] => (st, outExcept (fun w => "str " ++ String.ofList w) (parseFile pyOps (unhex6 hex.toList)))
  | ["parse2"] => (st, outExcept (fun w => "str " ++ String.ofList w) (parseFile pyOps []))
  | "parseq" :: hex :: name :: args =>
    match parseFile pyOps (unhex6 hex.toList) with
    | .error e => (st, outExc e)
    | .ok cs => match Seq.ofChars? cs with
      | none => (st, "bad-op parsed")
      | some w => (st, seqQuery cfg name w args)
  -- stateful objects
  -- shufall j i: a shuffle of object i with every position frozen = a NEW object holding the same sequence (no phosphosites, default palette)
  | ["copyobj", j, i] =>
    match st.get i.toNat! with
    | none => (st, "bad-op noobj")
    | some o => (st.set j.toNat! o, "ok")
  | ["shufall", j, i] =>
    match st.get i.toNat! with
    | none => (st, "bad-op noobj")
    | some o => (st.set j.toNat! (Obj.fresh cfg.pal o.seq), "ok")
  | ["new", i, seqTok] =>
    match Seq.ofChars? seqTok.toList with
    | none => (st, "bad-op seq")
    | some s => (st.set i.toNat! (Obj.fresh cfg.pal s), s!"ok {s.length}")
  | "o" :: i :: name :: args =>
    match st.get i.toNat! with
    | none => (st, "bad-op noobj")
    | some o => let r := objQuery cfg o name args; (st.set i.toNat! r.1, r.2)
  | "setphos" :: i :: sites =>
    match st.get i.toNat! with
    | none => (st, "bad-op noobj")
    | some o => (st.set i.toNat! (o.setPhos (sites.map String.toInt!)), "ok")
  | ["clearphos", i] =>
    match st.get i.toNat! with
    | none => (st, "bad-op noobj")
    | some o => (st.set i.toNat! o.clearPhos, "ok")
  | ["setpal", i, d] =>
    match st.get i.toNat! with
    | none => (st, "bad-op noobj")
    | some o => let r := o.setPal (parseDictTok d); (st.set i.toNat! r.1, if r.2 then "ok" else "exc badPalette")
  -- C17 moves: tape-driven
  | "move" :: kind :: seqTok :: rest =>
    match Seq.ofChars? seqTok.toList with
    | none => (st, "bad-op seq")
    | some s => (st, moveOp T kind s rest)
  | [] => (st, "")
  | _ => (st, "bad-op")

partial def loop (cfg : Cfg) (st : St) (h : IO.FS.Stream) (out : IO.FS.Stream) : IO Unit := do
  let line ← h.getLine
  if line.isEmpty then return ()
  let (st', o) := handle cfg st line
  out.putStrLn o
  loop cfg st' h out

def main (args : List String) : IO Unit := do
  let cfg : Cfg :=
    if args.head? == some "spec" then
      { tt := titrOf Spec.titrClass Spec.pKaND, T := specTables, pal := specPalette, reduceTab := Spec.reduceTab, alphabetTab := Spec.alphabetTab }
    else
      { tt := titrOf Gen.titrClass Gen.pKaND, T := genTables, pal := genPalette, reduceTab := Gen.reduceTab, alphabetTab := Gen.alphabetTab }
  let stdin ← IO.getStdin
  let stdout ← IO.getStdout
  loop cfg { objs := [] } stdin stdout
