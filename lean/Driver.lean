/-
  ciderdrv — line-protocol driver for the executable model.
  usage: ciderdrv [gen|spec] < ops > out      (one op per line in, one canonical line out)
  `gen`  : tables regenerated from the live code (correspondence tie)
  `spec` : frozen published tables (the property oracle)
-/
import Cider.Model.TablesSpec
import Cider.Model.TablesGen
open Cider

def ratStr (q : Rat) : String := s!"{q.num}/{q.den}"
def outRat (q : Rat) : String := "rat " ++ ratStr q
def outVec (v : List Rat) : String := "vec" ++ String.join (v.map (fun q => " " ++ ratStr q))
def outExc (e : Err) : String := "exc " ++ e.name
def outExcept {α} (f : α → String) : Except Err α → String
  | .ok a => f a
  | .error e => outExc e

def patStr (p : Pattern) : String :=
  String.ofList (p.map (fun x => if 0 < x then '+' else if x < 0 then '-' else '0'))

def hexVal (c : Char) : Nat :=
  if '0' ≤ c ∧ c ≤ '9' then c.toNat - '0'.toNat
  else if 'a' ≤ c ∧ c ≤ 'f' then c.toNat - 'a'.toNat + 10
  else if 'A' ≤ c ∧ c ≤ 'F' then c.toNat - 'A'.toNat + 10 else 0

/-- hex string of UTF-32 code points, 6 hex digits each: "000041" = 'A' -/
def unhex6 : List Char → List Char
  | a :: b :: c :: d :: e :: f :: rest =>
    Char.ofNat (((((hexVal a * 16 + hexVal b) * 16 + hexVal c) * 16 + hexVal d) * 16 + hexVal e) * 16 + hexVal f) :: unhex6 rest
  | _ => []

/-- group token: "-" = None, "[]" = empty list, else comma separated members: "s<hex6...>" or "n" -/
def parseGroupTok (t : String) : Option (List PyMember) :=
  if t == "-" then none
  else if t == "[]" then some []
  else some ((t.splitOn ",").map (fun m =>
    match m.toList with
    | 's' :: rest => PyMember.str (unhex6 rest)
    | _ => PyMember.nonStr))

/-- permutant built from a reduced candidate and the parent's residues (`__permutant_from_reduced_seq`) -/
def permutantFromReduced (T : Tables) (cand : Pattern) (parent : Seq) : Seq :=
  let pos := parent.filter (fun a => a = AA.R ∨ a = AA.K)
  let neg := parent.filter (fun a => a = AA.D ∨ a = AA.E)
  let neu := parent.filter (fun a => ¬ (a = AA.D ∨ a = AA.E ∨ a = AA.R ∨ a = AA.K))
  let rec go : Pattern → List AA → List AA → List AA → List AA
    | [], _, _, _ => []
    | c :: cs, ps, ns, us =>
      if 0 < c then match ps with
        | x :: ps' => x :: go cs ps' ns us
        | [] => go cs ps ns us
      else if c < 0 then match ns with
        | x :: ns' => x :: go cs ps ns' us
        | [] => go cs ps ns us
      else match us with
        | x :: us' => x :: go cs ps ns us'
        | [] => go cs ps ns us
  let _ := T
  go cand pos neg neu

def lagVec (p : Pattern) : List Int := (List.range p.length).tail.map (fun d => lagSum p d)

def handle (T : Tables) (line : String) : String :=
  match (line.trimAscii.toString.splitOn " ").filter (· ≠ "") with
  | "q" :: name :: seqTok :: args =>
    match Seq.ofChars? seqTok.toList with
    | none => "bad-op seq"
    | some s =>
      let p := patternOf T s
      match name, args with
      | "kappa", [] => outRat (seqKappa T s)
      | "delta", [] => outRat (seqDelta T s)
      | "dform", [w] => outRat (deltaForm w.toNat! p)
      | "dmax", [] => outRat (seqDmax T s)
      | "dmaxperm", [] =>
        match dmaxArg p with
        | none => s!"perm {ratStr (seqDmax T s)} none"
        | some c => s!"perm {ratStr (seqDmax T s)} {patStr c} {(permutantFromReduced T c s).toString}"
      | "sigma", [] => outRat (seqSigma T s)
      | "pattern", [] => "str " ++ patStr p
      | "omega", [] => outRat (omega T s)
      | "omegaseq", [] => "str " ++ omegaSeq T s
      | "kappaX", [g1, g2] =>
        match parseGroupTok g1 with
        | none => "bad-op g1"
        | some m1 => outExcept outRat (kappaX m1 (parseGroupTok g2) s)
      | "region", [] => outExcept (fun n => s!"int {n}") (phaseRegion T s)
      | "countPos", [] => s!"int {nPos T s}"
      | "countNeg", [] => s!"int {nNeg T s}"
      | "countNeut", [] => s!"int {nNeut T s}"
      | "fplus", [] => outRat (fPlus T s)
      | "fminus", [] => outRat (fMinus T s)
      | "fcr", [] => outRat (fcr T s)
      | "ncpr", [] => outRat (ncpr T s)
      | "mnc", [] => outRat (meanNetCharge T s)
      | "fer", [] => outRat (fer T s)
      | "disorder", [] => outRat (fracDisorder T s)
      | "aafrac", [] => outVec (AA.all.map (aaFraction s))
      | "kd", [] => outRat (meanHydropathy T s)
      | "uversky", [] => outRat (uverskyHydropathy T s)
      | "ww", [] => outRat (meanWW T s)
      | "ppii", ["hilser"] => outRat (ppii T.ppiiH s)
      | "ppii", ["creamer"] => outRat (ppii T.ppiiC s)
      | "ppii", ["kallenbach"] => outRat (ppii T.ppiiK s)
      | "mw", [] => outRat (molWeight T s)
      | "lag", [] => "ints" ++ String.join ((lagVec p).map (fun i => s!" {i}"))
      | _, _ => "bad-op " ++ name
  | [] => ""
  | _ => "bad-op"

partial def loop (T : Tables) (h : IO.FS.Stream) (out : IO.FS.Stream) : IO Unit := do
  let line ← h.getLine
  if line.isEmpty then return ()
  out.putStrLn (handle T line)
  loop T h out

def main (args : List String) : IO Unit := do
  let T := if args.head? == some "spec" then specTables else genTables
  let stdin ← IO.getStdin
  let stdout ← IO.getStdout
  loop T stdin stdout
