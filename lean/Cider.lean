import Cider.Model.Basic
import Cider.Model.Err
import Cider.Model.Pattern
import Cider.Gen.Tables
import Cider.Gen.Polygons
import Cider.Spec.Published
import Cider.Spec.PublishedPolygons
import Cider.Model.SeqParams
